//! Demonstration for mutant N6 (src/cobertura.rs get_coverage: `number: i` -> `number: i as u8 as usize`).
//! Drop into /repo/tests/ and run `cargo test --offline --test demo_n6`.
//! Passes on the original tree, fails on the mutant: a line with more than 256 branches gets
//! its conditions renumbered from 256 on (condition 256 is written as number="0", …), so a reader
//! keyed by (line, number) sees 256 conditions, 44 of them twice — C03 "no branch … duplicated, renumbered".
use grcov::{output_cobertura, CovResult};
use std::collections::BTreeSet;
use std::path::PathBuf;

#[test]
fn cobertura_condition_numbers_beyond_255() {
    let mut c = CovResult::default();
    c.lines.insert(7, 3);
    c.branches.insert(7, (0..300).map(|i| i % 3 == 0).collect());
    let rs = vec![(PathBuf::from("/nonexistent/a.c"), PathBuf::from("a.c"), c)];
    let dir = tempfile::tempdir().unwrap();
    let out = dir.path().join("cobertura.xml");
    output_cobertura(None, &rs, Some(&out), false, false);
    let xml = std::fs::read_to_string(&out).unwrap();
    let numbers: Vec<u32> = xml
        .split("<condition number=\"")
        .skip(1)
        .map(|s| s[..s.find('"').unwrap()].parse().unwrap())
        .collect();
    assert_eq!(numbers.len(), 300);
    let distinct: BTreeSet<u32> = numbers.iter().cloned().collect();
    assert_eq!(distinct.len(), 300, "condition numbers repeat: the branches were renumbered");
    assert_eq!(numbers, (0..300).collect::<Vec<u32>>());
}
