//! Demonstration for mutant N1 (src/html.rs gen_html: `.get(&(index as u32))` -> `.get(&(index as u16 as u32))`).
//! Drop into /repo/tests/ and run `cargo test --offline --test demo_n1`.
//! Passes on the original tree, fails on the mutant: in a source of more than 65535 lines
//! (amalgamations, generated code) row n shows the count of line n mod 65536.  Here only line 5 is
//! instrumented (count 3); the mutant's page also shows row 65541 as covered with count 3 —
//! C03: "a line that is not instrumented is never shown as instrumented", "no line added".
use grcov::{html::HtmlResources, output_html, CovResult};
use std::path::PathBuf;

fn label_of_row(page: &str, n: u32) -> String {
    let at = page.find(&format!("id=\"{}\"", n)).expect("row missing");
    let rest = &page[at..];
    let a = rest.find("aria-label=\"").unwrap() + "aria-label=\"".len();
    rest[a..a + rest[a..].find('"').unwrap()].to_string()
}

#[test]
fn html_rows_beyond_line_65535() {
    let dir = tempfile::tempdir().unwrap();
    let src = dir.path().join("big.c");
    let text: String = (1..=70000).map(|i| format!("int v{};\n", i)).collect();
    std::fs::write(&src, text).unwrap();
    let mut c = CovResult::default();
    c.lines.insert(5, 3);
    let rs = vec![(src.clone(), PathBuf::from("big.c"), c)];
    let out = dir.path().join("html");
    output_html(&rs, Some(&out), 1, false, None, 2, &None, true, HtmlResources::Cdn);
    let page = std::fs::read_to_string(out.join("big.c.html")).unwrap();
    assert_eq!(label_of_row(&page, 5), "3");
    assert_eq!(label_of_row(&page, 65541), "no coverage", "row 65541 is not instrumented");
}
