//! Demonstration for mutant K5 (src/output.rs, output_coveralls: `n as u32` -> `n as u8 as u32`).
//! Drop into /repo/tests/ and run `cargo test --offline --test demo_k5`.
//! Passes on the original tree, fails on the mutant: a line with more than 256 branches
//! (e.g. a big `switch` / `match`, a macro expansion) gets its branches RENUMBERED from 256 on.
use grcov::{output_coveralls, CovResult};
use std::path::PathBuf;

#[test]
fn coveralls_branch_numbers_beyond_255() {
    let mut c = CovResult::default();
    c.lines.insert(7, 3);
    c.branches.insert(7, (0..300).map(|i| i % 3 == 0).collect());
    let rs = vec![(PathBuf::from("/nonexistent/a.c"), PathBuf::from("a.c"), c.clone())];
    let dir = tempfile::tempdir().unwrap();
    let out = dir.path().join("coveralls.json");
    output_coveralls(&rs, None, None, "", None, "", None, "sha", false, Some(&out), "main", false, false);
    let v: serde_json::Value = serde_json::from_slice(&std::fs::read(&out).unwrap()).unwrap();
    let b = v["source_files"][0]["branches"].as_array().unwrap();
    assert_eq!(b.len(), 4 * 300);
    for (i, q) in b.chunks(4).enumerate() {
        assert_eq!(q[0].as_u64().unwrap(), 7);
        assert_eq!(q[2].as_u64().unwrap(), i as u64, "branch {} of line 7 is numbered {}", i, q[2]);
        assert_eq!(q[3].as_u64().unwrap() != 0, c.branches[&7][i]);
    }
}
