//! Demonstration for mutant N51 (src/output.rs, output_coveralls with function info:
//! `"start": function.start` -> `function.start as u16`).
//! Drop into /repo/tests/ and run `cargo test --offline --test demo_n51`.
//! Passes on the original tree, fails on the mutant: a function that starts beyond line 65535
//! (generated sources, amalgamations such as sqlite3.c with > 200 000 lines) is reported with
//! start line `start mod 65536` — C03: "functions with their names, start lines and executed flags".
use grcov::{output_coveralls, CovResult, Function};
use std::path::PathBuf;

#[test]
fn coveralls_plus_function_start_beyond_16_bits() {
    let mut c = CovResult::default();
    c.lines.insert(70001, 2);
    c.functions.insert("late".to_string(), Function { start: 70000, executed: true });
    let rs = vec![(PathBuf::from("/nonexistent/sqlite3.c"), PathBuf::from("sqlite3.c"), c)];
    let dir = tempfile::tempdir().unwrap();
    let out = dir.path().join("coveralls.json");
    output_coveralls(&rs, None, None, "", None, "", None, "sha", true, Some(&out), "main", false, false);
    let v: serde_json::Value = serde_json::from_slice(&std::fs::read(&out).unwrap()).unwrap();
    let f = &v["source_files"][0]["functions"][0];
    assert_eq!(f["name"], "late");
    assert_eq!(f["start"].as_u64().unwrap(), 70000, "start line of `late` altered");
}
