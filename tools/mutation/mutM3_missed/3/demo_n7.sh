#!/bin/sh
# Demonstration for mutant N7 (src/output.rs output_lcov: BRDA branch number `n` -> `n % 256`).
# usage: demo_n7.sh <path to target/debug/grcov>
# A line with 300 branches (big switch / macro expansion).  On the original tree the lcov report
# lists BRDA:7,0,0 .. BRDA:7,0,299 and re-importing it reproduces the same report (C05 fixed point,
# C03 "no branch renumbered").  On the mutant the numbers 256..299 are written as 0..43, the report
# therefore lists 44 branch numbers twice, and the re-import is a DIFFERENT report (256 branches, BRF 256).
set -e
G=${1:-target/debug/grcov}
D=$(mktemp -d)
{
  echo "TN:"; echo "SF:a.c"
  i=0; while [ $i -lt 300 ]; do
    if [ $((i % 3)) -eq 0 ]; then t=1; else t=-; fi
    echo "BRDA:7,0,$i,$t"; i=$((i+1))
  done
  echo "BRF:300"; echo "BRH:100"; echo "DA:7,3"; echo "LF:1"; echo "LH:1"; echo "end_of_record"
} > $D/in.info
"$G" $D/in.info -t lcov --branch -o $D/r1.info
"$G" $D/r1.info -t lcov --branch -o $D/r2.info
echo "distinct branch numbers in first export: $(grep '^BRDA:7,' $D/r1.info | cut -d, -f3 | sort -un | wc -l) (expected 300)"
echo "first export BRF: $(grep '^BRF' $D/r1.info)   second export BRF: $(grep '^BRF' $D/r2.info)"
if [ "$(grep '^BRDA:7,' $D/r1.info | cut -d, -f3 | sort -un | wc -l)" != 300 ]; then echo "FAIL: branches renumbered (C03)"; rc=1; fi
if ! cmp -s $D/r1.info $D/r2.info; then echo "FAIL: re-import is not a fixed point (C05)"; rc=1; fi
rm -rf $D
[ -z "$rc" ] && echo "OK: 300 branches numbered 0..299, fixed point holds"
exit ${rc:-0}
