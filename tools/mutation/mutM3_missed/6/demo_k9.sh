#!/bin/sh
# Demonstration for mutant K9 (src/output.rs output_coveralls without function info:
# `get_digest(abs_path.clone())` -> `get_digest(rel_path.clone())`).
# usage: demo_k9.sh <absolute path to target/debug/grcov>
# The source file exists and is readable; grcov is started from a directory that is NOT the
# source directory.  Original: source_digest = MD5 of the source, identical in both runs.
# Mutant: the relative path is resolved against the current directory, the file is "not found",
# and every run prints a fresh random UUID: two runs on the same inputs differ (C02, last sentence),
# and the digest no longer identifies the source (Coveralls uses it to detect changed sources).
set -e
G=$1
D=$(mktemp -d)
mkdir -p $D/src/lib $D/cwd
printf 'int f(void)\n{\n  return 1;\n}\n' > $D/src/lib/a.c
printf 'TN:\nSF:%s/src/lib/a.c\nDA:3,1\nLF:1\nLH:1\nend_of_record\n' $D > $D/in.info
cd $D/cwd
"$G" $D/in.info -s $D/src -t coveralls --token t -o $D/r1.json
"$G" $D/in.info -s $D/src -t coveralls --token t -o $D/r2.json
d1=$(python3 -c "import json,sys;print(json.load(open('$D/r1.json'))['source_files'][0]['source_digest'])")
d2=$(python3 -c "import json,sys;print(json.load(open('$D/r2.json'))['source_files'][0]['source_digest'])")
md5=$(md5sum $D/src/lib/a.c | cut -d' ' -f1)
echo "run 1: $d1"; echo "run 2: $d2"; echo "md5  : $md5"
rm -rf $D
if [ "$d1" != "$d2" ]; then echo "FAIL: two runs on the same inputs print different digests"; exit 1; fi
if [ "$d1" != "$md5" ]; then echo "FAIL: digest is not the MD5 of the source"; exit 1; fi
echo OK
