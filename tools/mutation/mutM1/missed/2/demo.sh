#!/bin/sh
# demo.sh <grcov binary> — exit 0 when a BRDA record whose BLOCK number is >= 2^32 is read like any other
# C04: "the BRDA records of a line give a branch vector indexed by branch number (records of different blocks
# with the same branch number share a slot)"; the block field is an identifier that is never used.
GRCOV=${1:-target/debug/grcov}
D=$(mktemp -d /tmp/mutM1demo_P27.XXXXXX); cd "$D" || exit 2
printf 'TN:\nSF:a.c\nDA:1,1\nBRDA:1,4294967296,0,1\nBRDA:1,4294967296,1,-\nBRDA:1,7,1,0\nend_of_record\n' > in.info
"$GRCOV" in.info --branch -t lcov -o out.info > log.txt 2>&1
echo "--- report:"; cat out.info; grep -i error log.txt | head -3
if grep -q '^BRDA:1,0,0,1$' out.info && grep -q '^BRDA:1,0,1,-$' out.info && grep -q '^DA:1,1$' out.info; then
  echo "OK: the section was read (branch 0 taken, branch 1 not taken)"; rm -rf "$D"; exit 0; fi
echo "MISMATCH: the tracefile (block number 2^32) was rejected or misread"; rm -rf "$D"; exit 1
