#!/bin/sh
# demo.sh <grcov binary> — exit 0 when a BRDA record whose BRANCH number does not fit 32 bits is rejected,
# exit 1 when it is silently wrapped onto branch 0 (and so marks a never-taken branch as taken).
# C04: "a branch is taken iff some record for it carries a taken count greater than zero".
GRCOV=${1:-target/debug/grcov}
D=$(mktemp -d /tmp/mutM1demo_P41.XXXXXX); cd "$D" || exit 2
printf 'TN:\nSF:a.c\nDA:1,1\nBRDA:1,0,0,-\nBRDA:1,0,1,-\nBRDA:1,0,4294967296,5\nend_of_record\n' > in.info
"$GRCOV" in.info --branch -t lcov -o out.info > log.txt 2>&1
echo "--- report:"; cat out.info; grep -i error log.txt | head -3
if grep -q '^BRDA:1,0,0,1$' out.info; then
  echo "MISMATCH: branch 0 of line 1 is reported taken; its only record says '-' (branch 4294967296 was wrapped onto it)"; rm -rf "$D"; exit 1; fi
echo "OK: the record was rejected, branch 0 was not marked taken"; rm -rf "$D"; exit 0
