#!/bin/sh
# demo.sh <grcov binary>  — exit 0 when grcov agrees with llvm-cov gcov on a gcno of format A90* (version 90)
# C08: "for ... the gcov format versions grcov accepts as LLVM output" the per-line counts equal llvm-cov gcov's.
GRCOV=${1:-target/debug/grcov}
D=$(mktemp -d /tmp/mutM1demo_R09.XXXXXX); cd "$D" || exit 2
# (functions written on one line each: the known finding C08-gcno8-line-range-filter, which drops lines
#  outside [start_line, end_line] for formats >= 8, does not interfere)
cat > prog.c <<'C'
int f(int n) { int s = 0; for (int i = 0; i < n; i++) s += i; return s; }
int g(int n) { return n ? n + 1 : 0; }
int main(void) { return f(3) - 3; }
C
clang-14 --coverage -O0 -w prog.c -o prog -Xclang '-coverage-version=A90*' || exit 2
./prog > /dev/null || exit 2
llvm-cov-14 gcov -i prog.gcda > gcov.log 2>&1   # writes prog.gcda.gcov (intermediate text)
# reference: lcount records of llvm-cov gcov
grep '^lcount:' prog.gcda.gcov | sed 's/^lcount://' | cut -d, -f1,2 | sort -t, -k1,1n > want.txt
"$GRCOV" . --llvm -t lcov -o out.info > grcov.log 2>&1
grep '^DA:' out.info | sed 's/^DA://' | sort -t, -k1,1n > got.txt
echo "--- llvm-cov gcov (line,count):"; cat want.txt
echo "--- grcov (line,count):"; cat got.txt; grep -i 'error' grcov.log | head -3
if [ -s want.txt ] && cmp -s want.txt got.txt; then echo "OK: grcov = llvm-cov gcov"; rm -rf "$D"; exit 0; fi
echo "MISMATCH: grcov differs from llvm-cov gcov for a version-90 (A90*) notes file"; rm -rf "$D"; exit 1
