#!/bin/sh
# demo.sh <grcov binary> — exit 0 when a BRDA record whose LINE number does not fit 32 bits is rejected
# (as DA/FN records with such a line are), exit 1 when it is silently wrapped onto another line.
# C04: "the parser recovers exactly what the records say": no record of this file talks about line 1's branches.
GRCOV=${1:-target/debug/grcov}
D=$(mktemp -d /tmp/mutM1demo_P40.XXXXXX); cd "$D" || exit 2
printf 'TN:\nSF:a.c\nDA:1,1\nBRDA:4294967297,0,0,1\nBRDA:4294967297,0,1,-\nend_of_record\n' > in.info
"$GRCOV" in.info --branch -t lcov -o out.info > log.txt 2>&1
echo "--- report:"; cat out.info; grep -i error log.txt | head -3
if grep -q '^BRDA:1,' out.info; then
  echo "MISMATCH: branches of line 4294967297 are reported on line 1 (wrapped modulo 2^32)"; rm -rf "$D"; exit 1; fi
echo "OK: the record was rejected, nothing was invented for line 1"; rm -rf "$D"; exit 0
