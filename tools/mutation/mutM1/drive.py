#!/usr/bin/python3
"""drive.py validate | run [ids...]  — mutation driver for mutM1 (works only on /tmp/mutM1_* clones)"""
import json, os, re, subprocess, sys, time
sys.path.insert(0, "/tmp/mutM1_out")
from mutants import M
LANE = os.environ.get("LANE", "")
REPO = "/tmp/mutM1_repo" + LANE
VERIF = "/tmp/mutM1_verif" + LANE
OUT = "/tmp/mutM1_out"
os.makedirs(f"{OUT}/mutants", exist_ok=True)
os.makedirs(f"{OUT}/logs", exist_ok=True)
ENV = {**os.environ, "CARGO_NET_OFFLINE": "true"}


def find(mid):
    for m in M:
        if m[0] == mid:
            return m
    raise KeyError(mid)


def apply(m, dry=False):
    mid, fn, line, old, new = m[:5]
    path = f"{REPO}/{fn}"
    if "\n" in old:
        text = open(path).read()
        if text.count(old) != 1:
            return f"{mid}: multi-line old text found {text.count(old)} times"
        if not dry:
            open(path, "w").write(text.replace(old, new))
        return None
    lines = open(path).read().split("\n")
    cand = [i for i in range(max(0, line - 4), min(len(lines), line + 3)) if old in lines[i]]
    if lines[line - 1].count(old) >= 1:
        idx = line - 1
    elif len(cand) == 1:
        idx = cand[0]
    else:
        return f"{mid}: old text not found at {fn}:{line}: {lines[line-1]!r}"
    if dry:
        return None if idx == line - 1 else f"{mid}: found at line {idx+1} instead of {line}"
    lines[idx] = lines[idx].replace(old, new, 1)
    open(path, "w").write("\n".join(lines))
    return None


def checkout():
    subprocess.run(["git", "-C", REPO, "checkout", "--", "."], check=True)


def run_check(prop):
    cmd = f"mount --bind {VERIF} /verif && mount --bind {REPO} /repo && cd /verif && ./check {prop} --tier quick"
    t0 = time.time()
    try:
        p = subprocess.run(["unshare", "-m", "sh", "-c", cmd], stdout=subprocess.PIPE, stderr=subprocess.STDOUT,
                           text=True, timeout=3600)
        rc, out = p.returncode, p.stdout
    except subprocess.TimeoutExpired as e:
        rc, out = 124, (e.stdout or b"").decode() if isinstance(e.stdout, bytes) else (e.stdout or "")
    viol = [l for l in out.splitlines() if l.startswith("VIOLATION")]
    known = [l.split()[2].rstrip(":") for l in out.splitlines() if l.startswith("KNOWN-FINDING")]
    r = {"exit": rc, "violations": len(viol), "known": known, "wall": round(time.time() - t0, 1),
         "summary": out.strip().splitlines()[-1][:300] if out.strip() else ""}
    if viol:
        r["first"] = viol[0]
        rp = viol[0].split("replay=")[1].split()[0].replace("/verif/", VERIF + "/", 1)
        try:
            j = json.load(open(rp))
            r["what"] = j.get("what", "")[:400]
            r["kind"] = j.get("kind", "")
        except Exception as e:
            r["what"] = f"(replay unreadable: {e})"
    if rc not in (0, 1):
        r["tail"] = out[-1500:]
    return r


def run(mid):
    m = find(mid)
    rec = {"id": mid, "file": m[1], "line": m[2], "old": m[3], "new": m[4], "props": m[5], "desc": m[6]}
    checkout()
    err = apply(m)
    if err:
        rec["status"] = "apply-failed"; rec["err"] = err
        return rec
    diff = subprocess.run(["git", "-C", REPO, "diff"], stdout=subprocess.PIPE, text=True).stdout
    open(f"{OUT}/mutants/{mid}.diff", "w").write(diff)
    t0 = time.time()
    p = subprocess.run(["cargo", "build", "--offline"], cwd=REPO, env=ENV, stdout=subprocess.PIPE,
                       stderr=subprocess.STDOUT, text=True)
    if p.returncode != 0:
        rec["status"] = "nocompile"; rec["err"] = p.stdout[-800:]
        checkout(); return rec
    p = subprocess.run(["python3", "/verif/tools/baseline_check.py", REPO], stdout=subprocess.PIPE,
                       stderr=subprocess.STDOUT, text=True, env=ENV)
    rec["tests"] = p.stdout.strip().splitlines()[-1][:600] if p.stdout.strip() else ""
    rec["tests_wall"] = round(time.time() - t0, 1)
    if p.returncode != 0:
        rec["status"] = "killed-by-tests"
        checkout(); return rec
    rec["checks"] = {}
    for prop in m[5]:
        if prop == "C14" and any(r["violations"] > 0 for r in rec["checks"].values()):
            continue   # the slow crash/blow-up check is only run when nothing else caught the mutant
        rec["checks"][prop] = run_check(prop)
        print("   ", mid, prop, json.dumps(rec["checks"][prop])[:400], flush=True)
    caught = [p for p, r in rec["checks"].items() if r["violations"] > 0]
    broken = [p for p, r in rec["checks"].items() if r["exit"] not in (0, 1)]
    rec["status"] = "caught" if caught else ("machinery" if broken else "survived")
    rec["caught_by"] = caught
    rec["wall"] = round(time.time() - t0, 1)
    checkout()
    return rec


if __name__ == "__main__":
    if sys.argv[1] == "validate":
        checkout()
        for m in M:
            e = apply(m, dry=True)
            if e:
                print(e)
        print(len(M), "mutants")
    else:
        ids = sys.argv[2:] or [m[0] for m in M]
        for mid in ids:
            rec = run(mid)
            with open(f"{OUT}/results{LANE}.jsonl", "a") as f:
                f.write(json.dumps(rec) + "\n")
            print(mid, rec["status"], rec.get("caught_by"), rec.get("tests", "")[:100], rec.get("err", "")[:300], flush=True)
