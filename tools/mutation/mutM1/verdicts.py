VERDICT = {
 "P27": ("REALLY MISSED", "missed/2: a BRDA block number >= 2^32 now rejects the whole tracefile; generator/tie never put a long digit run into a BRDA record"),
 "P40": ("REALLY MISSED", "missed/3: BRDA line number >= 2^32 wraps modulo 2^32 instead of being rejected (branches appear on a line no record names)"),
 "P41": ("REALLY MISSED", "missed/4: BRDA branch number >= 2^32 wraps onto a small branch number instead of being rejected (a never-taken branch is reported taken)"),
 "R09": ("REALLY MISSED", "missed/1: gcno of format A90* (version exactly 90): cwd string no longer read, every such notes file fails ('Invalid function identifier'), coverage lost with exit 0"),
 "R40": ("EQUIVALENT", "the `blocked` list only ever holds the start block and blocks that passed `w >= start && blocks.contains(&w)` in look_for_circuit, so `blocked.iter().position(|x| *x == w)` already filters to exactly the blocks the stricter condition admits (it is llvm's own condition)"),
 "R43": ("NOT A MISS", "changes behaviour only for a function with exactly two blocks (entry + exit, no body block): no compiler writes one (LLVM: entry, exit and >= 1 basic block), C08 quantifies over LLVM-produced files, and the C15 laws (k-fold scaling, order independence, gcno-determined line set) hold for the mutant too. The model/code tie is however untested there: Gcno.lean has `blocks.length >= 2`, and c15/src/gcno.rs gen_fn draws body >= 1"),
 "R45": ("EQUIVALENT", "the loop adds on-tree arc counters into per-block sums; u64 addition of non-negative terms is order independent, and an overflow panic (debug) occurs in one order iff it occurs in the other because partial sums are monotone"),
 "R48": ("EQUIVALENT", "when positive_excess == negative_excess both branches yield 0"),
 "L04": ("EQUIVALENT", "with taken.len() == l the slice &taken[l..] is empty: extend adds nothing"),
 "X06": ("EQUIVALENT", "without the `!ignore &&` guard the body re-assigns ignore = true when it is already true"),
 "X13": ("EQUIVALENT", "without the `ignore &&` guard the body re-assigns ignore = false when it is already false"),
 "J20": ("EQUIVALENT", "after the Eof inside <sourcefile> the enclosing package loop reads again, quick-xml returns Eof again, and parse_jacoco_report_package returns the same Err(Parse(\"unexpected end of file\")) (checked on truncated reports with both binaries)"),
 "R80": ("EQUIVALENT", "up to the panic line: whenever `edge.counter + counter` overflows, the next statement `fun.blocks[edge.source].counter += counter` (a sum that contains the same addends) overflows too, so overflow-check builds still panic with 'attempt to add with overflow' in reader.rs (line 792 instead of 791); builds without overflow checks wrap in both versions"),
 "R81": ("NOT A MISS", "differs only in builds with overflow checks and only when two functions put counts summing above 2^64-1 on one line: the original panics, the mutant wraps as release builds of the original do. Both behaviours are the recorded known finding C14-gcno-counter-overflow ('debug builds panic, release builds wrap'); no clause distinguishes them. No generator reaches this sum (see weak spot 3)"),
}

MISSED_SECTIONS = r"""
## Really missed mutants

Each directory `/tmp/mutM1_out/missed/<n>/` holds `mutant.diff`, `demo.sh <grcov binary>` (exit 0 = behaves as the
property says, exit 1 = deviation; uses only `target/debug/grcov`, clang-14/llvm-cov-14 for n=1) and the two recorded
outputs `output_orig.txt` (unmutated tree: exit 0) and `output_<id>.txt` (mutant: exit 1).

### 1. R09 — src/reader.rs:469 `self.version >= 90` → `self.version > 90` (read_gcno)

```diff
-        if self.version >= 90 {
+        if self.version > 90 {
             self.cwd = Some(reader.read_string()?);
```

* Checks run: C08 ok (50 s), C15 ok (25 s), C14 ok (88 s).
* Demonstration: `missed/1/demo.sh` compiles a three-function C file with `clang-14 --coverage -Xclang -coverage-version='A90*'`,
  runs it, and compares grcov's DA records with `llvm-cov-14 gcov -i`. Original: `1,4 / 2,0 / 3,1` on both sides. Mutant:
  grcov logs `Error in computing counters: Invalid function identifier 0 in prog`, writes an empty report and exits 0.
* Violated clause: C08 — "for every LLVM-produced gcno file ... the per-line execution counts, the set of instrumented
  lines and the per-function executed flags ... equal those that llvm-cov gcov reports", quantified over "the gcov format
  versions grcov accepts as LLVM output" (A90* is accepted by the unmutated reader and written by clang). Also C15's first
  law (lines determined by the gcno) since `Gcno::compute` now fails for every notes file of that format.
* Why it was not seen: the format stamp is drawn from fixed lists of *typical* stamps, none of which sits on the
  boundary of a version comparison of reader.rs: `harness/c08/src/main.rs:873 COVERAGE_VERSIONS = ["402*","407*","408*","800*","A93*","B01*"]`
  (used by `build_and_run_v` and by `c08/src/records.rs` lines 569-630) and `harness/c15/src/main.rs:798`
  (`rng.pick(&[*b"402*", *b"407*", *b"408*", *b"409*", *b"800*", *b"A93*", *b"B01*", *b"B22*", *b"401*", *b"508*"])`).
  The Lean model (`lean/GrcovModel/Gcno/Bin.lean:109,212`) has `version ≥ 90`, so the tie would flag the mutant on the first A90* case.
* Suggested strengthening: put one stamp on each side of every threshold of reader.rs (47/48, 80, 90) into both lists:
  add `A90*` (=90), `A89*` (=89), `709*` (=79) next to the existing `407*`/`408*`/`800*`; in c15 the synthetic encoder
  (`c15/src/gcno.rs gen_fn(rng, version, ..)` and the byte encoder) already takes the version as a parameter, so this is a
  one-line change per list; clang-14 accepts `-coverage-version=A90*` (checked), so the C08 compile stream can use it too.

### 2. P27 — src/parser.rs:390 BRDA block number parsed as u32 instead of u64

```diff
-                            let _block_number = try_digits!(iter, u64, 0, "BRDA", line);
+                            let _block_number = try_digits!(iter, u32, 0, "BRDA", line);
```

* Checks run: C04 ok (13 s), C05 ok (62 s), C14 ok (81 s).
* Demonstration: `missed/2/demo.sh`: tracefile with `BRDA:1,4294967296,0,1`, `BRDA:1,4294967296,1,-`, `BRDA:1,7,1,0`.
  Original: section read, `BRDA:1,0,0,1` / `BRDA:1,0,1,-`. Mutant: `Invalid record: 'BRDA at line 4'`, the whole tracefile is dropped (exit 0, empty report).
* Violated clause: C04 — "the BRDA records of a line give a branch vector indexed by branch number (records of different
  blocks with the same branch number share a slot)": the block field is an identifier that plays no role; the Lean
  byte machine (`Lcov.lean:239-240`, `digitsStep U64MAX`) accepts it up to 2^64-1, so the model/code tie of C04 is broken.
* Why it was not seen / what to change: see the common paragraph after mutant 4.

### 3. P40 — src/parser.rs:379 BRDA line number parsed as u64 and truncated with `as u32`

```diff
-                            let line_no = try_digits!(iter, u32, 0, "BRDA", line);
+                            let line_no = try_digits!(iter, u64, 0, "BRDA", line) as u32;
```

* Checks run: C04 ok (14 s), C05 ok (64 s), C14 ok (92 s).
* Demonstration: `missed/3/demo.sh`: `DA:1,1` plus `BRDA:4294967297,0,0,1` / `BRDA:4294967297,0,1,-`. Original: the record
  is rejected (`Invalid record: 'BRDA at line 4'`), as a DA or FN record with that line is. Mutant: the report contains
  `BRDA:1,0,0,1`, `BRDA:1,0,1,-`, `BRF:2`, `BRH:1` for line 1, about which the tracefile says nothing.
* Violated clause: C04 title/statement — "the parser recovers exactly what the records say"; and the model/code tie
  (`Lcov.parse` rejects a BRDA line number above 2^32-1: the same defect in the shared `try_digits!` macro, mutant P13, IS
  reported by C04 through the DA/FN/FNDA fields).

### 4. P41 — src/parser.rs:397 BRDA branch number parsed as u64 and truncated with `as u32`

```diff
-                            let branch_number = try_digits!(iter, u32, 0, "BRDA", line);
+                            let branch_number = try_digits!(iter, u64, 0, "BRDA", line) as u32;
```

* Checks run: C04 ok (15 s), C05 ok (62 s), C14 ok (81 s).
* Demonstration: `missed/4/demo.sh`: `BRDA:1,0,0,-`, `BRDA:1,0,1,-`, `BRDA:1,0,4294967296,5`. Original: rejected. Mutant:
  `BRDA:1,0,0,1` — branch 0 of line 1 is reported taken although its only record says `-`.
* Violated clause: C04 — "a branch is taken iff some record for it carries a taken count greater than zero"; and the model/code tie.

### Common cause of 2, 3, 4 and suggested strengthening

* `harness/c04/src/main.rs:494 huge_branch_risk` (called by `gen_malformed`, line 512) throws away **every** malformed-stream
  input that contains the four bytes `BRDA` anywhere and a run of >= 7 digits anywhere. Its purpose is to keep the in-process
  tie away from the allocation finding C14-lcov-branch-number-alloc, but it also removes all boundary values
  (`4294967295`, `4294967296`, `18446744073709551615`, `18446744073709551616`, `99999999999999999999999` of `TOKENS`, line 485)
  from the line, block and taken fields of BRDA records, and from every other record of a file that has a BRDA record.
* `harness/c14/src/main.rs:500` does the same more bluntly: the lcov model tie skips every case whose bytes contain `BRDA`.
* The AST generator (`harness/common/src/lcov.rs:195-214 gen_section`) only draws block numbers `blk * rng.range(1,3)` (0..3),
  line numbers 1..12 and branch numbers 0..3 for BRDA records; `c04/src/exc.rs` reuses those.
* Change: make `huge_branch_risk` (and the filter of c14 main.rs:500) look only at the THIRD field of a `BRDA:` record and only
  at values in [10^6, 2^32-1] — a branch number >= 2^32 is rejected by `try_digits!` before anything is allocated, so it
  is safe and is exactly the boundary that P41 moves; let `gen_section` draw the block number from
  {0..3, 2^31, 2^32-1, 2^32, 2^64-1} and, for a separate "rejected" stream like `check_undeclared`, a BRDA line number from
  {2^32-1 (accepted), 2^32, 2^32+1, 2^64} with the oracle `err InvalidRecord`. The Lean machine already has the right bounds
  (`digitsStep U64MAX` for the block, U32 for line and branch), so the existing `tie` would report all three mutants.
"""

WEAK = r"""
## The three weakest spots seen

1. **BRDA numeric fields are outside every lcov tie** (3 of the 4 misses). `c04/src/main.rs huge_branch_risk` and
   `c14/src/main.rs:500` exclude any input that has a BRDA record together with a long number; the AST generators keep
   BRDA line/block/branch numbers below 12. The overflow behaviour of `try_digits!` is therefore only exercised through
   DA/FN/FNDA (P13 is caught, P27/P40/P41 are not), although the allocation risk concerns one field and one range only.
2. **Format-version and shape boundaries of the gcno reader are sampled by "typical" values, not by boundary values.**
   The stamp lists (c08/src/main.rs:873, c15/src/main.rs:798 and :851) contain 407*/408* and 800* but nothing at 90 (A90*)
   or just below 80/90, so `>= 90` → `> 90` survives C08, C15 and C14 (miss 1); likewise `gen_fn` (c15/src/gcno.rs:1119) never
   builds a function with exactly two blocks, so `blocks.len() >= 2` → `> 2` (R43) is untested against `Gcno.lean:342,420`.
3. **Overflow sites of reader.rs other than the gcda accumulation are only reachable by accident, and the known-finding
   matcher accepts either failure mode.** C14's word substitutions put one boundary value into one gcda word; the sum of a
   line over several functions in `finalize` (reader.rs:929, mutant R81) needs two functions sharing a line with counts
   >= 2^63 and is never reached, and since C14-gcno-counter-overflow records "panics in debug, wraps in release" a mutant
   that turns the panic into a silent wrap (R80, R81) is invisible in both profiles. A generated stream "two functions on
   one header line, both with a counter high word 0x80000000" plus an oracle on the *value* (panic, or clamped) would close it.

Smaller observations: the consumer mutants L13, L15, L19 (lib.rs consumer / rename_single_files) were seen only by C20's
`Consumer` model tie — C02 and C07 ran green on them; P15 (duplicate FN: first wins) was caught only by C14's byte tie because
C04's domain excludes duplicate function names; 40 of the 138 mutants (mainly parse_gcov text, JaCoCo class naming, filter.rs)
never reached the checks because the baseline unit tests kill them.
"""
