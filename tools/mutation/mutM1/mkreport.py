#!/usr/bin/python3
import json, glob, os, sys
sys.path.insert(0, "/tmp/mutM1_out")
from mutants import M
from verdicts import VERDICT, MISSED_SECTIONS, WEAK
OUT = "/tmp/mutM1_out"
recs = {}
for f in sorted(glob.glob(f"{OUT}/results*.jsonl")):
    for l in open(f):
        r = json.loads(l)
        recs[r["id"]] = r
order = [m[0] for m in M]
rows = []
cnt = {"generated": 0, "compiled": 0, "survived_tests": 0, "caught": 0, "equivalent": 0, "missed": 0, "notamiss": 0}
for mid in order:
    r = recs.get(mid)
    if not r:
        continue
    cnt["generated"] += 1
    st = r["status"]
    if st == "nocompile":
        rows.append((mid, r, "-", "-", "does not compile (discarded)"))
        continue
    cnt["compiled"] += 1
    if st == "killed-by-tests":
        t = r.get("tests", "")
        failing = t.split("not passing:")[-1].strip()[:110]
        rows.append((mid, r, "no", "-", "killed by baseline tests " + failing))
        continue
    cnt["survived_tests"] += 1
    checks = r.get("checks", {})
    ran = ", ".join(f"{p}:{'V' if c['violations'] else ('ok' if c['exit']==0 else 'exit'+str(c['exit']))}" for p, c in checks.items())
    if st == "caught":
        cnt["caught"] += 1
        first = next(c for c in checks.values() if c["violations"])
        what = first.get("what", "").replace("|", "/").replace("\n", " ")[:170]
        rows.append((mid, r, "yes", ran, f"CAUGHT — {what}"))
    else:
        v = VERDICT.get(mid, ("?", "?"))
        key = {"EQUIVALENT": "equivalent", "REALLY MISSED": "missed", "NOT A MISS": "notamiss"}[v[0]]
        cnt[key] += 1
        rows.append((mid, r, "yes", ran, f"**{v[0]}** — {v[1]}"))

with open(f"{OUT}/REPORT.md", "w") as f:
    f.write("# Mutation campaign mutM1 — src/parser.rs, src/reader.rs, src/lib.rs, src/filter.rs, src/file_filter.rs\n\n")
    f.write("Tree: /repo at fdef150 (clone), /verif at 85c6e06 (clone); every check was run as "
            "`unshare -m sh -c \"mount --bind <clone_verif> /verif && mount --bind <clone_repo> /repo && cd /verif && ./check Cxx --tier quick\"` "
            "(two lanes with separate clones). Because a mutant changes an anchored file, every check ran with the change-directed x5 budget.\n\n")
    f.write("## Counts\n\n")
    f.write(f"- generated: {cnt['generated']}\n- compiled: {cnt['compiled']}\n- survived the baseline test suite (python3 /verif/tools/baseline_check.py): {cnt['survived_tests']}\n"
            f"- caught by at least one `./check`: {cnt['caught']}\n- survived all relevant checks: {cnt['equivalent']+cnt['missed']+cnt['notamiss']} "
            f"(equivalent: {cnt['equivalent']}; behaviour change outside every property clause: {cnt['notamiss']}; REALLY MISSED: {cnt['missed']})\n\n")
    f.write("Legend of the `checks` column: `Cxx:V` = VIOLATION raised, `Cxx:ok` = exit 0. C14 (slow) was only run when no other check had caught the mutant.\n\n")
    f.write("## All mutants\n\n| id | file:line | mutation | survives tests? | checks | verdict / first `what` | wall s |\n|---|---|---|---|---|---|---|\n")
    for mid, r, surv, ran, verdict in rows:
        old = r["old"].replace("|", "\\|").replace("\n", "⏎")
        new = (r["new"] or "(deleted)").replace("|", "\\|").replace("\n", "⏎")
        f.write(f"| {mid} | {r['file']}:{r['line']} | {r['desc']}: `{old}` → `{new}` | {surv} | {ran} | {verdict} | {r.get('wall', r.get('tests_wall',''))} |\n")
    f.write("\n" + MISSED_SECTIONS + "\n" + WEAK + "\n")
print(json.dumps(cnt))
