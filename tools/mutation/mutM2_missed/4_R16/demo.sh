#!/bin/sh
# usage: demo.sh <grcov binary>
# A zero-byte .gcda (a process killed before it flushed its counters) beside an LLVM notes file, plus a
# good lcov report.  The unreadable input is to be logged and skipped, the others reported, exit 0 (C07).
G=$1; D=$(mktemp -d); mkdir $D/in
cp /repo/test/llvm/file.gcno $D/in/file.gcno; : > $D/in/file.gcda
printf 'SF:good.c\nDA:1,1\nend_of_record\n' > $D/in/good.info
$G $D/in --llvm -t lcov > $D/out 2> $D/err; echo "exit status: $?"; grep '^SF:' $D/out | sort | tr '\n' ' '; echo; grep -o 'panic.*' $D/err | head -2
rm -rf $D
