#!/bin/sh
# usage: demo.sh <grcov binary>
# A gcno WITHOUT any gcda (orphan) must contribute its lines with zero counts unless ONLY COVERED files
# were requested (C17).  With --filter uncovered the orphan is exactly what the user asks for.
G=$1; D=$(mktemp -d); mkdir $D/in
cp /repo/test/llvm/file.gcno $D/in/file.gcno            # LLVM-format notes file, no gcda beside it
echo "--- --filter uncovered"; $G $D/in --llvm -t lcov --filter uncovered 2>&1 | grep -c '^DA:' 
echo "--- no filter";          $G $D/in --llvm -t lcov 2>&1 | grep -c '^DA:'
echo "--- --filter covered";   $G $D/in --llvm -t lcov --filter covered 2>&1 | grep -c '^DA:'
rm -rf $D
