#!/bin/sh
# usage: demo.sh <grcov binary>
# An input directory that holds, beside a good report, a FIFO with a coverage extension.  grcov must
# terminate for every set of inputs (C07) and ignore entries that are not coverage files (C17).
G=$1; D=$(mktemp -d); mkdir $D/in
printf 'SF:a.c\nDA:1,1\nend_of_record\n' > $D/in/good.info
mkfifo $D/in/pipe.info
timeout 10 $G $D/in -t lcov > $D/out 2> $D/err; echo "exit status: $? (124 = still running after 10 s)"; grep -c '^SF:' $D/out
# second face: a dangling link named like a profile poisons the one merge job of all profiles
rm $D/in/pipe.info; ln -s /nonexistent/x.profraw $D/in/dangling.profraw
mkdir $D/stub; cat > $D/stub/llvm-profdata <<'S'
#!/bin/sh
# stand-in: fails like the real tool when a listed profile cannot be opened
while IFS= read -r l; do f=${l#*,}; [ -e "$f" ] || { echo "error: $f: No such file or directory" >&2; exit 1; }; done
exit 0
S
printf '#!/bin/sh\nprintf "SF:from_llvm.c\\nDA:1,1\\nend_of_record\\n"\n' > $D/stub/llvm-cov; chmod +x $D/stub/*
cp /repo/test/default.profraw $D/in/real.profraw; cp /bin/true $D/bin_true
$G $D/in -t lcov --llvm-path $D/stub -b $D/bin_true 2> $D/err2 | grep '^SF:' | sort | tr '\n' ' '; echo; grep -c 'No such file' $D/err2
rm -rf $D
