#!/bin/sh
# usage: demo.sh <grcov binary>
# -s without -p: the prefix directory defaults to the source directory (main.rs:390; anchored by C11:
# "main wires CLI options; prefix defaults to the source dir").
#  (a) a key below the source directory that leaves it through '..' is DROPPED, not reported (C11:
#      "a path that would escape through '..' is dropped rather than reported");
#  (b) a key below the source directory, missing on disk, whose first component repeats the source
#      directory's name, gets the same name with and without an explicit -p SRC.
G=$1; D=$(mktemp -d); D=$(cd $D && pwd -P); mkdir -p $D/src
printf 'SF:%s/src/../gone.c\nDA:1,1\nend_of_record\nSF:%s/src/src/gen.c\nDA:1,1\nend_of_record\n' $D $D > $D/in.info
echo "--- -s SRC (no -p) -t files";  $G $D/in.info -s $D/src -t files 2>/dev/null | sort | sed "s#$D#<TMP>#"
echo "--- -s SRC -p SRC -t files (what the default stands for)";  $G $D/in.info -s $D/src -p $D/src -t files 2>/dev/null | sort | sed "s#$D#<TMP>#"
rm -rf $D
