#!/bin/sh
# usage: demo.sh <grcov binary>
# A DIRECTORY whose name happens to end with "zip" (no dot).  Every artifact under the given paths is
# used however it is packaged (C17).
G=$1; D=$(mktemp -d); mkdir $D/nightly-unzip
printf 'SF:a.c\nDA:1,1\nend_of_record\n' > $D/nightly-unzip/a.info
$G $D/nightly-unzip -t lcov > $D/out 2> $D/err; echo "exit status: $?"; grep -c '^SF:' $D/out; grep -o 'panic.*' $D/err | sed "s#$D#<TMP>#" | head -1
rm -rf $D
