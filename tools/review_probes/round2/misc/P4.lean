import GrcovModel.Props.C17
open Grcov Grcov.Producer Grcov.Props.C17
#eval run ⟨true,false⟩ [.dir 0 [exOrphan, exFake]]
