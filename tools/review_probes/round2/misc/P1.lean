import GrcovModel.Props.C17
open Grcov Grcov.Producer Grcov.Props.C17

-- zip entry "../a.gcno" (climbs out: real code skips it -> "No input files found"), and "a//b.gcda" + "a/b.gcno"
def up : File := ⟨[46,46,47,97,46,103,99,110,111], [], 1⟩
example : WF [.zip 0 [up]] := by unfold WF; decide
#eval run ⟨false,false⟩ [.zip 0 [up]]
-- "a//b.gcda" in zip (real: recorded under canonical stem a/b but by_name("a/b.gcda") fails)
def g1 : File := ⟨[97,47,98,46,103,99,110,111], [], 1⟩
def d1 : File := ⟨[97,47,47,98,46,103,99,100,97], [], 2⟩
#eval run ⟨false,false⟩ [.zip 0 [g1, d1]]
#eval classify false d1
-- dir entry with trailing component "." e.g. "./a.info"
#eval classify false ⟨[46,47,97,46,105,110,102,111], [84,78,58], 3⟩
#print axioms C17_items_exact
#print axioms C17_packaging_invariant_partial
