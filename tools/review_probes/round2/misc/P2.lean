import GrcovModel.Props.C03Main
open Grcov Grcov.MainGlue Grcov.Props.C03

-- grcov in.info -t lcov,covdir,html   (no -o): every report to the same destination (stdout / ./html)
def raw2 : Raw := { typeArgs := [[OutputType.lcov.cliName, OutputType.covdir.cliName, OutputType.lcov.cliName]], rest := { paths := [[105]] } }
#eval (mainPlanOf (front mainExEnv raw2)).map (fun p => p.outputs.map fun x => (x.ty, x.dest))
-- same type twice with -o dir
def raw3 : Raw := { typeArgs := [[OutputType.lcov.cliName, OutputType.lcov.cliName]], rest := { paths := [[105]], outputPath := some [47, 119, 47, 111, 117, 116] } }
#eval (mainPlanOf (front mainExEnv raw3)).map (fun p => p.outputs.map fun x => (x.ty, x.dest))
#print axioms C03_main_each_type_once_in_order
