import GrcovModel.Props.C09
open Grcov Grcov.Gcov Grcov.Gcov.JsonBytes
-- raw LF inside a string (serde_json: control character error)
#eval (jsonParse' [34,97,10,98,34]).isSome
-- raw 0x01 inside string
#eval (jsonParse' [34,1,34]).isSome
-- trailing garbage after value: `1 x`? and `[1]]`
#eval (jsonParse' [91,49,93,93]).isSome
-- `1.` , `.5`, `1e`, `+1`, `01`, `-`, `1E+2`
#eval [[49,46],[46,53],[49,101],[43,49],[48,49],[45],[49,69,43,50]].map fun t => (jsonParse' t).isSome
-- literals: `tru`, `nul`, `True`
#eval [[116,114,117],[110,117,108],[84,114,117,101]].map fun t => (jsonParse' t).isSome
-- empty input / only ws
#eval (jsonParse' []).isSome
#eval (jsonParse' [32]).isSome
-- invalid escape \x
#eval (jsonParse' [34,92,120,34]).isSome
-- deep nesting 200 (serde_json recursion limit 128)
#eval (jsonParse' (List.replicate 200 91 ++ List.replicate 200 93)).isSome
-- text model: function with 2 fields; lone key without colon; empty line
#eval Text.parse [102,105,108,101,58,97,10,10]
