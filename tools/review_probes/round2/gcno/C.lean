import GrcovModel.Props.C14GcnoCost
open Grcov Grcov.Gcno
def ringRecs (k : Nat) : List NRec :=
  [.func 1 2 0 [102] [97,46,99] 1 0, .blocks k] ++
  (List.range k).map (fun i => NRec.arcs i [((if i+1<k then i+1 else 0),0),((if i+1<k then i+1 else 0),0)]) ++
  (List.range k).map (fun i => NRec.lines i [.file [97,46,99], .line 5])
def built (k : Nat) : List Func := match build 42 7 (ringRecs k) with
  | .ok g => g.funcs
  | _ => []
#eval (built 3).map fun (f : Func) => decide (f = ringFunc 3)
#eval (built 3).map fun (f : Func) => f.blocks.map Block.destination
#eval (built 3).map fun (f : Func) => f.blocks.map Block.source
#eval (ringFunc 3).blocks.map Block.source
