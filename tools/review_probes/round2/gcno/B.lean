import GrcovModel.Props.C14Gcno
open Grcov Grcov.Gcno
def sumGcda : List Nat :=
  [97, 100, 99, 103] ++ [42, 50, 48, 52] ++ w32 7 ++
  w32 TAG_OBJECT_SUMMARY ++ w32 2 ++ w32 0xFFFFFFFF ++ w32 0 ++
  w32 TAG_OBJECT_SUMMARY ++ w32 2 ++ w32 0xFFFFFFFF ++ w32 0 ++
  w32 TAG_FUNCTION ++ w32 2 ++ w32 1 ++ w32 2 ++
  w32 TAG_COUNTER_ARCS ++ w32 2 ++ w32 1 ++ w32 0 ++
  w32 0
#eval (computeBytes tinyGcno [sumGcda] true).isOk
#eval lineOf (computeBytes tinyGcno [sumGcda] true) 5
-- fuel: does parseRecs with too little fuel silently stop?
#eval (parseRecs true 42 1000 1 0 false (tinyGcno.drop 12)).length
#eval (parseRecs true 42 1000 100 0 false (tinyGcno.drop 12)).length
