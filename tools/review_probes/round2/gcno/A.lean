import GrcovModel.Props.C14Gcno
import GrcovModel.Props.C14GcnoCost
import GrcovModel.Props.C15Bytes
import GrcovModel.Props.C15Entry
import GrcovModel.Props.C15Mismatch
import GrcovModel.Props.C08EndToEnd
open Grcov.Props
#print axioms Grcov.Props.C14.C14_gcno_bytes_never_crash
#print axioms Grcov.Props.C14.C14_gcno_bytes_terminate
#print axioms Grcov.Props.C14.C14_truncated_gcda
#print axioms Grcov.Props.C14.C14_gcno_blocks_linear
