import GrcovModel.Props.C07
open Grcov.Pipeline
-- poison scenario: worker 0 dies holding the lock mid-batch, worker 1 then hits the poisoned mutex
#eval (replay (fun _ => .ok) (fun _ => 2) (init 2 false [1, 2])
  [.prodSend, .prodSend, .prodExit, .recv 0, .recv 1, .parsed 0, .parsed 1, .lock 0, .mergeEntry 0,
   .workerDies 0, .lock 1, .main, .main, .main]).map fun s => (repr s.mainPc, s.merged, s.lost, s.log, s.poisoned, repr s.workers)
-- can worker 1 take the lock while 0 holds it? (expected: none)
#eval (replay (fun _ => .ok) (fun _ => 2) (init 2 false [1, 2])
  [.prodSend, .prodSend, .recv 0, .recv 1, .parsed 0, .parsed 1, .lock 0, .lock 1]).isSome
#print axioms Grcov.Props.C07.C07_no_deadlock
#print axioms Grcov.Props.C02.C02_final_map_is_fold_of_batches
