import GrcovModel.Props.C03CobBytes
import GrcovModel.Props.C03JsonBytes
import GrcovModel.Props.C18
open Grcov Grcov.Escape Grcov.Writers.CobBytes Grcov.Writers.CobAde
def b (s : String) : Bytes := s.toUTF8.toList.map (·.toNat)
def okx (s : String) : Bool := (xmlParse (b s)).isSome
-- raw metachar in attribute values
#eval okx "<a k=\"x&y\"/>"      -- expect false
#eval okx "<a k=\"x<y\"/>"      -- expect false
#eval okx "<a k=\"x\"y\"/>"     -- expect false
#eval okx "<a k=\"x>y\"/>"      -- raw > legal XML
#eval okx "<a k=\"x'y\"/>"      -- raw ' legal XML
#eval okx "<a k='x'/>"          -- single-quoted: legal XML, reader?
#eval okx "<a k = \"x\"/>"      -- spaces around =
#eval okx "<a  k=\"x\"/>"       -- two blanks
#eval okx "<a k=\"x\" />"       -- blank before />
#eval okx "<a k=\"x\" k=\"y\"/>" -- dup
#eval okx "<a>x&y</a>"
#eval okx "<a>x]]>y</a>"
#eval okx "<a>x>y</a>"
#eval okx "<a><b></a></b>"
#eval okx "<a/><b/>"
#eval okx "<a>&#0;</a>"
#eval okx "<a>&#x1;</a>"
#eval okx "<a k=\"&#x9;\"/>"
#eval (xmlParse (b "<a k=\"&#x9;\"/>")).map (fun t => repr t)
#eval okx "<!DOCTYPE a [<!ENTITY x \"y\">]><a/>"
#eval okx "<a><!-- c --></a>"
#eval okx "<a><![CDATA[x]]></a>"
#eval okx "<a>\xff</a>"
-- decodeReport on a hand-written wrong writer: hits/number swapped
def rep (body : String) : Bytes := b ("<?xml version=\"1.0\"?><!DOCTYPE  coverage SYSTEM 'x'><coverage><sources><source>.</source></sources><packages><package name=\"f\"><classes><class name=\"f\" filename=\"f\"><methods></methods><lines>" ++ body ++ "</lines></class></classes></package></packages></coverage>")
#eval decodeReport (rep "<line number=\"3\" hits=\"7\"/>")
#eval decodeReport (rep "<line hits=\"7\" number=\"3\"/>")
#eval decodeReport (rep "<line number=\"3\" hits=\"7\"><conditions><condition coverage=\"1\"/><condition number=\"5\" type=\"zz\" coverage=\"0\"/></conditions></line>")
#eval decodeReport (rep "<line number=\"03\" hits=\"+7\"/>")
#eval decodeReport (rep "<line number=\"03\" hits=\"007\"/>")
