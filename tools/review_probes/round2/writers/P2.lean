import GrcovModel.Props.C03JsonBytes
import GrcovModel.Props.C18
open Grcov Grcov.Escape Grcov.Writers.JsonBytes
def b (s : String) : Bytes := s.toUTF8.toList.map (·.toNat)
def okj (s : String) : Bool := (jsonParse (b s)).isSome
#eval okj "[1-2]"
#eval okj "[01]"
#eval okj "[-]"
#eval okj "[1.2.3e+-]"
#eval okj "[1e]"
#eval okj "[--1]"
#eval okj "[1,]"
#eval okj "[1 ,2]"
#eval okj "{\"a\":1,\"a\":2}"
#eval okj "\"a\tb\""
#eval okj "\"a\\qb\""
#eval okj "\"a\"b\""
#eval okj "\"\\ud800\""
#eval okj "\"\\ud83d\\ude00\""
#eval okj "nul"
#eval okj "[1]x"
#eval okj "\"\xff\""
#eval tokOk (b "1.2.3e+-")
#eval tokOk (b "-.e")
#eval tokOk (b "1e")
