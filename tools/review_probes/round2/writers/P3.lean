import GrcovModel.Props.C03CobBytes
import GrcovModel.Props.C03JsonBytes
import GrcovModel.Props.C03CobAde
import GrcovModel.Props.C03Docs
import GrcovModel.Props.C18
import GrcovModel.Props.C13Docs
#print axioms Grcov.Props.C03.C03_cobbytes_decode_bytes
#print axioms Grcov.Props.C03.C03_cobbytes_control_witnesses
#print axioms Grcov.Props.C03.C03_json_coveralls_bytes
#print axioms Grcov.Props.C03.C03_html_pages_partial
#print axioms Grcov.Props.C18.C18_cobbytes_wellformed_exact_names
#print axioms Grcov.Props.C18.C18_sink_row_dir
#print axioms Grcov.Props.C13.C13_covdir_report_sums_partial
#print axioms Grcov.Props.C03.C03_cob_decode
open Grcov Grcov.Escape Grcov.Writers.CobBytes Grcov.Writers.CobAde
-- empty source dir
#eval decodeReport (reportBytes (fun _ _ => [48,46,53]) (coberturaDoc (some []) []))
-- empty result set
#eval decodeReport (reportBytes (fun _ _ => [48,46,53]) (coberturaDoc none []))
-- what DocOk excludes: TAB in path
#eval decodeReport (reportBytes (fun _ _ => [48,46,53]) (coberturaDoc none [([97,9,98], {lines := [(1,1)]})]))
-- duplicate file names, line 0, empty fn name, empty branch vector
#eval decodeReport (reportBytes (fun _ _ => [48,46,53]) (coberturaDoc none [([97], {lines := [(0,1)], branches := [(0, [])], functions := [([], ⟨0,true⟩)]}), ([97], {lines := [(0,18446744073709551615)]})]))
