import GrcovModel.Props.C11
import GrcovModel.Props.C06
open Grcov Grcov.UPath Grcov.Glob Grcov.Rewrite Grcov.Props.C11

-- non-trivial instance of the guard of C11_partial_ignore_keep_partition_partial
def G2 : GlobSet := [[Tok.lit 122, Tok.recSuffix]]
example : needed pwCfg pwFS (pwMap.map (·.1)) = true ∧
   (walkCands pwFS pwOrd pwCfg [47,115] (pwMap.map (·.1))).length = 2 ∧
   (∀ e ∈ walkCands pwFS pwOrd pwCfg [47,115] (pwMap.map (·.1)), setMatch G2 e.2 = false) := by decide +kernel

open Grcov.Props.C06 Grcov.Props.C06.Rep Grcov.Lcov Grcov.Props.C05 Grcov.Props.C01
-- leaf with the same SF twice (as parse_lcov returns for an input that repeats a section)
def dupLeaf : Report := [([97], { lines := [(1, 1)] }), ([97], { lines := [(1, 2)] })]
def other : Report := [([97], { lines := [(1, 4)] })]
#eval evalShardedBytes (.node (.leaf dupLeaf) (.leaf other))
#eval evalDirect (.node (.leaf dupLeaf) (.leaf other))
#eval evalShardedBytes (.node (.leaf other) (.leaf dupLeaf))
#eval evalDirect (.node (.leaf other) (.leaf dupLeaf))
#eval evalShardedBytes (.node (.node (.leaf dupLeaf) (.leaf [])) (.leaf other))
#eval evalDirect (.node (.node (.leaf dupLeaf) (.leaf [])) (.leaf other))
