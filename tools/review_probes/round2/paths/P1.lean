import GrcovModel.Props.C11
import GrcovModel.Props.C12
open Grcov Grcov.UPath Grcov.Glob Grcov.Rewrite

def b (s : String) : Bytes := s.toUTF8.toList.map (·.toNat)
def s (x : Bytes) : String := String.fromUTF8! (ByteArray.mk (x.map (·.toUInt8)).toArray)
def comps (p : String) : List Bytes := ((b p).splitOn 47).filter (· ≠ [])
def showR : Res (Option (Bytes × Bytes)) → String
  | .panic x => "PANIC " ++ x
  | .ok none => "dropped"
  | .ok (some (a, r)) => s a ++ " | " ++ s r

def fs1 : FS := FS.mk [(comps "/home/u/proj/src/a.c"), (comps "/home/u/proj/b.c"), (comps "/opt/x.c")]
  [(comps "/home"), (comps "/home/u"), (comps "/home/u/proj"), (comps "/home/u/proj/src"), (comps "/opt")]
  (comps "/home/u/proj") []
def cfg1 : Cfg := { sourceDir := some (b "/home/u/proj"), prefixDir := some (b "/home/u/proj") }
#eval showR (resolveKey cfg1 fs1 (b "./src//a.c"))
#eval showR (resolveKey cfg1 fs1 (b "/home/u/proj/src/a.c"))
#eval showR (resolveKey cfg1 fs1 (b "src\\a.c"))
#eval showR (resolveKey cfg1 fs1 (b "/opt/x.c"))
#eval showR (resolveKey cfg1 fs1 (b "/nonexist/y.c"))
#eval showR (resolveKey cfg1 fs1 (b "nonexist/y.c"))
#eval showR (resolveKey cfg1 fs1 (b "../../x.c"))
#eval showR (resolveKey cfg1 fs1 (b "proj/src/a.c"))  -- source tail
#eval showR (resolveKey { cfg1 with prefixDir := some (b "/build") } fs1 (b "/build/src/a.c"))
#eval showR (resolveKey { cfg1 with mapping := some [(b "gen/a.c", b "src/a.c")] } fs1 (b "gen/a.c"))
#eval showR (resolveKey { cfg1 with mapping := some [(b "gen/a.c", b "src/a.c")] } fs1 (b "Gen/a.c"))
#eval showR (resolveKey {} fs1 (b "./src//a.c"))
#eval showR (resolveKey {} fs1 (b "src/"))
#eval showR (resolveKey cfg1 fs1 (b ""))
#eval showR (resolveKey cfg1 fs1 (b "/"))
#eval showR (resolveKey cfg1 fs1 (b "."))
#eval showR (resolveKey cfg1 fs1 (b "/home/u/proj"))
-- C12: with source dir, nonexisting file, two spellings
def showL : Res (List Rec) → String
  | .panic x => "PANIC " ++ x
  | .ok l => toString (l.map fun r => (s r.abs, s r.rel, r.cov.lines))
#eval showL (addThenRewrite cfg1 fs1 [(b "gen/z.c", {lines := [(1,1)]}), (b "./gen/z.c", {lines := [(1,2)]}), (b "src/a.c", {lines := [(1,1)]}), (b "./src/a.c", {lines := [(1,1)]})])
#print axioms Grcov.Props.C12.C12_unique_iff_no_source
#print axioms Grcov.Props.C11.C11_relative_under_source_dir_partial
#print axioms Grcov.Props.C11.C11_partial_ignore_keep_partition_false
