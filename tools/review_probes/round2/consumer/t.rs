use std::path::{Path, Component};
fn main() {
    for s in ["..gcno", "a/..gcno", "a/b..gcno", "..c"] {
        let p = Path::new(s);
        let stem = p.with_extension("");
        let dest = Path::new("/t").join(format!("{}_{}.gcno", stem.to_str().unwrap(), 1));
        println!("{:?} ext={:?} all_normal={} stem={:?} dest={:?} comps={:?}", s, p.extension(), p.components().all(|c| matches!(c, Component::Normal(_))), stem, dest, dest.components().collect::<Vec<_>>());
    }
}
