import GrcovModel.Props.C19
import GrcovModel.Props.C20
open Grcov

def alphabet : List Nat := [47, 46, 97]
def strs : Nat → List (List Nat)
  | 0 => [[]]
  | n+1 => (strs n) ++ ((strs n).filter (·.length = n)).flatMap fun s => alphabet.map fun c => s ++ [c]

-- two models of Path::file_name: do they agree on all strings over {'/', '.', 'a'} up to length 6?
#eval ((strs 6).filter fun s => Consumer.fileName s != Confine.fileName s).length
#eval (strs 6).length
-- two models of Path::extension on flat names
#eval (((strs 6).filter fun s => !s.contains 47).filter fun s => s != [] ∧ s != [46] ∧ Consumer.extension s != Confine.extOfName s)
