import GrcovModel.Props.C19
open Grcov Grcov.Confine Grcov.Props.C19

-- hypothesis of C19_inputs_untouched is unsatisfiable when no --log file is given (the default)
example (ri : RunInput) (input : Path) (hlog : ri.log = none) :
    ¬ (∀ r : Root, Apart input (rootPath ri r)) := by
  intro h
  have := (h .log).2
  apply this
  simp [rootPath, hlog, resolve, resolveOnto]

-- relative and absolute paths are conflated by resolve
#eval resolve [.root, .normal [111], .normal [104]] == resolve [.normal [111], .normal [104]]
-- relative out "x", absolute input "/work/x/data": "Apart" although (cwd=/work) the input lies in the output dir
example : Apart [.root, .normal [119], .normal [120], .normal [100]] [.normal [120]] := by unfold Apart; decide
