import GrcovModel.Props.C19
import GrcovModel.Props.C20
open Grcov Grcov.Confine Grcov.Props.C19

-- stem "a/.." (zip entry "a/..gcno" -> with_extension("") = "a/.."): model destination
#eval zipEntryDest [.root, .normal [116]] (toPath [97,47,46,46]) (numbered 1 [103,99,110,111])
#eval resolve (zipEntryDest [.root, .normal [116]] (toPath [97,47,46,46]) (numbered 1 [103,99,110,111]))
-- stem ".." (entry "..gcno")
#eval enclosed (toPath [46,46])
#eval withExtension [97,47,46,46,103,99,110,111] []
#eval withExtension [46,46,103,99,110,111] []
-- what the code really computes, at string level: stem ++ "_1.gcno" then components
#eval toPath ([97,47,46,46] ++ [95,49,46,103,99,110,111])

-- RunOK non-vacuity
example : RunOK exRun := by
  refine ⟨by decide, by decide, ?_⟩
  intro r hr hrel
  simp [exRun] at hr
  rcases hr with rfl | rfl | rfl | rfl
  · exact ⟨[[115, 114, 99], [97, 46, 99]], by decide, by decide, by decide⟩
  · exact ⟨[[46, 98, 97, 115, 104, 114, 99]], by decide, by decide, by decide⟩
  · simp [UPath.isRelative] at hrel; revert hrel; decide
  · exact ⟨[[98, 46, 99]], by decide, by decide, by decide⟩
#print axioms C19_all_dests_confined
#print axioms C19_html_confined_partial
#print axioms Grcov.Props.C20.C20_isolation
#print axioms Grcov.Props.C20.C20_findbin_every_executable_false
