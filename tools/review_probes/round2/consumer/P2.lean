import GrcovModel.Props.C19
import GrcovModel.Props.C20
open Grcov Grcov.Confine Grcov.Props.C19

example : RunOK exRun := by
  refine ⟨by decide, by decide, ?_⟩
  intro r hr hrel
  simp only [exRun, List.mem_cons, List.not_mem_nil, or_false] at hr
  rcases hr with rfl | rfl | rfl | rfl
  · exact ⟨[[115, 114, 99], [97, 46, 99]], by decide, by decide, by decide⟩
  · exact ⟨[[46, 98, 97, 115, 104, 114, 99]], by decide, by decide, by decide⟩
  · exact absurd hrel (by decide)
  · exact ⟨[[98, 46, 99]], by decide, by decide, by decide⟩

open Grcov.Consumer Grcov.Props.C20 in
example : Guard exEnv .single exItems := by
  refine ⟨Or.inl rfl, ?_, ?_⟩
  · intro stem g hg w hw
    simp only [exItems, List.mem_cons, List.not_mem_nil, or_false] at hg
    rcases hg with h | h | h | h <;> (try cases h) <;> revert w <;> decide
  · intro stem g hg hok
    simp only [exItems, List.mem_cons, List.not_mem_nil, or_false] at hg
    rcases hg with h | h | h | h <;> (try cases h) <;> (try (revert hok; decide)) <;> decide

-- the plain test is on the entry NAME, the model's Extract.entry is the STEM
#eval plain (toPath [46,46,103,99,110,111])   -- "..gcno"
#eval enclosed (toPath (withExtension [46,46,103,99,110,111] []))
