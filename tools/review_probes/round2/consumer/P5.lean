import GrcovModel.Props.C19
open Grcov Grcov.Confine Grcov.Props.C19

def pr : List Nat := [112,114]
-- the run of former finding C19-dot-segment-overwrites-input: dir input shared/x (link), zip entry shared/./x (File::create)
def bad : RunInput :=
  { tmp := [.root, .normal [116]], out := [.root, .normal [111]], log := some [.root, .normal [108]],
    extracts := [⟨false, [.normal [115], .normal [120]], 1, pr, []⟩,
                 ⟨true, [.normal [115], .cur, .normal [120]], 1, pr, []⟩] }
example : RunOK bad := ⟨by decide, by decide, by intro r hr; simp [bad] at hr⟩
#eval (writeDests bad).map resolve
#eval (linkDests bad).map resolve
-- an input apart from all roots, "untouched" per C19_inputs_untouched, although the zip extraction writes through the link into it
example : ∀ r : Root, Apart [.root, .normal [105]] (rootPath bad r) := by intro r; cases r <;> (unfold Apart; decide)
