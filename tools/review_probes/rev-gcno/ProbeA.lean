import GrcovModel.Props.C08
import GrcovModel.Props.C15
open Grcov Grcov.Gcno Grcov.Props

-- A: arcs[0] is not the entry arc (ARCS record of block 2 comes first). Spanning tree + conserved flow hold,
-- the function is entered 5 times (virtual arc / out of block 0 = 5) but arc 0 carries 0.
def fA : Func :=
  match build 48 7
    [.func 1 11 22 [102] [97, 46, 99] 10 0, .blocks 5,
     .arcs 2 [(3, 0), (4, 1)], .arcs 0 [(2, 1)], .arcs 3 [(1, 1)], .arcs 4 [(1, 0)],
     .lines 2 [.file [97, 46, 99], .line 10], .lines 3 [.file [97, 46, 99], .line 11],
     .lines 4 [.file [97, 46, 99], .line 12]] with
  | .ok g => g.funcs.headD ⟨0, 0, 0, 0, 0, [], [], [], []⟩
  | _ => ⟨0, 0, 0, 0, 0, [], [], [], []⟩
-- arcs: 0:2→3 1:2→4* 2:0→2* 3:3→1* 4:4→1 5:1→0*(virtual)
def FA (e : Nat) : Nat := [0, 5, 5, 0, 5, 5].getD e 0
example : isSpanTree (addVirtualArc 48 fA) = true := by decide
example : flowB (addVirtualArc 48 fA) FA = true := by decide
example : flowVals FA fA.arcs 0 = [0, 5] := by decide
#eval (addVirtualArc 48 fA).arcs
#eval match compute ⟨48, 7, [fA]⟩ [⟨48, 7, [.func 3 1 11 22, .arcs 4 [0, 5]]⟩] true with
  | .ok r => r.map (fun p => (p.2.lines, p.2.functions.map (fun q => q.2.executed)))
  | _ => []

-- D: function-checksum mismatch after an accepted prefix: outcome is a crash (overflow), not an error
def huge : Nat := 2^63
#eval match C15.exNotes with
  | .ok g => (match compute g [C15.exGcda huge 0 0, ⟨48, 7, [.func 3 1 11 22, .arcs 6 [huge, 0, 0], .func 3 1 11 23]⟩] true with
      | .ok _ => "ok" | .err _ => "err" | .crash _ => "crash" | .diverge => "diverge")
  | _ => "nobuild"
