import subprocess, binascii, os, shutil, sys
from enc import *
def run(name, funcs, gcdas, checksum=7):
    d=f'/tmp/review/rev-gcno/w/{name}'
    shutil.rmtree(d, ignore_errors=True); os.makedirs(d)
    g=gcno(checksum, funcs); open(f'{d}/x.gcno','wb').write(g)
    # grcov takes one gcda per stem; merge multiple by running model with list but grcov with only first
    das=[gcda(checksum,p) for p in gcdas]
    if das: open(f'{d}/x.gcda','wb').write(das[0])
    out=f'{d}.lcov'
    r=subprocess.run(['/verif/harness/target-grcov/debug/grcov', d,'--llvm','--branch','-t','lcov','-o',out],capture_output=True,text=True)
    lc=open(out).read() if os.path.exists(out) else ''
    keep=[l for l in lc.splitlines() if l.startswith(('SF','DA','FNDA','BRDA'))]
    req="computeb 1 "+binascii.hexlify(g).decode()+" "+(" ".join(binascii.hexlify(x).decode() for x in das[:1]) if das else "")
    m=subprocess.run(['/verif/lean/.lake/build/bin/gm_c15'],input=req+"\n",capture_output=True,text=True,timeout=60)
    print('==',name); print(' grcov:',' '.join(keep)); 
    err=[l for l in r.stderr.splitlines() if 'ERROR' in l or 'panic' in l]
    if err: print(' grcov-err:',err[:3])
    print(' model:',m.stdout.strip())
F=lambda recs,**k: dict({'ident':1,'lsum':11,'csum':22,'name':'f','file':'a.c','start':10,'recs':recs},**k)
# A: arcs[0] not the entry arc
run('A_arc0_not_entry',[F([('B',5),('A',2,[(3,0),(4,1)]),('A',0,[(2,1)]),('A',3,[(1,1)]),('A',4,[(1,0)]),
    ('L',2,[10]),('L',3,[11]),('L',4,[12])])],[[(1,11,22,[0,5])]])
# B: duplicate line in a block, self loop
run('B_dup_line_selfloop',[F([('B',4),('A',0,[(2,0)]),('A',2,[(2,0),(3,1)]),('A',3,[(1,1)]),
    ('L',2,[10,10]),('L',3,[11])])],[[(1,11,22,[3,7])]])
# C: repeated ARCS record for the same source, parallel arcs
run('C_repeat_arcs',[F([('B',4),('A',0,[(2,0)]),('A',2,[(3,0),(3,0)]),('A',2,[(3,1),(2,0)]),('A',3,[(1,1)]),
    ('L',2,[10]),('L',3,[10,11])])],[[(1,11,22,[4,1,2,9])]])
# D: one-block function with a self loop
run('D_oneblock',[F([('B',1),('A',0,[(0,0)]),('L',0,[10])])],[[(1,11,22,[6])]])
# E: function with blocks and no arcs, plus second function sharing lines
run('E_noarcs',[F([('B',3),('L',2,[10])]),F([('B',3),('A',0,[(2,0)]),('A',2,[(1,1)]),('L',2,[10,11])],ident=2,name='g')],
    [[(2,11,22,[4])]])
# F: two loops on one line
run('F_loops',[F([('B',6),('A',0,[(2,1)]),('A',2,[(3,1),(4,0)]),('A',3,[(2,0),(5,1)]),('A',4,[(2,0)]),('A',5,[(1,1)]),
    ('L',2,[10]),('L',3,[10]),('L',4,[10]),('L',5,[11])])],[[(1,11,22,[3,2,3])]])
