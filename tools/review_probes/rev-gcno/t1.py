from enc import *
f={'ident':1,'lsum':11,'csum':22,'name':'f','file':'a.c','start':10,
   'recs':[('B',2),('B',3),
           ('A',0,[(2,1)]),('A',2,[(3,0),(4,1)]),('A',3,[(1,1)]),('A',4,[(1,0)]),
           ('L',2,[10]),('L',3,[11]),('L',4,[12])]}
open('t1/x.gcno','wb').write(gcno(7,[f]))
open('t1/x.gcda','wb').write(gcda(7,[(1,11,22,[2,3])]))
