import GrcovModel.Props.C07
open Grcov Grcov.Pipeline

/-- BFS over all reachable states; collect terminal codes -/
partial def explore (fate : Item → Fate) (frontier : List State) (seen : List State) (codes : List Nat) (stuckN : Nat) : List Nat × Nat × Nat :=
  match frontier with
  | [] => (codes, stuckN, seen.length)
  | s :: rest =>
    if seen.contains s then explore fate rest seen codes stuckN
    else
      let codes := match s.mainPc with | .done c => if codes.contains c then codes else c :: codes | _ => codes
      let stuckN := if stuck s then stuckN + 1 else stuckN
      let succs := (allSteps s).filterMap fun st => if enabled s st then some (step fate s st) else none
      explore fate (succs ++ rest) (s :: seen) codes stuckN

-- no die: are all terminal codes 0 ?
#eval explore (fun x => if x = 2 then .reject else .ok) [init 2 false [1,2,3]] [] [] 0
#eval explore (fun x => if x = 2 then .reject else .ok) [init 1 true [1,2,3]] [] [] 0
-- n = 0
#eval explore (fun _ => .ok) [init 0 false [1,2]] [] [] 0
#eval explore (fun _ => .ok) [init 0 false []] [] [] 0
#eval explore (fun _ => .ok) [init 0 true [1]] [] [] 0
-- die
#eval explore (fun x => if x = 1 then .die else .ok) [init 2 false [1,2,3,4,5,6]] [] [] 0
