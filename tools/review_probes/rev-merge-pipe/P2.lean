import GrcovModel.Props.C02
open Grcov Grcov.AList Grcov.Report Grcov.Props.C01

/-- missing report-level statement: when all inputs agree on a function's start line, the report carries it -/
theorem report_start_common (canon : Key → Key) (contents : Nat → List (Key × Cov))
    (hwf : ∀ i, ∀ kc ∈ contents i, kc.2.WF) (order : List Nat) (k : Key) (n : Name) (s : Nat)
    (agree : ∀ i ∈ order, ∀ kc ∈ contents i, canon kc.1 = k → ∀ g, get? kc.2.functions n = some g → g.start = s)
    (c : Cov) (hc : get? (reportOf canon contents order) k = some c) (f : Fn)
    (hf : get? c.functions n = some f) : f.start = s := by
  rw [report_entry] at hc
  generalize hL : (((order.flatMap contents).filter fun kc => canon kc.1 = k).map (·.2)) = L at hc
  have hmem : ∀ c' ∈ L, c'.WF ∧ ∀ g, get? c'.functions n = some g → g.start = s := by
    intro c' hc'
    rw [← hL] at hc'
    simp only [List.mem_map, List.mem_filter, List.mem_flatMap] at hc'
    obtain ⟨kc, ⟨⟨i, hi, hkc⟩, hk⟩, rfl⟩ := hc'
    exact ⟨hwf i kc hkc, agree i hi kc hkc (by simpa using hk)⟩
  cases L with
  | nil => simp [foldInto] at hc
  | cons a cs =>
    rw [foldInto_none_cons] at hc
    cases hc
    refine C01_start_common_when_agree (combL (.leaf a) cs) ?_ n s ?_ f hf
    · intro c' hc'; rw [combL_leaves] at hc'; exact (hmem c' (by simpa [Tree.leaves] using hc')).1
    · intro c' hc'; rw [combL_leaves] at hc'; exact (hmem c' (by simpa [Tree.leaves] using hc')).2
