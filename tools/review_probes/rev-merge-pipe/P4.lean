import GrcovModel.Props.C01
open Grcov Grcov.AList Grcov.Props.C01

/-- N-ary closed form for branch vectors (missing in Props/C01): length = longest input vector,
slot i taken iff taken in some input -/
theorem den_zipOr_closed (xs : List (Option (List Bool))) (v : List Bool) (h : den zipOr xs = some v) :
    v.length = ((xs.filterMap id).map List.length).foldr max 0 ∧
    ∀ i, v.getD i false = (xs.filterMap id).any (fun u => u.getD i false) := by
  induction xs generalizing v with
  | nil => simp [den] at h
  | cons x xs ih =>
    have e : den zipOr (x :: xs) = optCombine zipOr x (den zipOr xs) := rfl
    rw [e] at h
    cases x with
    | none => simp at h; simpa using ih v h
    | some u =>
      cases hd : den zipOr xs with
      | none =>
        rw [hd] at h; simp at h; subst h
        have : xs.filterMap id = [] := by
          clear ih e
          induction xs with
          | nil => rfl
          | cons y ys ihy =>
            have e2 : den zipOr (y :: ys) = optCombine zipOr y (den zipOr ys) := rfl
            rw [e2] at hd
            cases y with
            | none => simp at hd; simpa using ihy hd
            | some w => cases h3 : den zipOr ys <;> rw [h3] at hd <;> simp at hd
        simp [this]
      | some w =>
        rw [hd] at h; simp at h; subst h
        obtain ⟨h1, h2⟩ := ih w hd
        refine ⟨?_, ?_⟩
        · simp [zipOr_length, h1]
        · intro i; rw [zipOr_getD, h2 i]; simp

theorem C01_branches_nary (t : Tree Cov) (h : ∀ c ∈ t.leaves, c.WF) (l : Nat) (v : List Bool)
    (hv : get? t.eval.branches l = some v) :
    v.length = (((t.leaves.map fun c => get? c.branches l).filterMap id).map List.length).foldr max 0 ∧
    ∀ i, v.getD i false = ((t.leaves.map fun c => get? c.branches l).filterMap id).any (fun u => u.getD i false) := by
  rw [Tree.eval_branches t h] at hv
  exact den_zipOr_closed _ v hv

-- duplicates in inputs break the pointwise law (so WF is needed, and is what BTreeMap guarantees)
example : get? (merge {} { lines := [(1,2),(1,3)] }).lines 1 = some 5 := by decide
-- empty branch vector allowed by the model (property says length >= 1) – harmless
example : get? (merge { branches := [(1, [])] } { branches := [(1, [true])] }).branches 1 = some [true] := by decide
