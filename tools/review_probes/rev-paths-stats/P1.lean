import GrcovModel.Props.C12
open Grcov Grcov.UPath Grcov.Glob Grcov.Rewrite AList

theorem rel_eq_nf {cfg : Cfg} {fs : FS} (hS : cfg.sourceDir = none) (hP : cfg.prefixDir = none)
    (hM : cfg.mapping = none) {k : Bytes} {cov : Cov} {r : Rec}
    (h : rewriteKey cfg fs (k, cov) = .ok (some r)) :
    normalizePath (bsl k) = some r.rel := by
  obtain ⟨a, rl, hres, hsel⟩ := (rewriteKey_some_iff _ _ _ _).1 h
  obtain ⟨_, _, _, _, er⟩ := (selectRec_some_iff _ _ _ _ _ _).1 hsel
  obtain ⟨r0, hg, hf⟩ := resolveKey_some hres
  simp only [keyPath_plain hP hM, hS] at hg
  obtain ⟨ac, _, _, hn⟩ := (getAbsPath_some_iff _ _ _ _ _).1 hg
  simp only [fixupRelPath] at hn
  have hb : 92 ∉ r0 := normalizePath_noBackslash (bsl_noBackslash k) hn
  unfold finalRel at hf
  rw [bsl_id hb] at hf
  obtain ⟨np, e, hreal, _⟩ := normalizePath_shape hn
  rw [e, normalizePath_render hreal] at hf
  cases hf
  rw [er, hn, e]

/-- general guard: no options, and lexical normal forms of the keys pairwise distinct -/
theorem unique_of_distinct_nf (cfg : Cfg) (fs : FS) (m : List (Bytes × Cov)) (rep : List Rec)
    (hS : cfg.sourceDir = none) (hP : cfg.prefixDir = none) (hM : cfg.mapping = none)
    (hm : NodupKeys m)
    (hinj : ∀ k1 ∈ keys m, ∀ k2 ∈ keys m, normalizePath (bsl k1) = normalizePath (bsl k2) → k1 = k2)
    (h : rewritePaths cfg fs m = .ok rep) : (rep.map (·.rel)).Nodup := by
  obtain ⟨_, _, e⟩ := (rewritePaths_eq_ok _ _ _ _).1 h
  subst e
  refine nodup_rel_of_injective (keyRec cfg fs) (fun k => (normalizePath (bsl k)).getD []) m hm ?_ ?_
  · intro kc hkc r hr
    have := rel_eq_nf hS hP hM (k := kc.1) (cov := kc.2) ((keyRec_eq_some _ _ _ _).1 hr)
    simp [this]
  · intro k1 h1 k2 h2 e
    -- needs: both have some normal form or dropped; weaker: assume hinj on getD
    sorry
