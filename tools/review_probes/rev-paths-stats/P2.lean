import GrcovModel.Props.C12
import GrcovModel.Props.C13
open Grcov Grcov.UPath Grcov.Glob Grcov.Rewrite AList

-- "./a.c" and "b.c": unique report, but guard 1 (keys = render np) fails for "./a.c"
example : ∃ rep, rewritePaths {} ⟨[], [], []⟩
      [([46, 47, 97, 46, 99], { lines := [(1, 1)] }), ([98, 46, 99], { lines := [(2, 0)] })] = .ok rep ∧
    rep.map (·.rel) = [[97, 46, 99], [98, 46, 99]] := ⟨_, rfl, by decide⟩

-- prefix only: "p/a.c" and "a.c" with --prefix-dir p (both normal keys) collide
example : ∃ rep, rewritePaths { prefixDir := some [112] } ⟨[], [], []⟩
      [([112, 47, 97, 46, 99], { lines := [(1, 1)] }), ([97, 46, 99], { lines := [(1, 2)] })] = .ok rep ∧
    rep.map (·.rel) = [[97, 46, 99], [97, 46, 99]] := ⟨_, rfl, by decide⟩

open Grcov.Stats in
#eval htmlPercentFloor 29 100   -- model: 29 ; Rust f64: (29.0/100.0*100.0) as usize = 28

-- covdir model: file `a` and file `a/b` : Vec tree keeps both; JSON children map would not
open Grcov.Stats in
#eval (match covdir [ { relIsRel := true, openable := true, rel := [[97]], abs := [], cov := { lines := [(1,1)] } },
                { relIsRel := true, openable := true, rel := [[97],[98]], abs := [], cov := { lines := [(1,0),(2,0)] } } ] with
       | .ok t => repr (t.stats, t.files.map (·.name), t.files.map (·.stats.total))
       | .panic s => s)
