import GrcovModel.Props.C10
open Grcov Grcov.Jacoco Grcov.Jacoco.Spec
def S (s : String) : Name := s.toUTF8.toList.map (·.toNat)
def theLine : SSeg := .line ⟨1,0,0,0,18446744073709551615⟩ (S "line") [(S "nr", S "1"), (S "ci", S "0"), (S "mb", S "0"), (S "cb", S "18446744073709551615")] true
def theSrc : XSource := { name := S "A.java", tag := S "sourcefile", attrs := [(S "name", S "A.java")], selfClose := false, body := [theLine] }
def big : XReport := [.pkg { name := S "p", tag := S "package", attrs := [(S "name", S "p")], selfClose := false, body := [.src theSrc] }]
#eval wf big
