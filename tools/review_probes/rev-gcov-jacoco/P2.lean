import GrcovModel.Props.C09
open Grcov AList Grcov.Gcov Grcov.Gcov.Spec

def S (s : String) : Bytes := s.toUTF8.toList.map (·.toNat)

-- gcov-13 style line: extra "block_ids" key
def ln : Json := .obj [(Json.kLineNumber, .num (.pos 3)), (Json.kFunctionName, .str (S "f")), (Json.kCount, .num (.pos 7)),
  (Json.kUnexecutedBlock, .bool false), (S "block_ids", .arr [.num (.pos 1)]), (Json.kBranches, .arr [])]
def doc : Json := .obj [(Json.kFormatVersion, .str (S "2")), (Json.kGccVersion, .str (S "13")), (Json.kDataFile, .str (S "d")),
  (Json.kFiles, .arr [.obj [(Json.kFile, .str (S "a.c")), (Json.kFunctions, .arr []), (Json.kLines, .arr [ln, ln])]])]
#eval Json.toResults doc
-- is doc in the image of toJson? (no: extra key) -- fidelity theorem says nothing about it
-- float 2^64 accepted and saturated; integer literal 2^64 reaches the model as flt
#eval Json.asCounter (.num (.flt false 1 64))
#eval Json.asCounter (.num (.flt false 1 (-1)))   -- 0.5 -> 0
#eval Json.asCounter (.num (.neg 1))
-- text: gcov 8 lcount with 3 fields, function with 4 fields
#eval Text.parse (S "file:a.c\nfunction:10,12,0,foo\nlcount:10,1\n")
#eval Text.parse (S "file:a.c\nlcount:10,1,0\n")
#eval Text.parse (S "file:a.c\n\nlcount:10,1\n")
#eval Text.parse (S "lcount:10,1\nfile:a.c\n")
