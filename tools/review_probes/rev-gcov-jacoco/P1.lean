import GrcovModel.Props.C10
open Grcov AList Grcov.Jacoco Grcov.Jacoco.Spec

def S (s : String) : Name := s.toUTF8.toList.map (·.toNat)

def mth (name : String) (line : Nat) (cov : Nat) : CSeg :=
  .method { name := S name, line := line, tag := S "method", selfClose := false,
            attrs := [(S "name", escape (S name)), (S "desc", S "x"), (S "line", decimal line)],
            body := [.counter cov (S "counter") [(S "type", S "METHOD"), (S "covered", decimal cov)] true] }

-- overloaded constructors: <init>(I)V executed at line 3, <init>()V not executed at line 7
def xOver : XReport :=
  [.pkg { name := S "p", tag := S "package", attrs := [(S "name", S "p")], selfClose := false,
          body := [.cls { fq := S "p/A", sourcefile := some (S "A.java"), tag := S "class", selfClose := false,
                          attrs := [(S "name", S "p/A"), (S "sourcefilename", S "A.java")],
                          body := [mth "<init>" 3 1, mth "<init>" 7 0] }] }]

#eval wf xOver
#eval x.all RSeg.wf where x := xOver
#eval parse (events xOver) (enoughFuel (events xOver))
#eval sem (abs xOver)
