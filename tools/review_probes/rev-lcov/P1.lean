import GrcovModel.Props.C05
import GrcovModel.Props.C06
open Grcov AList Grcov.Lcov Grcov.Lcov.Spec

def s (x : String) : Bytes := x.toUTF8.toList.map (·.toNat)

-- DA with checksum starting with 'e' (lcov --checksum writes base64 MD5): premature end_of_record
#eval parse true (s "SF:a.c\nDA:1,2,eQ1Xabc\nDA:2,5\nend_of_record\n")
-- checksum starting with 'S','F' ...: "SFx" => key SF => file renamed
#eval parse true (s "SF:a.c\nDA:1,2,SF+abc\nDA:2,5\nend_of_record\n")
#eval parse true (s "SF:a.c\nDA:1,2,DA/abc\nDA:2,5\nend_of_record\n")
#eval parse true (s "SF:a.c\nDA:1,2,Babc\nDA:2,5\nend_of_record\n")
-- harmless checksum
#eval parse true (s "SF:a.c\nDA:1,2,abc\nDA:2,5\nend_of_record\n")
-- FN duplicate resets executed
#eval parse true (s "SF:a.c\nFN:1,f\nFNDA:1,f\nFN:1,f\nend_of_record\n")
-- FN with lcov 2.x format FN:start,end,name
#eval parse true (s "SF:a.c\nFN:1,5,f\nFNDA:1,f\nend_of_record\n")
-- duplicate SF in one section; records before SF
#eval parse true (s "DA:7,7\nSF:a.c\nSF:b.c\nDA:1,1\nend_of_record\n")
-- no trailing newline / no end_of_record
#eval parse true (s "SF:a.c\nDA:1,1\nend_of_record")
#eval parse true (s "SF:a.c\nDA:1,1")
-- key with 5 uppercase letters
#eval parse true (s "SF:a.c\nBRDAX:1\nend_of_record\n")
#eval parse true (s "SF:a.c\nFNDAS:1\nend_of_record\n")
-- line starting with e inside section (e.g. unknown record 'excl')
#eval parse true (s "SF:a.c\nDA:1,1\nexcl:1\nDA:2,2\nend_of_record\n")
-- key directly followed by LF swallows next line
#eval parse true (s "SF:a.c\nFNF\nDA:1,1\nDA:2,2\nend_of_record\n")
-- BRDA with exception marker 'e' block "BRDA:1,e0,0,1" (lcov 2.x)
#eval parse true (s "SF:a.c\nBRDA:1,e0,0,1\nend_of_record\n")
-- BRDA taken count like 10 or 100
#eval parse true (s "SF:a.c\nBRDA:1,0,0,10\nBRDA:1,0,1,00\nend_of_record\n")
