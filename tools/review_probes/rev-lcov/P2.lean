import GrcovModel.Props.C05
import GrcovModel.Props.C06
open Grcov AList Grcov.Lcov Grcov.Lcov.Spec Grcov.Props.C01 Grcov.Props.C06

-- (1) C05_fixed_point's hypothesis `∀ a, obs (rt a) a` fails for rt := rtCov, obs := SameData on raw Cov
def bad : Cov := { lines := [(1, 2), (1, 3)] }
example : ¬ SameData (rtCov bad) bad := by
  intro h; have := h.lines 1; revert this; decide

-- (2) second export = first export, summary lines included: true on examples, but no theorem
def c1 : Cov := { lines := [(1, U64MAX), (7, 0)], branches := [(3, [false, true]), (9, [])],
                  functions := [([195, 169], ⟨4, true⟩), ([102], ⟨0, false⟩), ([], ⟨1, true⟩)] }
#eval decide (printLcov [([97], rtCov c1)] = printLcov [([97], c1)])
#eval decide (rtCov c1 = c1)   -- false: the empty vector at line 9 disappears
#eval rtCov c1

-- (3) C06: ObsEq ignores start lines; merged start depends on merge order
def fa : Cov := { functions := [([102], ⟨1, false⟩)] }
def fb : Cov := { functions := [([102], ⟨2, true⟩)] }
#eval (merge fa fb).functions
#eval (merge fb fa).functions
#eval decide (printLcov [([97], merge fa fb)] = printLcov [([97], merge fb fa)])
example : ObsEq (merge fa fb) (merge fb fa) :=
  C01_grouping_invariant (.node (.leaf fa) (.leaf fb)) (.node (.leaf fb) (.leaf fa))
    (by intro c hc; simp [Tree.leaves] at hc; rcases hc with h | h <;> subst h <;>
        exact ⟨by simp [NodupKeys, keys, fa, fb], by simp [NodupKeys, keys, fa, fb], by simp [NodupKeys, keys, fa, fb], by simp [fa, fb]⟩)
    (by simp [Tree.leaves]; exact List.Perm.swap _ _ _)

-- (4) with branch parsing off the reader drops the branches: no theorem for that mode
#eval parse false (printLcov [([97], c1)])
