import GrcovModel.Props.C16
open Grcov Grcov.FileFilter Grcov.Props.C16
-- source "// START\n" = one real line + the empty piece after the final LF
#eval create allOpts true [{ plain with start := true }, plain]
-- record with a key one past the last real line (e.g. #line-attributed or stale source)
#eval (rewrite allOpts true [{ plain with start := true }, plain]
  { lines := [(1, 3), (2, 5), (3, 7)], branches := [], functions := [] }).lines
-- start+stop on the same line, not in a region: opens; next line still inside
#eval create allOpts true [{ plain with start := true, stop := true }, plain, { plain with stop := true }, plain]
