import GrcovModel.Props.C18
open Grcov.Escape
-- CR in <source> text: model reader returns CR; a conforming XML parser returns LF (XML 1.0 §2.11)
#eval scanXmlText (xmlText [97,13,98] ++ [60])
-- C0 control (0x01) in attribute: model reader accepts; XML 1.0 forbids the char (not well-formed)
#eval scanAttr (xmlAttr [97,1,98] ++ [34])
-- NoTabNl guard admits 0x01
example : Grcov.Escape.NoTabNl [97,1,98] := by decide
-- guard of _partial not necessary: prefix "1x" (no '/' or ':'), hostile item
#eval hasScheme (dirRowUrl (some [49,120]) [115,99,114,105,112,116,58,120]) == hasScheme [49,120]
#eval hasScheme (dirRowUrl (some [97,32]) [115,99,114,105,112,116,58,120]) == hasScheme [97,32]
-- Nat ≥ 256 elements
#eval xmlAttr [300, 60]
