#!/usr/bin/env python3
"""C12 probe: run the REAL grcov binary on small lcov inputs in which one file is named by two
spellings, and print how many records the report has for it (lcov, covdir, markdown, coveralls-free).
Read-only use of /verif/harness/target-grcov/debug/grcov. Scratch under /tmp/rev2/stats-c12."""
import json, os, shutil, subprocess, sys
G = "/verif/harness/target-grcov/debug/grcov"
ROOT = "/tmp/rev2/stats-c12"
shutil.rmtree(ROOT, ignore_errors=True)
S = os.path.join(ROOT, "home", "proj")          # source dir
os.makedirs(os.path.join(S, "src"))
os.makedirs(os.path.join(S, "Src"))
open(os.path.join(S, "src", "a.c"), "w").write("int a;\nint b;\nint c;\n")
open(os.path.join(S, "Src", "a.c"), "w").write("int a;\nint b;\nint c;\n")
os.symlink("src", os.path.join(S, "lnk"))
S = os.path.realpath(S)

def info(path, keys):
    with open(path, "w") as f:
        f.write("TN:\n")
        for i, k in enumerate(keys):
            f.write("SF:%s\nDA:1,%d\nDA:2,0\nLF:2\nLH:1\nend_of_record\n" % (k, i + 1))

def run(name, keys, opts, cwd=None, mapping=None, split=False):
    d = os.path.join(ROOT, "in_" + name.replace(" ", "_").replace("/", "_"))
    os.makedirs(d, exist_ok=True)
    ins = []
    if split:
        for i, k in enumerate(keys):
            p = os.path.join(d, "i%d.info" % i); info(p, [k]); ins.append(p)
    else:
        p = os.path.join(d, "i.info"); info(p, keys); ins.append(p)
    o = list(opts)
    if mapping is not None:
        mp = os.path.join(d, "map.json"); json.dump(mapping, open(mp, "w")); o += ["--path-mapping", mp]
    res = {}
    for t in ["lcov", "covdir", "markdown"]:
        r = subprocess.run([G] + ins + ["-t", t] + o, capture_output=True, text=True, cwd=cwd or d)
        res[t] = r.stdout
        if r.returncode != 0:
            res[t] = "EXIT %d %s" % (r.returncode, r.stderr[-300:])
    sfs = [l[3:] for l in res["lcov"].splitlines() if l.startswith("SF:")]
    das = [l for l in res["lcov"].splitlines() if l.startswith("DA:1,")]
    try:
        cd = json.loads(res["covdir"])
        def files(n, pre=""):
            out = []
            for k, c in n.get("children", {}).items():
                if "children" in c: out += files(c, pre + k + "/")
                else: out.append((pre + k, c["linesTotal"], c["coverage"][:1]))
            return out
        cds = "root linesTotal=%d files=%s" % (cd["linesTotal"], files(cd))
    except Exception as e:
        cds = "covdir: " + res["covdir"][:200]
    print("== %s\n   keys=%s opts=%s%s" % (name, keys, [x.replace(S, "$S") for x in opts], " mapping=%s" % mapping if mapping else ""))
    print("   lcov SF=%s DA1=%s" % ([x.replace(S, "$S") for x in sfs], das))
    print("   %s" % cds.replace(S, "$S"))
    rows = [l for l in res["markdown"].splitlines() if l.startswith("|") and "a.c" in l]
    print("   markdown rows=%d" % len(rows))
    dup = len(sfs) != len(set(sfs))
    print("   => %s" % ("DUPLICATE RECORDS" if dup else ("one record" if len(sfs) == 1 else "%d distinct names" % len(sfs))))

sd = ["-s", S]
# 0. baseline: guard 2 (both spellings exist under S) -> merged
run("exist ./ and plain, -s", ["src/a.c", "src/./a.c"], sd)
# 1. absolute vs source-relative, existing, -s
run("abs vs rel, existing, -s", [S + "/src/a.c", "src/a.c"], sd)
# 2. absolute vs source-relative, existing, NO -s, cwd = S
run("abs vs rel, existing, no -s, cwd=S", [S + "/src/a.c", "src/a.c"], [], cwd=S)
# 3. guess_abs_path overlap: key starts with the source dir's last component (gcov run from the parent)
run("overlap proj/src/a.c vs src/a.c, existing, -s", ["proj/src/a.c", "src/a.c"], sd)
# 4. prefixed (other machine) vs source-relative, existing, -s -p
run("prefixed vs rel, existing, -s -p /builds/w", ["/builds/w/src/a.c", "src/a.c"], sd + ["-p", "/builds/w"])
# 5. prefixed vs absolute local
run("prefixed vs local abs, existing, -s -p", ["/builds/w/src/a.c", S + "/src/a.c"], sd + ["-p", "/builds/w"])
# 6. mapping: two keys mapped to one target; and a mapped form vs. the plain form
run("mapping two keys one target, -s", ["obj/a.c", "gen/a.c"], sd, mapping={"obj/a.c": "src/a.c", "gen/a.c": "src/a.c"})
run("mapped vs plain, -s", ["obj/a.c", "src/a.c"], sd, mapping={"obj/a.c": "src/a.c"})
run("mapped vs plain, no -s", ["obj/a.c", "src/a.c"], [], mapping={"obj/a.c": "src/a.c"})
# 7. mapping first-letter case folding: DIFFERENT files Src/a.c? no: keys 'src/a.c' and 'Src/a.c' both hit mapping 'src/a.c'
run("case-first mapping, two DIFFERENT existing files", ["src/a.c", "Src/a.c"], sd, mapping={"src/a.c": "src/a.c"})
# 8. non-existing file under -s: canonicalize fails -> keys kept
run("missing ./ vs plain, -s", ["nx/b/a.c", "nx/./b/a.c"], sd)
run("missing trailing a/../a, -s", ["nx/a.c", "nx/../nx/a.c"], sd)
# 9. symlinked dir, -s  (guard 2 -> merged) and without -s (cwd=S)
run("symlink dir, -s", ["src/a.c", "lnk/a.c"], sd)
run("symlink dir, no -s cwd=S", ["src/a.c", "lnk/a.c"], [], cwd=S)
# 10. backslash, existing, -s
run("backslash existing, -s", ["src\\a.c", "src/a.c"], sd)
# 11. dotdot through an existing dir vs a non-existing dir, -s
run("dotdot via missing dir, existing file, -s", ["zz/../src/a.c", "src/a.c"], sd)
# 12. two inputs (separate files) instead of one
run("split inputs: overlap, -s", ["proj/src/a.c", "src/a.c"], sd, split=True)
# 13. trailing slash / empty
run("trailing slash, -s", ["src/a.c/", "src/a.c"], sd)
shutil.rmtree(ROOT, ignore_errors=True)
