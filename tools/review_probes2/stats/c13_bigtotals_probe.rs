// C13 probe: the float claims are only tied on totals <= 108 (generator: <= 9 files x <= 12 lines).
// (a) the real CDStats::get_percent on large totals against the exact rational (bound of tolOf "covdir"),
// (b) the markdown / html / coverage.json formulas (private; copied verbatim from output.rs 661-668,
//     html.rs 237-245 + Tera round) on large totals, against the bounds of tolOf,
// (c) lcov with demangling: two mangled names with one demangled name.
use grcov::{CDStats, CovResult, Function};
use std::collections::BTreeMap;
use std::path::PathBuf;

fn md_percent(covered: usize, total: usize) -> f32 {
    if total == 0 { 100.0 } else { covered as f32 * 100.0 / total as f32 }
}
fn html_percent(c: usize, t: usize) -> f64 {
    if t != 0 { c as f64 / t as f64 * 100.0 } else { 100.0 }
}
fn tera_round(num: f64, p: i32) -> f64 {
    let m = if p == 0 { 1.0 } else { 10.0_f64.powi(p) };
    (m * num).round() / m
}
/// |printed - 100 c/t| as an exact rational compare: printed is parsed as decimal string
fn err(printed: &str, c: u128, t: u128) -> f64 {
    // printed = a / 10^k
    let s = printed.trim();
    let (ip, fp) = s.split_once('.').unwrap_or((s, ""));
    let k = fp.len() as u32;
    let a: u128 = format!("{}{}", ip, fp).parse().unwrap();
    let den = 10u128.pow(k);
    // |a/den - 100c/t| = |a t - 100 c den| / (den t)
    let x = a * t;
    let y = 100 * c * den;
    let d = if x > y { x - y } else { y - x };
    d as f64 / (den as f64 * t as f64)
}

struct Rng(u64);
impl Rng {
    fn next(&mut self) -> u64 {
        self.0 ^= self.0 << 13; self.0 ^= self.0 >> 7; self.0 ^= self.0 << 17; self.0
    }
}

fn main() {
    let mut r = Rng(0x9E3779B97F4A7C15);
    let (mut worst_cd, mut worst_md, mut worst_html, mut worst_json) = ([0f64; 5], [0f64; 5], [0f64; 5], [0f64; 5]);
    let mut bad = 0;
    for i in 0..3_000_000u64 {
        let mag = [100u64, 10_000, 1_000_000, 20_000_000, 3_000_000_000][(i % 5) as usize];
        let t = (r.next() % mag + 1) as usize;
        let c = (r.next() % (t as u64 + 1)) as usize;
        for p in 0..5usize {
            let unit = 0.5 * 10f64.powi(-(p as i32));
            let cd = serde_json::to_string(&CDStats::get_percent(c, t, p)).unwrap();
            let e = err(&cd, c as u128, t as u128);
            if e - unit > worst_cd[p] { worst_cd[p] = e - unit; }
            let md = format!("{:.p$}", md_percent(c, t));
            let e = err(&md, c as u128, t as u128);
            if e - unit > worst_md[p] { worst_md[p] = e - unit; }
            if e > unit + 2e-5 && bad < 5 { bad += 1; println!("markdown beyond tolOf: {} / {} p={} printed {} err {:e}", c, t, p, md, e); }
            let h = serde_json::to_string(&tera_round(html_percent(c, t), p as i32)).unwrap();
            if !h.contains('e') {
                let e = err(&h, c as u128, t as u128);
                if e - unit > worst_html[p] { worst_html[p] = e - unit; }
            }
            let j = format!("{:.p$}", html_percent(c, t));
            let e = err(&j, c as u128, t as u128);
            if e - unit > worst_json[p] { worst_json[p] = e - unit; }
        }
    }
    println!("worst excess over half a unit, per precision 0..4 (tolOf slack: covdir/html 1e-9, markdown 2e-5)");
    println!("  covdir   {:?}", worst_cd);
    println!("  markdown {:?}", worst_md);
    println!("  html     {:?}", worst_html);
    println!("  json     {:?}", worst_json);

    // (c) demangled duplicates
    let mut functions = grcov::FunctionMap::default();
    functions.insert("_ZN3foo3barEi".to_string(), Function { start: 1, executed: true });
    functions.insert("_ZN3foo3barEd".to_string(), Function { start: 5, executed: false });
    let cov = CovResult { lines: [(1u32, 1u64), (5, 0)].into_iter().collect::<BTreeMap<_, _>>(), branches: BTreeMap::new(), functions };
    let out = PathBuf::from("/tmp/rev2/stats-1/dm.info");
    grcov::output_lcov(&[(PathBuf::from("/x/a.cpp"), PathBuf::from("a.cpp"), cov)], Some(&out), true);
    let t = std::fs::read_to_string(&out).unwrap();
    for l in t.lines().filter(|l| l.starts_with("FN")) { println!("  lcov demangled: {}", l); }
    let _ = std::fs::remove_file(&out);
}
