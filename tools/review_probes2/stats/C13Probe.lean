import GrcovModel.Props.C13
open Grcov Grcov.Stats Grcov.Props.C13

/-! 1. `ShownDistinct` (guard of C13_html_directory_sums / _index_sums / _global_is_sum) has no
`_false` companion. Witness = what C12's duplicates hand to the HTML writer: d/a.c twice
([1:1,2:0] and [1:0,2:0]) and d/b.c [1:1]. Real output_html (c13_html_probe.rs): page d/index.html
says 2 / 5 lines, its rows are a.c 0 / 2 and b.c 1 / 1. -/
def dupRs : List FileIn :=
  [ { relIsRel := true, openable := true, rel := [[100], [97]], abs := [], cov := { lines := [(1, 1), (2, 0)] } },
    { relIsRel := true, openable := true, rel := [[100], [97]], abs := [], cov := { lines := [(1, 0), (2, 0)] } },
    { relIsRel := true, openable := true, rel := [[100], [98]], abs := [], cov := { lines := [(1, 1)] } } ]

#eval (html dupRs).dirPages.map fun dp => (dp.2.stats.totalLines, dp.2.stats.coveredLines,
  dp.2.rows.map fun r => (r.2.totalLines, r.2.coveredLines))

def html_directory_sums_stmt : Prop :=
  ∀ rs : List FileIn, ∀ dp ∈ (html rs).dirPages, dp.2.stats = sumH (dp.2.rows.map (·.2))

theorem html_directory_sums_false : ¬ html_directory_sums_stmt := by
  intro h
  have := h dupRs _ (List.mem_cons_self ..)
  revert this
  decide

/-! 2. what `printedOK` admits -/
def dig (s : String) : List Nat := s.toUTF8.toList.map (·.toNat)
def ok (w : String) (p : Nat) (r : Rate) (s : String) : Option Bool := (tolOf w p).map fun t => printedOK t r (dig s)

-- a tie: 1 of 8 at precision 0: BOTH roundings are admitted (the real writers disagree: html/covdir 13, json/markdown 12)
#eval (ok "html" 0 (htmlPercent 1 8) "13", ok "html" 0 (htmlPercent 1 8) "12", ok "html" 0 (htmlPercent 1 8) "14", ok "html" 0 (htmlPercent 1 8) "11")
-- truncation is NOT admitted off a tie: 98.337 at precision 2
#eval (ok "html" 2 (htmlPercent 98337 100000) "98.33", ok "html" 2 (htmlPercent 98337 100000) "98.34")
-- 99.996 at precision 2 -> "100.00" admitted (not fully covered, shown as 100)
#eval (ok "html" 2 (htmlPercent 99996 100000) "100.00", ok "html" 2 (htmlPercent 99996 100000) "99.99")
-- a writer that ignores --precision and prints MORE digits is admitted; fewer digits only when close
#eval (ok "covdir" 0 (cdPercent 59 60) "98.3333333", ok "covdir" 0 (cdPercent 59 60) "98.0", ok "covdir" 0 (cdPercent 59 60) "98.6")
-- exponent forms / huge exponents / negative zero
#eval (ok "cobertura" 0 (CobStats.lineRate ⟨0, 5, 0, 0⟩) "-0", ok "cobertura" 0 (CobStats.lineRate ⟨0, 5, 0, 0⟩) "0e99", ok "cobertura" 0 (CobStats.lineRate ⟨1, 3, 0, 0⟩) "3.333333333333333e-1")
-- zero total conventions side by side
#eval (cdPercent 0 0, htmlPercent 0 0, mdPercent 0 0, CobStats.lineRate ⟨0, 0, 0, 0⟩, (adePart 0 0).rate)

/-! 3. html file page: stats count every line of the record; the model has no notion of the rows
the page lists (source lines). Nothing in Stats relates `htmlStats` to C03's `htmlRows`. -/
#check @C13_html_file_totals
