// C13 probe on the REAL writers (run from a scratch crate /tmp/rev2/stats-1, see PROMPT_COMMON):
//  1. output_html with the same rel path twice (what C12's duplicates hand to the writer)
//  2. output_html with a source file shorter than the coverage record
//  3. ties: index.html (Tera round, half away from zero) vs coverage.json ({:.p$}, half to even)
//  4. covdir / markdown / html at the same tie
use grcov::{CovResult, ResultTuple};
use std::collections::BTreeMap;
use std::fs;
use std::path::{Path, PathBuf};

fn cov(lines: &[(u32, u64)]) -> CovResult {
    CovResult { lines: lines.iter().cloned().collect::<BTreeMap<_, _>>(), branches: BTreeMap::new(), functions: Default::default() }
}

fn grep(p: &Path, pats: &[&str]) {
    let t = fs::read_to_string(p).unwrap_or_else(|e| format!("<{}: {}>", p.display(), e));
    for l in t.lines() {
        let s = l.trim();
        if pats.iter().any(|q| s.contains(q)) {
            println!("     {}: {}", p.file_name().unwrap().to_str().unwrap(), s);
        }
    }
}

fn html(results: &[ResultTuple], out: &Path, threads: usize, precision: usize) {
    let _ = fs::remove_dir_all(out);
    grcov::output_html(results, Some(out), threads, false, None, precision, &None, true, grcov::html::HtmlResources::Cdn);
}

fn main() {
    let root = PathBuf::from("/tmp/rev2/stats-1/work");
    let _ = fs::remove_dir_all(&root);
    let src = root.join("src_root");
    fs::create_dir_all(src.join("d")).unwrap();
    fs::write(src.join("d/a.c"), "int x;\nint y;\n").unwrap();
    fs::write(src.join("d/b.c"), "1\n2\n3\n4\n5\n6\n7\n8\n9\n10\n").unwrap();
    let out = root.join("out");

    println!("== 1. same rel path twice (d/a.c: [1:1,2:0] and [1:0,2:0]) + d/b.c [1:1]");
    for threads in [1usize, 2] {
        let rs: Vec<ResultTuple> = vec![
            (src.join("d/a.c"), PathBuf::from("d/a.c"), cov(&[(1, 1), (2, 0)])),
            (src.join("d/a.c"), PathBuf::from("d/a.c"), cov(&[(1, 0), (2, 0)])),
            (src.join("d/b.c"), PathBuf::from("d/b.c"), cov(&[(1, 1)])),
        ];
        html(&rs, &out, threads, 2);
        println!("   threads={}", threads);
        grep(&out.join("d/index.html"), &["abbr title", " / "]);
        grep(&out.join("index.html"), &["abbr title"]);
        grep(&out.join("coverage.json"), &["message"]);
    }

    println!("== 2. source of 2 lines, record with lines 1,2,5,9 (5 and 9 hit)");
    let rs: Vec<ResultTuple> = vec![(src.join("d/a.c"), PathBuf::from("d/a.c"), cov(&[(1, 0), (2, 0), (5, 3), (9, 4)]))];
    html(&rs, &out, 1, 2);
    grep(&out.join("d/a.c.html"), &["abbr title"]);
    let page = fs::read_to_string(out.join("d/a.c.html")).unwrap();
    println!("     rows in the page (source lines shown): {}", page.matches("<pre").count());
    println!("     page mentions count 3 or 4 hits: {}", page.contains(">3<") || page.contains(">4<"));

    println!("== 3. ties: 1 of 8 lines at precision 0; 1 of 800 at precision 2; 1 of 16 at precision 1");
    for (c, t, p) in [(1u32, 8u32, 0usize), (1, 800, 2), (1, 16, 1), (3, 8, 0), (5, 8, 0)] {
        let lines: Vec<(u32, u64)> = (1..=t).map(|l| (l, if l <= c { 1 } else { 0 })).collect();
        let rs: Vec<ResultTuple> = vec![(src.join("d/b.c"), PathBuf::from("d/b.c"), cov(&lines))];
        html(&rs, &out, 1, p);
        println!("   {} / {} at precision {} (exact {}):", c, t, p, 100.0 * c as f64 / t as f64);
        grep(&out.join("index.html"), &["abbr title=\"1 /", "abbr title=\"3 /", "abbr title=\"5 /"]);
        grep(&out.join("coverage.json"), &["message"]);
        let cd = root.join("covdir.json");
        grcov::output_covdir(&rs, Some(&cd), p);
        let v: serde_json::Value = serde_json::from_str(&fs::read_to_string(&cd).unwrap()).unwrap();
        println!("     covdir coveragePercent: {}", v["coveragePercent"]);
        let md = root.join("r.md");
        grcov::output_markdown(&rs, Some(&md), p);
        grep(&md, &["Total coverage"]);
    }
    let _ = fs::remove_dir_all(&root);
}
