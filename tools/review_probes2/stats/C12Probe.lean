import GrcovModel.Props.C12
open Grcov Grcov.UPath Grcov.Rewrite Grcov.Props.C12

def b (s : String) : Bytes := s.toUTF8.toList.map (·.toNat)
def s (x : Bytes) : String := String.fromUTF8! (ByteArray.mk (x.map (·.toUInt8)).toArray)

/-- /h/proj/src/a.c, /h/proj/Src/a.c -/
def fs1 : FS :=
  { files := [[b "h", b "proj", b "src", b "a.c"], [b "h", b "proj", b "Src", b "a.c"]],
    dirs := [[b "h"], [b "h", b "proj"], [b "h", b "proj", b "src"], [b "h", b "proj", b "Src"]],
    cwd := [b "h", b "proj"] }

def cv (n : Nat) : Cov := { lines := [(1, n), (2, 0)] }

def disp (r : Res (List Rec)) : String :=
  match r with
  | .panic p => "panic " ++ p
  | .ok l => toString (l.map fun r => (s r.abs, s r.rel, r.cov.lines))

def S : Option Bytes := some (b "/h/proj")

-- the model on the CLI cases of c12_cli_spellings.py (all: EXISTING file below --source-dir)
#eval disp (addThenRewrite { sourceDir := S } fs1 [(b "proj/src/a.c", cv 1), (b "src/a.c", cv 2)])
#eval disp (addThenRewrite { sourceDir := S, prefixDir := some (b "/builds/w") } fs1 [(b "/builds/w/src/a.c", cv 1), (b "src/a.c", cv 2)])
#eval disp (addThenRewrite { sourceDir := S } fs1 [(b "src\\a.c", cv 1), (b "src/a.c", cv 2)])
#eval disp (addThenRewrite { sourceDir := S } fs1 [(b "zz/../src/a.c", cv 1), (b "src/a.c", cv 2)])
#eval disp (addThenRewrite { sourceDir := S } fs1 [(b "src/a.c/", cv 1), (b "src/a.c", cv 2)])
#eval disp (addThenRewrite { sourceDir := S, mapping := some [(b "obj/a.c", b "src/a.c")] } fs1 [(b "obj/a.c", cv 1), (b "src/a.c", cv 2)])
#eval disp (addThenRewrite { sourceDir := S, mapping := some [(b "src/a.c", b "src/a.c")] } fs1 [(b "src/a.c", cv 1), (b "Src/a.c", cv 2)])

/-- Candidate for the missing `_false`: guard 2 with the file-system hypothesis weakened from
"every KEY canonicalises below S" to what DESIGN 6 / the finding text say ("files existing under
--source-dir"): every key's FILE exists below S. False: backslash spelling of an existing file
(`src\\a.c` + `src/a.c`, source dir /h/proj, /h/proj/src/a.c exists). -/
def fsL : FS :=
  { files := [[[104], [112,114,111,106], [115,114,99], [97,46,99]]],
    dirs := [[[104]], [[104], [112,114,111,106]], [[104], [112,114,111,106], [115,114,99]]],
    cwd := [[104], [112,114,111,106]] }
def batchL : List (Bytes × Cov) :=
  [([115,114,99,92,97,46,99], { lines := [(1, 1)] }), ([115,114,99,47,97,46,99], { lines := [(1, 2)] })]

theorem existing_file_backslash_two_records :
    addThenRewrite { sourceDir := some [47,104,47,112,114,111,106] } fsL batchL
      = .ok [⟨[47,104,47,112,114,111,106,47,115,114,99,47,97,46,99], [115,114,99,47,97,46,99], { lines := [(1, 1)] }⟩,
             ⟨[47,104,47,112,114,111,106,47,115,114,99,47,97,46,99], [115,114,99,47,97,46,99], { lines := [(1, 2)] }⟩] := by
  decide +kernel

-- how far is the hypothesis `hex` of C12_unique_partial_canonical from "the file exists"?
-- it FAILS for each of these keys although each of them is reported for the existing /h/proj/src/a.c
#eval [b "proj/src/a.c", b "src\\a.c", b "zz/../src/a.c", b "src/a.c/", b "/builds/w/src/a.c"].map fun k =>
  (s k, (fs1.realpath (push (b "/h/proj") k)).map s)

#print axioms C12_unique_partial_canonical
