#!/bin/bash
# C11/C16: --filter covered|uncovered is evaluated AFTER the exclusion markers removed lines (path_rewriting.rs 377-404).
# No model composes FileFilter.rewrite with Rewrite.filterOk; C11 harness always passes FileFilter::default(),
# C16 harness always passes filter_option=None.
G=/verif/harness/target-grcov/debug/grcov; D=/tmp/rev2/paths-bin1; rm -rf $D; mkdir -p $D/src; cd $D
printf 'int x = 1; // EXCL\nint y;\n' > src/a.c
printf 'int x = 1;\nint y;\n' > src/b.c
printf 'SF:a.c\nDA:1,5\nDA:2,0\nend_of_record\nSF:b.c\nDA:1,5\nDA:2,0\nend_of_record\n' > in.info
echo "--- covered, no markers (a.c and b.c)"; $G in.info -s src -t lcov --filter covered 2>&1 | grep SF
echo "--- covered, --excl-line EXCL (only b.c: a.c's only hit line was excluded)"; $G in.info -s src -t lcov --filter covered --excl-line EXCL 2>&1 | grep SF
echo "--- uncovered, --excl-line EXCL (a.c)"; $G in.info -s src -t lcov --filter uncovered --excl-line EXCL 2>&1 | grep SF
rm -rf $D
