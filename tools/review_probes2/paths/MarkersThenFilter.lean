/- C11/C16 gap: `C11_main_report_selection` is stated for ANY plan, also one with --excl-* options, and says the
report is selected by `filterOk (filterOption o.filter) kc.2` on the RAW data and carries `kc.2`. The real
`rewrite_paths` applies the markers first (path_rewriting.rs 377-390) and evaluates is_covered on the reduced
record (392-404). Real run: markers_then_filter.sh — `--filter covered --excl-line EXCL` drops a.c. -/
import GrcovModel.Props.C11
import GrcovModel.Props.C16
open Grcov Grcov.UPath Grcov.Glob Grcov.Rewrite Grcov.MainGlue Grcov.Props.C11

def b (s : String) : Bytes := s.toUTF8.toList.map (·.toNat)

def env1 : Env :=
  { cpus := 2, canon := fun p => if p = b "src" then some (b "/w/src") else none
    isDir := fun _ => false, mappingReadable := fun _ => true }
def opts1 : Opts :=
  { outputTypes := [.lcov], sortOutputTypes := [.markdown], filter := some .covered
    precision := 2, vcsBranch := bMaster, log := bStderr, logLevel := .error
    rest := { paths := [b "in.info"], sourceDir := some (b "src"), exclLine := some (b "EXCL") } }
def fs1 : FS := { dirs := [[b "w"], [b "w", b "src"]], files := [[b "w", b "src", b "a.c"]], cwd := [b "w"] }
def cov1 : Cov := { lines := [(1, 5), (2, 0)] }

-- the plan has a non-inert file filter AND the model report (the subject of C11_main_report_selection) keeps a.c with raw data
def show1 (cfg : Cfg) : List (String × List (Nat × Nat)) :=
  match rewritePaths cfg fs1 [(b "a.c", cov1)] with
  | .ok rs => rs.map fun (r : Rec) => (String.mk (r.rel.map Char.ofNat), r.cov.lines)
  | .panic s => [(s, [])]

#eval match plan env1 opts1 with
  | .ok p => (repr p.fileFilter.toOpts, (p.rewriteCfg none).map show1)
  | .error _ => (repr 0, none)

-- what the code does to the record first (line 1 carries the marker), and its status afterwards
#eval let c := FileFilter.rewrite ⟨true, false, false, false, false, false⟩ true
          [⟨true, false, false, false, false, false⟩, ⟨false, false, false, false, false, false⟩] cov1
      (c.lines, isCovered c, isCovered cov1)
