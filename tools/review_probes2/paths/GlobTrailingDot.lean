/- Model side of glob_trailing_dot.rs: Glob.setMatch has GlobMatcher (regex) semantics; the real GlobSet::is_match used by
rewrite_paths answers false for `**/bar.`, `*.`, `**/*.`, `**/a..`, `?ar.` on paths whose last byte is '.' (globset's
Candidate has no basename/extension for such paths). harness/c11/src/main.rs:178 appends 'c' to every generated path that ends
with '.', and FILES/DIRS have no such name, so the tie never sees it. -/
import GrcovModel.Props.C11
open Grcov Grcov.UPath Grcov.Glob Grcov.Rewrite
def b (s : String) : Bytes := s.toUTF8.toList.map (·.toNat)
#eval [("**/bar.", "foo/bar."), ("*.", "x."), ("**/*.", "foo/x.c."), ("**/a..", "foo/a.."), ("?ar.", "bar.")].map
  fun (g, p) => (g, p, globMatch (b g) (b p))
-- model report for key foo/bar. under --ignore '**/bar.' (real code: reported) and --keep-only (real code: dropped)
def showR (r : Res (List Rec)) : List String := match r with
  | .ok rs => rs.map fun (x : Rec) => String.mk (x.rel.map Char.ofNat)
  | .panic s => ["panic " ++ s]
#eval showR (rewritePaths { ignore := ((parse (b "**/bar.")).map ([·])).getD [] } { files := [], dirs := [], cwd := [] } [(b "foo/bar.", {})])
#eval showR (rewritePaths { keep := ((parse (b "**/bar.")).map ([·])).getD [] } { files := [], dirs := [], cwd := [] } [(b "foo/bar.", {})])
