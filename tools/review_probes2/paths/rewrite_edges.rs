use grcov::*;
use rustc_hash::FxHashMap;
use std::path::Path;
use std::collections::BTreeMap;

fn cov(lines: &[(u32, u64)]) -> CovResult {
    CovResult { lines: lines.iter().cloned().collect::<BTreeMap<_,_>>(), branches: BTreeMap::new(), functions: FxHashMap::default() }
}

#[allow(clippy::too_many_arguments)]
fn run(tag: &str, sd: Option<&str>, pd: Option<&str>, mapping: Option<serde_json::Value>, ine: bool, ign: &[&str], keep: &[&str], filt: Option<bool>, keys: &[&str]) {
    let mut m: CovResultMap = FxHashMap::default();
    for (i, k) in keys.iter().enumerate() { m.insert(k.to_string(), cov(&[(i as u32 + 1, 1)])); }
    let ign: Vec<String> = ign.iter().map(|s| s.to_string()).collect();
    let keep: Vec<String> = keep.iter().map(|s| s.to_string()).collect();
    let sdo = sd.map(|s| s.to_string()); let pdo = pd.map(|s| s.to_string());
    let r = std::panic::catch_unwind(move || {
        rewrite_paths(m, mapping, sdo.as_deref().map(Path::new), pdo.as_deref().map(Path::new), ine, &ign, &keep, filt, FileFilter::default())
    });
    match r {
        Ok(mut v) => { v.sort_by(|a,b| a.2.lines.keys().next().cmp(&b.2.lines.keys().next()));
            let s: Vec<String> = v.iter().map(|(a, r, c)| format!("[k{} abs={:?} rel={:?}]", c.lines.keys().next().unwrap(), a, r)).collect();
            println!("{}: {}", tag, s.join(" ")); }
        Err(_) => println!("{}: PANIC", tag),
    }
}

fn main() {
    std::panic::set_hook(Box::new(|_| {}));
    let root = "/tmp/rev2/pfs";
    let _ = std::fs::remove_dir_all(root);
    for d in ["s/foo", "s/lib", "o"] { std::fs::create_dir_all(format!("{}/{}", root, d)).unwrap(); }
    for f in ["s/foo/bar.c", "s/lib/a.c", "o/a.c"] { std::fs::write(format!("{}/{}", root, f), "x\n").unwrap(); }
    std::env::set_current_dir(format!("{}/s", root)).unwrap();
    let s = "/tmp/rev2/pfs/s";
    run("c01 nosd key .", None, None, None, false, &[], &[], None, &["."]);
    run("c02 sd key=S", Some(s), None, None, false, &[], &[], None, &[s]);
    run("c03 sd key empty", Some(s), None, None, false, &[], &[], None, &[""]);
    run("c04 nosd key /", None, None, None, false, &[], &[], None, &["/"]);
    run("c05 sd ine dir", Some(s), None, None, true, &[], &[], None, &["foo", "nofoo"]);
    run("c06 sd ignore '' key=S", Some(s), None, None, false, &[""], &[], None, &[s, "foo/bar.c"]);
    run("c07 sd pd . key ./foo/bar.c", Some(s), Some("."), None, false, &[], &[], None, &["./foo/bar.c", "foo/bar.c"]);
    run("c08 trailing", Some(s), None, None, false, &[], &[], None, &["foo/bar.c/", "foo/bar.c/.", "foo/bar.c/.."]);
    run("c11 sd / ", Some("/"), None, None, false, &[], &[], None, &["tmp/rev2/pfs/s/foo/bar.c", "/tmp/rev2/pfs/o/a.c"]);
    run("c12 source tail", Some(s), None, None, false, &[], &[], None, &["s/foo/bar.c", "pfs/s/lib/a.c", "s/nx.c"]);
    run("c13 mapping case", Some(s), None, Some(serde_json::json!({"Foo/bar.c": "lib/a.c", "x.c": "/tmp/rev2/pfs/o/a.c"})), false, &[], &[], None, &["foo/bar.c", "X.c", "FOO/bar.c"]);
    run("c14 pd deeper", Some(s), Some("/tmp/rev2/pfs/s/foo"), None, false, &[], &[], None, &["/tmp/rev2/pfs/s/foo/bar.c"]);
    run("c17 backslash", Some(s), None, None, false, &[], &[], None, &["foo\\bar.c", "C:\\x\\y.c", "\\tmp\\rev2\\pfs\\o\\a.c"]);
    run("c20 dotdot", Some(s), None, None, false, &[], &[], None, &["../s/foo/bar.c", "../../../../../../etc/passwd", "../../../../../../../nonexist.c", "/tmp/rev2/pfs/s/../o/a.c", "../o/a.c"]);
    run("c21 glob vs abs outside", Some(s), None, None, false, &["*.c"], &[], None, &["/tmp/rev2/pfs/o/a.c", "foo/bar.c"]);
    run("c22 keep o/*", Some(s), None, None, false, &[], &["o/*"], None, &["/tmp/rev2/pfs/o/a.c", "foo/bar.c"]);
    run("c23 keep **/o/*", Some(s), None, None, false, &[], &["**/o/*"], None, &["/tmp/rev2/pfs/o/a.c", "foo/bar.c"]);
    run("c24 mapping non-object", Some(s), None, Some(serde_json::json!(["a"])), false, &[], &[], None, &["foo/bar.c"]);
    run("c25 pd relative textual", None, Some("fo"), None, false, &[], &[], None, &["foo/bar.c", "fo/o.c", "fo", "fo/"]);
    run("c26 pd trailing dot", None, Some("foo/."), None, false, &[], &[], None, &["foo/bar.c", "./foo/bar.c"]);
    run("c27 pd ./foo", None, Some("./foo"), None, false, &[], &[], None, &["foo/bar.c", "./foo/bar.c"]);
    run("c28 nosd abs", None, None, None, true, &[], &[], None, &["/tmp/rev2/pfs/s/foo/../lib/a.c", "lib/a.c", "nolib/a.c"]);
    run("c29 glob a.c literal vs path", Some(s), None, None, false, &["lib/a.c"], &[], None, &["lib/a.c", "./lib//a.c"]);
}
