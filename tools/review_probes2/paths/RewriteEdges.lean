import GrcovModel.Props.C11
open Grcov Grcov.UPath Grcov.Glob Grcov.Rewrite

def b (s : String) : Bytes := s.toUTF8.toList.map (·.toNat)
def str (x : Bytes) : String := String.mk (x.map fun n => Char.ofNat n)
def cs (s : String) : List Bytes := (split (b s)).filter (· ≠ [])

def pfs : FS :=
  { dirs := ["tmp", "tmp/rev2", "tmp/rev2/pfs", "tmp/rev2/pfs/s", "tmp/rev2/pfs/s/foo", "tmp/rev2/pfs/s/lib", "tmp/rev2/pfs/o", "etc"].map cs,
    files := ["tmp/rev2/pfs/s/foo/bar.c", "tmp/rev2/pfs/s/lib/a.c", "tmp/rev2/pfs/o/a.c", "etc/passwd"].map cs,
    cwd := cs "tmp/rev2/pfs/s" }

def S := "/tmp/rev2/pfs/s"

def globs (gs : List String) : GlobSet := ((gs.map b).mapM parse).getD [[Tok.lit 0]]

def run (tag : String) (sd pd : Option String) (mapping : Option (List (String × String))) (ine : Bool)
    (ign keep : List String) (keys : List String) : String :=
  let cfg : Cfg := { sourceDir := sd.map b, prefixDir := pd.map b,
                     mapping := mapping.map (·.map fun kv => (b kv.1, b kv.2)),
                     ignore := globs ign, keep := globs keep, ignoreNotExisting := ine }
  let m : List (Bytes × Cov) := keys.zipIdx.map fun (k, i) => (b k, { lines := [(i + 1, 1)] })
  match rewritePaths cfg pfs m with
  | .panic s => s!"{tag}: PANIC {s}"
  | .ok rs => s!"{tag}: " ++ " ".intercalate (rs.map fun r =>
      s!"[k{(r.cov.lines.head!).1} abs={(str r.abs).quote} rel={(str r.rel).quote}]")

#eval IO.println (run "c01" none none none false [] [] ["."])
#eval IO.println (run "c02" (some S) none none false [] [] [S])
#eval IO.println (run "c03" (some S) none none false [] [] [""])
#eval IO.println (run "c04" none none none false [] [] ["/"])
#eval IO.println (run "c05" (some S) none none true [] [] ["foo", "nofoo"])
#eval IO.println (run "c06" (some S) none none false [""] [] [S, "foo/bar.c"])
#eval IO.println (run "c07" (some S) (some ".") none false [] [] ["./foo/bar.c", "foo/bar.c"])
#eval IO.println (run "c08" (some S) none none false [] [] ["foo/bar.c/", "foo/bar.c/.", "foo/bar.c/.."])
#eval IO.println (run "c11" (some "/") none none false [] [] ["tmp/rev2/pfs/s/foo/bar.c", "/tmp/rev2/pfs/o/a.c"])
#eval IO.println (run "c12" (some S) none none false [] [] ["s/foo/bar.c", "pfs/s/lib/a.c", "s/nx.c"])
#eval IO.println (run "c13" (some S) none (some [("Foo/bar.c", "lib/a.c"), ("x.c", "/tmp/rev2/pfs/o/a.c")]) false [] [] ["foo/bar.c", "X.c", "FOO/bar.c"])
#eval IO.println (run "c14" (some S) (some "/tmp/rev2/pfs/s/foo") none false [] [] ["/tmp/rev2/pfs/s/foo/bar.c"])
#eval IO.println (run "c17" (some S) none none false [] [] ["foo\\bar.c", "C:\\x\\y.c", "\\tmp\\rev2\\pfs\\o\\a.c"])
#eval IO.println (run "c20" (some S) none none false [] [] ["../s/foo/bar.c", "../../../../../../etc/passwd", "../../../../../../../nonexist.c", "/tmp/rev2/pfs/s/../o/a.c", "../o/a.c"])
#eval IO.println (run "c21" (some S) none none false ["*.c"] [] ["/tmp/rev2/pfs/o/a.c", "foo/bar.c"])
#eval IO.println (run "c22" (some S) none none false [] ["o/*"] ["/tmp/rev2/pfs/o/a.c", "foo/bar.c"])
#eval IO.println (run "c23" (some S) none none false [] ["**/o/*"] ["/tmp/rev2/pfs/o/a.c", "foo/bar.c"])
#eval IO.println (run "c25" none (some "fo") none false [] [] ["foo/bar.c", "fo/o.c", "fo", "fo/"])
#eval IO.println (run "c26" none (some "foo/.") none false [] [] ["foo/bar.c", "./foo/bar.c"])
#eval IO.println (run "c27" none (some "./foo") none false [] [] ["foo/bar.c", "./foo/bar.c"])
#eval IO.println (run "c28" none none none true [] [] ["/tmp/rev2/pfs/s/foo/../lib/a.c", "lib/a.c", "nolib/a.c"])
#eval IO.println (run "c29" (some S) none none false ["lib/a.c"] [] ["lib/a.c", "./lib//a.c"])
