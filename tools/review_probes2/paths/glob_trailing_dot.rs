use grcov::*;
use rustc_hash::FxHashMap;
use std::collections::BTreeMap;

fn cov() -> CovResult { CovResult { lines: [(1u32, 1u64)].into_iter().collect::<BTreeMap<_,_>>(), branches: BTreeMap::new(), functions: FxHashMap::default() } }

fn main() {
    // 1. globset alone: single matcher (regex) vs GlobSet (strategies) on paths ending with '.'
    let globs = ["**/bar.", "bar.", "*/bar.", "*.", "**/*.", "*bar.", "foo/bar.", "foo/*", "**/a..", "*..", "**/x.", "**/.", "?ar.", "**/bar.*", "*.c.", "**/*.c."];
    let paths = ["foo/bar.", "bar.", "a..", "foo/a..", "x.", "foo/x.c.", "x.c."];
    for g in globs {
        let gl = globset::Glob::new(g).unwrap();
        let m = gl.compile_matcher();
        let mut b = globset::GlobSetBuilder::new(); b.add(gl.clone()); let set = b.build().unwrap();
        for p in paths {
            let (a, s) = (m.is_match(p), set.is_match(p));
            println!("glob {:10} path {:10} matcher={} set={}{}", g, p, a as u8, s as u8, if a != s { "   <-- DIFFER" } else { "" });
        }
    }
    // 2. through the real rewrite_paths
    for (ign, key) in [("**/bar.", "foo/bar."), ("bar.", "bar."), ("**/a..", "foo/a.."), ("*.c.", "x.c.")] {
        let mut m: CovResultMap = FxHashMap::default();
        m.insert(key.to_string(), cov());
        let none: Vec<String> = vec![];
        let r = rewrite_paths(m, None, None, None, false, &[ign.to_string()], &none, None, FileFilter::default());
        println!("rewrite_paths --ignore {:?} key {:?}: reported {:?}", ign, key, r.iter().map(|x| x.1.clone()).collect::<Vec<_>>());
        let mut m: CovResultMap = FxHashMap::default();
        m.insert(key.to_string(), cov());
        let r = rewrite_paths(m, None, None, None, false, &none, &[ign.to_string()], None, FileFilter::default());
        println!("rewrite_paths --keep-only {:?} key {:?}: reported {:?}", ign, key, r.iter().map(|x| x.1.clone()).collect::<Vec<_>>());
    }
}
