#!/bin/bash
# Real binary, three unrecorded behaviours (see final report):
G=/verif/harness/target-grcov/debug/grcov; D=/tmp/rev2/paths-bin2; rm -rf $D; mkdir -p $D/src; cd $D
printf 'int x;\n' > src/a.c; printf 'SF:a.c\nDA:1,5\nend_of_record\n' > in.info
echo "== 1. invalid glob: panic at path_rewriting.rs:227 AFTER all inputs were processed, exit 101"
$G in.info -s src -t lcov --ignore '['; echo "exit=$?"
echo "== 2. non-UTF-8 source dir (or a symlink whose target name is not UTF-8): panic lib.rs:120 inside add_results (mutex held), exit 1"
mkdir $'s\xff'; printf 'int x;\n' > $'s\xff/a.c'
$G in.info -s $'s\xff' -t lcov; echo "exit=$?"
mkdir s2; printf 'int x;\n' > $'s2/u\xff.c'; ln -s $'u\xff.c' s2/l.c; printf 'SF:l.c\nDA:1,5\nend_of_record\n' > in2.info
$G in2.info -s s2 -t lcov; echo "exit=$?"
echo "== 3. --help says the stop line IS part of the section; the code (and property C16) make it exclusive"
printf 'a; // START\nb;\nc; // STOP\nd;\n' > src/r.c; printf 'SF:r.c\nDA:1,1\nDA:2,1\nDA:3,1\nDA:4,1\nend_of_record\n' > r.info
$G r.info -s src -t lcov --excl-start START --excl-stop STOP | grep DA; $G --help | grep -A1 "excl-stop"
cd /; rm -rf $D
