#!/usr/bin/env python3
"""Probe p2 (C19/C20/C07): input entries whose first directory is called like a worker directory
('0', '1', ...). The producer extracts to <tmp>/<stem>_<n>.<ext>, the workers own <tmp>/<i>.
Run inside an empty sandbox directory."""
import zipfile, os, subprocess, sys, shutil, collections
G = '/verif/harness/target-grcov/debug/grcov'
here = os.getcwd()
def sh(*a, **k): return subprocess.run(a, capture_output=True, text=True, errors='replace', **k)
# three translation units in directories 0/, 1/ and x/
for d, n in [('0', 'a'), ('1', 'b'), ('x', 'c')]:
    os.makedirs(f'build/{d}', exist_ok=True)
    open(f'build/{d}/{n}.c', 'w').write(f'#include <stdio.h>\nint main(){{ puts("{n}"); return 0; }}\n')
    r = sh('gcc', '--coverage', '-O0', f'{d}/{n}.c', '-o', f'{d}/{n}', cwd='build')
    assert r.returncode == 0, r.stderr
    sh(f'./{d}/{n}', cwd='build')
names = []
for root, _, files in os.walk('build'):
    for f in files:
        if f.endswith(('.gcno', '.gcda')):
            names.append(os.path.relpath(os.path.join(root, f), 'build'))
names.sort()
print('artifacts:', names)
with zipfile.ZipFile('all.zip', 'w') as z:
    for n in names:
        z.write(os.path.join('build', n), n)
# (a) zip, several thread counts, repeated: exit codes and which sources are reported
def run(args, reps):
    c = collections.Counter()
    for _ in range(reps):
        r = sh(G, *args, '-t', 'lcov', '--log-level', 'ERROR', cwd=here)
        srcs = sorted(os.path.basename(l[3:]) for l in r.stdout.splitlines() if l.startswith('SF:'))
        err = [l for l in r.stderr.splitlines() if 'panic' in l or 'rror' in l]
        c[(r.returncode, ','.join(srcs), (err[0][-90:] if err else ''))] += 1
    return c
for t in ['1', '2', '8']:
    print('zip threads', t, dict(run(['all.zip', '--threads', t], 40)))
# (b) a gcov failure on one item cleans the worker directory, which holds the extraction of others
open('bad.c', 'w').write('int z;\n')
with zipfile.ZipFile('bad.zip', 'w') as z:
    for n in names:
        z.write(os.path.join('build', n), n)
    z.writestr('0/zz.gcno', b'this is not a notes file')
r = sh('gcov', '-i', os.path.join(here, 'bad.c'))
print('gcov on junk exit:', sh('sh', '-c', 'printf junk > j.gcno; gcov -i j.gcno; echo rc=$?').stdout.strip().splitlines()[-1])
for t in ['1', '2']:
    print('bad.zip threads', t, dict(run(['bad.zip', '--threads', t], 40)))
