import GrcovModel.Props.C19
import GrcovModel.Props.C17
open Grcov Grcov.Confine Grcov.Props.C19

/-! ## C19: `RunOK` admits a run whose zip extraction is written THROUGH the link made for a directory input.
`dirIn/shared/x.profraw` (link, n = 1) and a zip entry `shared/x.profraw` with the same number.
The code never produces this pair (numbers are per name across archives) — but no theorem says so:
`writeDests`/`linkDests` are defined and never related. -/
def riOverlap : RunInput :=
  { tmp := [.root, .normal [116]], out := [.normal [111]],
    extracts := [⟨false, [.normal [115], .normal [120]], 1, [112], []⟩,
                 ⟨true,  [.normal [115], .normal [120]], 1, [112], []⟩] }

example : RunOK riOverlap :=
  ⟨by intro e he; simp [riOverlap] at he; rcases he with rfl | rfl <;> exact ⟨by decide, by decide⟩,
   by intro j hj; simp [riOverlap] at hj,
   by intro r hr; simp [riOverlap] at hr⟩

-- the same path is a symlink into the input AND a File::create destination
example : ∃ p, p ∈ writeDests riOverlap ∧ p ∈ linkDests riOverlap := by decide

/-! ## C19/C20: `RunOK` admits an extraction INSIDE worker 0's "private" directory
(entry `0/a.gcno` -> `tmp/0/a_1.gcno`), which the Consumer model (C20_isolation: `init` = empty
private directory) excludes by construction. Real run: p2_workerdir.py. -/
def riWorker : RunInput :=
  { tmp := [.root, .normal [116]], out := [.normal [111]], threads := 1,
    extracts := [⟨true, [.normal [48], .normal [97]], 1, [103, 99, 110, 111], []⟩] }

#eval (dests riWorker).map fun d => (repr d.kind, resolve d.path)
example : workerDir riWorker.tmp 0 = [.root, .normal [116], .normal [48]] := by decide
example : (⟨.createFile, .tmp, [.root, .normal [116], .normal [48], .normal [97, 95, 49, 46, 103, 99, 110, 111]]⟩ : Dest)
    ∈ dests riWorker := by decide

/-! ## C17: the model uses a zip entry `a//b.info` (and `d/./e.info`), the code drops it silently
(canonical key, raw `by_name`): p1_zipnames.py. `WF` holds: the theorems apply to this layout. -/
open Grcov.Producer in
def dslash : List Arg :=
  [.zip 0 [⟨[97, 47, 47, 98, 46, 105, 110, 102, 111], [84, 78, 58], 7⟩,      -- a//b.info
           ⟨[99, 46, 105, 110, 102, 111], [84, 78, 58], 8⟩]]                   -- c.info
open Grcov.Producer in
#eval run ⟨false, false⟩ dslash        -- model: two content items (7 and 8); real grcov: only c.info
open Grcov.Producer in
example : WF dslash := by unfold WF; decide

#print axioms Grcov.Props.C19.C19_inputs_untouched
