#!/usr/bin/env python3
"""Probe p4: (a) zip entry with a 300-byte component (C19 quantifier 'very long names'): exit code and temp dir;
(b) input directory containing a SYMLINKED sub-directory with coverage (C17: under the given path, not used?);
(c) the same argument given twice / a file reachable through two arguments (exactly once?);
(d) temp dir after normal runs and after 'No input files found'.
Run inside an empty sandbox directory."""
import os, subprocess, zipfile
G = '/verif/harness/target-grcov/debug/grcov'
here = os.getcwd()
def sh(*a, **k): return subprocess.run(a, capture_output=True, text=True, errors='replace', **k)
def info(f, n): return f"TN:\nSF:{f}\nDA:1,{n}\nend_of_record\n"
os.makedirs('T', exist_ok=True)
env = dict(os.environ, TMPDIR=os.path.join(here, 'T'))
def grcov(*args):
    r = sh(G, *args, '-t', 'lcov', '--log-level', 'ERROR', env=env)
    das = [l for l in r.stdout.splitlines() if l.startswith(('SF:', 'DA:'))]
    err = [l[-120:] for l in r.stderr.splitlines() if l.strip()][:2]
    left = sorted(os.listdir('T'))
    for d in left: sh('rm', '-rf', os.path.join('T', d))
    return r.returncode, das, err, 'tmp leftovers: %d' % len(left)
# (a)
gcno = open('/repo/test/Platform.gcno', 'rb').read(); gcda = open('/repo/test/Platform.gcda', 'rb').read()
with zipfile.ZipFile('long.zip', 'w') as z:
    z.writestr('ok.info', info('ok.c', 1))
    z.writestr('x' * 300 + '.gcno', gcno); z.writestr('x' * 300 + '.gcda', gcda)
print('(a) 300-byte name      ', grcov('long.zip'))
# a directory input whose file name fits the file system but not with the "_1" the producer adds
os.makedirs('longdir', exist_ok=True)
open('longdir/' + 'y' * 249 + '.gcno', 'wb').write(gcno); open('longdir/ok.info', 'w').write(info('ok.c', 1))
print('(a2) 254-byte dir entry', grcov('longdir'))
# (b)
os.makedirs('elsewhere', exist_ok=True); os.makedirs('in', exist_ok=True)
open('elsewhere/a.info', 'w').write(info('a.c', 5)); open('in/b.info', 'w').write(info('b.c', 1))
if not os.path.islink('in/sub'): os.symlink(os.path.join(here, 'elsewhere'), 'in/sub')
print('(b) dir with linked sub ', grcov('in'))
sh('sh', '-c', 'cd in && zip -qr ../in.zip .')
print('(b) zip -r of the same  ', grcov('in.zip'))
# (c)
print('(c) same dir twice      ', grcov('elsewhere', 'elsewhere'))
print('(c) dir + file inside   ', grcov('elsewhere', 'elsewhere/a.info'))
# (d)
os.makedirs('empty', exist_ok=True)
print('(d) no input            ', grcov('empty'))
