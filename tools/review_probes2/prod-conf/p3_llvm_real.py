#!/usr/bin/env python3
"""Probe p3 (C20 LLVM half with the REAL llvm-profdata/llvm-cov 14 from /usr/bin, not stubs):
(a) control; (b) a profile below a directory whose name contains a comma (llvm-profdata's -f list
syntax is '[weight,]file'); (c) one unreadable/corrupt profile beside a good one (merge fails as a
whole); (d) a zip entry that is a DIRECTORY named like a profile ('junk.profraw/').
Run inside an empty sandbox directory."""
import os, subprocess, zipfile, shutil
G = '/verif/harness/target-grcov/debug/grcov'
def sh(*a, **k): return subprocess.run(a, capture_output=True, text=True, errors='replace', **k)
os.makedirs('bins', exist_ok=True); os.makedirs('src', exist_ok=True)
open('src/p.c', 'w').write('#include <stdio.h>\nint f(int x){ if (x) return 1; return 2; }\nint main(int c,char**v){ printf("%d\\n", f(c>1)); return 0; }\n')
r = sh('clang', '-fprofile-instr-generate', '-fcoverage-mapping', 'src/p.c', '-o', 'bins/p'); assert r.returncode == 0, r.stderr
def profile(path):
    os.makedirs(os.path.dirname(path), exist_ok=True)
    env = dict(os.environ, LLVM_PROFILE_FILE=path); sh('./bins/p', env=env); assert os.path.exists(path)
def grcov(*inputs):
    r = sh(G, *inputs, '--binary-path', 'bins', '--llvm-path', '/usr/bin', '-t', 'lcov', '--log-level', 'ERROR', '--threads', '1')
    das = [l for l in r.stdout.splitlines() if l.startswith(('SF:', 'DA:'))]
    errs = [l[:160] for l in r.stderr.splitlines() if l.strip()][:3]
    return r.returncode, das, errs
profile('in_ok/d/x.profraw')
print('(a) control      ', grcov('in_ok'))
profile('in_comma/a,b/x.profraw')
print('(b) comma in dir ', grcov('in_comma'))
profile('in_mix/good.profraw'); open('in_mix/bad.profraw', 'wb').write(b'not a profile at all')
print('(c) good + junk  ', grcov('in_mix'))
with zipfile.ZipFile('dirent.zip', 'w') as z:
    z.write('in_ok/d/x.profraw', 'x.profraw')
    z.writestr(zipfile.ZipInfo('junk.profraw/'), b'')
print('(d) dir entry    ', grcov('dirent.zip'))
with zipfile.ZipFile('ok.zip', 'w') as z:
    z.write('in_ok/d/x.profraw', 'x.profraw')
print('(d) control zip  ', grcov('ok.zip'))
