#!/usr/bin/env python3
"""Probe p1 (C17, regression of fix b6c32a1): zip entries spelled './a.info', 'd//b.info', 'd/./e.info'.
Run inside an empty sandbox directory; creates dot.zip dslash.zip mid.zip and a directory dd/ with the same file."""
import zipfile, os, subprocess, sys
G = '/verif/harness/target-grcov/debug/grcov'
def info(f, n): return f"TN:\nSF:{f}\nDA:1,{n}\nend_of_record\n"
def mk(name, entries):
    with zipfile.ZipFile(name, 'w') as z:
        for e, body in entries:
            z.writestr(zipfile.ZipInfo(e), body)
mk('dot.zip', [('./a.info', info('a.c', 1)), ('c.info', info('c.c', 1))])
mk('dslash.zip', [('d//b.info', info('b.c', 1)), ('c2.info', info('c2.c', 1))])
mk('mid.zip', [('d/./e.info', info('e.c', 1)), ('c3.info', info('c3.c', 1))])
os.makedirs('dd/d', exist_ok=True)
open('dd/d/b.info', 'w').write(info('b.c', 1))
for a in ['dot.zip', 'dslash.zip', 'mid.zip', 'dd']:
    r = subprocess.run([G, a, '-t', 'lcov', '--log-level', 'WARN'], capture_output=True, text=True)
    print('==', a, 'exit', r.returncode)
    print(r.stdout, end='')
    print(r.stderr, end='')
