#!/usr/bin/env python3
"""Probe p5 (C20 GCC half, 'for every thread count'): the harness compiles ONE translation unit per program,
so thread counts 1 and 3 run the same single work item. Here: 6 translation units sharing a header, 2 runs,
threads 1,2,3,8, 10 repetitions each; the reports must be identical and hdr.h must be the sum over the units.
Run inside an empty sandbox directory."""
import os, subprocess, collections
G = '/verif/harness/target-grcov/debug/grcov'
def sh(*a, **k): return subprocess.run(a, capture_output=True, text=True, errors='replace', **k)
os.makedirs('b', exist_ok=True)
open('b/hdr.h', 'w').write('static inline int h(int x)\n{\n  if (x > 2)\n    return x;\n  return 0;\n}\n')
units = ['u%d' % i for i in range(6)]
for i, u in enumerate(units):
    os.makedirs(f'b/d{u}', exist_ok=True)
    open(f'b/d{u}/{u}.c', 'w').write('#include "../hdr.h"\nint %s(int x)\n{\n  int s = 0;\n  for (int i = 0; i < x + %d; i++)\n    s += h(i);\n  return s;\n}\n' % (u, i))
    assert sh('gcc', '--coverage', '-O0', '-c', f'd{u}/{u}.c', '-o', f'd{u}/{u}.o', cwd='b').returncode == 0
open('b/main.c', 'w').write(''.join('int %s(int);\n' % u for u in units) + 'int main(int c, char **v)\n{\n  int r = 0;\n' + ''.join('  r += %s(c);\n' % u for u in units) + '  return r == 12345;\n}\n')
assert sh('gcc', '--coverage', '-O0', 'main.c', *[f'd{u}/{u}.o' for u in units], '-o', 'prog', cwd='b').returncode == 0
sh('./prog', cwd='b'); sh('./prog', 'a', 'b', 'c', cwd='b')
os.remove('b/prog')
seen = collections.Counter()
for t in [1, 2, 3, 8]:
    for _ in range(10):
        r = sh(G, 'b', '-t', 'lcov', '--threads', str(t), '--log-level', 'ERROR')
        # canonical: per SF the sorted DA lines
        recs, cur = {}, None
        for l in r.stdout.splitlines():
            if l.startswith('SF:'): cur = os.path.basename(l[3:]); recs[cur] = []
            elif l.startswith('DA:'): recs[cur].append(l[3:])
        key = (r.returncode, tuple(sorted((k, tuple(v)) for k, v in recs.items())))
        seen[key] += 1
print('distinct reports over 40 runs:', len(seen))
for k, n in seen.items():
    print(n, 'x exit', k[0]); [print('   ', f, da) for f, da in k[1]]
