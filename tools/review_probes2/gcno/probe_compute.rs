// usage: probe_gcno_1 <gcno> [gcda...]   prints canonical result of Gcno::compute(stem, gcno, gcdas, true)
use std::panic;
fn main() {
    let args: Vec<String> = std::env::args().skip(1).collect();
    let gcno = std::fs::read(&args[0]).unwrap();
    let gcdas: Vec<Vec<u8>> = args[1..].iter().map(|p| std::fs::read(p).unwrap()).collect();
    let r = panic::catch_unwind(|| grcov::Gcno::compute("stem", gcno, gcdas, true));
    match r {
        Err(e) => {
            let msg = e.downcast_ref::<String>().cloned().or_else(|| e.downcast_ref::<&str>().map(|s| s.to_string())).unwrap_or_default();
            println!("PANIC {}", msg);
        }
        Ok(Err(e)) => println!("ERR {}", e),
        Ok(Ok(mut v)) => {
            v.sort_by(|a, b| a.0.as_bytes().cmp(b.0.as_bytes()));
            for (k, c) in v {
                println!("FILE {:?}", k.as_bytes().iter().map(|b| *b as char).collect::<String>());
                for (l, n) in &c.lines { println!("L {} {}", l, n); }
                let mut fs: Vec<_> = c.functions.iter().collect();
                fs.sort_by(|a, b| a.0.as_bytes().cmp(b.0.as_bytes()));
                for (n, f) in fs { println!("F {:?} {} {}", n.as_bytes().iter().map(|b| *b as char).collect::<String>(), f.start, f.executed); }
                for (l, b) in &c.branches { println!("B {} {}", l, b.iter().map(|x| if *x {'1'} else {'0'}).collect::<String>()); }
            }
        }
    }
}
