#!/usr/bin/env python3
# small random C programs, several gcov versions / -O levels; grcov Gcno::compute vs llvm-cov-14 gcov
import random, sys
sys.path.insert(0,'/verif/tools/review_probes2/gcno')
import diff
def gen(r):
    uid=[0]
    def cond(d=1):
        k=r.randrange(5) if d>0 else 0
        a=r.choice(['a','b','r','g','1','3']); b=r.choice(['a','b','r','2','0'])
        if k==1: return '%s && %s'%(cond(d-1),cond(d-1))
        if k==2: return '(%s || %s)'%(cond(d-1),cond(d-1))
        if k==3: return '!(%s)'%cond(d-1)
        return '%s %s %s'%(a,r.choice(['<','>','==','!=']),b)
    def simple():
        return r.choice(['g++;','r = (r + a) % 100;','r += (%s) ? a : b;'%cond(1),'r = (r +\n  b) % 97;','r += h(a);','if (%s) return r;'%cond(1)])
    def stmt(d,inl):
        k=r.randrange(9) if d>0 else 0
        uid[0]+=1; u=uid[0]
        if k<=2: return simple()
        if k==3: return 'if (%s) { %s } else { %s }'%(cond(2),block(d-1,inl),block(d-1,inl))
        if k==4: return 'if (%s) { %s }'%(cond(2),block(d-1,inl))
        if k==5: return 'for (int i%d = 0; i%d < (a %% 4) + %d; i%d++) { %s }'%(u,u,r.randrange(3),u,block(d-1,True))
        if k==6: return '{ int w%d = b %% 4; while (w%d-- > 0) { %s } }'%(u,u,block(d-1,True))
        if k==7: return 'switch ((a + r) %% 4) { case 0: %s break; case 1: %s default: %s }'%(block(d-1,inl),block(d-1,inl),block(d-1,inl))
        if k==8 and inl: return 'if (%s) %s;'%(cond(1),r.choice(['break','continue']))
        return simple()
    def block(d,inl):
        sep=r.choice([' ','\n  '])
        return sep.join(stmt(d,inl) for _ in range(r.randrange(1,4)))
    src='#include <stdlib.h>\nint g;\nstatic int h(int a) { if (a > 1) return a; return -a; }\n'
    nf=r.randrange(1,4)
    for f in range(nf):
        src+='int f%d(int a, int b) {\n  int r = 0;\n  %s\n  return r;\n}\n'%(f,block(3,False))
    src+='int main(int argc, char **argv) {\n  int a = argc > 1 ? atoi(argv[1]) : 0; int b = argc > 2 ? atoi(argv[2]) : 0; int r = 0;\n'
    for f in range(nf):
        src+=r.choice(['  r += f%d(a, b);\n'%f,'  if (%s) r += f%d(b, a);\n'%(cond(1),f),'  r += f%d(a, b); r += f%d(b + 1, a);\n'%(f,f)])
    src+='  %s\n  return (r + g) & 1;\n}\n'%block(2,False)
    return src
seed=int(sys.argv[1]); n=int(sys.argv[2])
r=random.Random(seed)
bad=0
for i in range(n):
    src=gen(r)
    profs=[[str(r.randrange(8)),str(r.randrange(8))] for _ in range(r.randrange(0,4))]
    ver=r.choice([None,'402*','407*','408*'])
    extra=r.choice([[],[],['-O1'],['-O2']])
    per=r.random()<0.3
    res=diff.run({'prog.c':src},profs,ver,extra=extra,per_run=per)
    if res[0]!='OK':
        print(i,'STATUS',res[0],str(res[1])[:200]); bad+=1
        open('/tmp/rev2/gcno-w/bad_%d_%d.c'%(seed,i),'w').write('// %s %s %s %s\n'%(ver,extra,profs,per)+src)
        continue
    d=diff.diff(res[1],res[2])
    if d:
        bad+=1
        print(i,ver,extra,profs,per,d[:4])
        open('/tmp/rev2/gcno-w/bad_%d_%d.c'%(seed,i),'w').write('// %s %s %s %s\n'%(ver,extra,profs,per)+src)
print('done',n,'bad',bad)
