#include <stdlib.h>
int g;
static int h(int a) { if (a > 1) return a; return -a; }
int f(int a, int b) {
  int r = 0;
  for (int i = 0; i < a; i++) { if (i & 1) r++; else g++; } r += 1;
  switch (b) { case 0: r++; break; case 1: g++; default: r += 2; }
  if (a && b || g) r += h(a);
  return r;
}
int main(int argc, char **argv) {
  int a = argc > 1 ? atoi(argv[1]) : 0; int b = argc > 2 ? atoi(argv[2]) : 0;
  int r = f(a, b);
  return r & 1;
}
