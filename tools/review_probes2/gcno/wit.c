#include <stdlib.h>
int main(int argc, char **argv) {
  int a = argc > 1 ? atoi(argv[1]) : 0; int r = 0;
  if ((r == 0 && a > a) || 4 > a) {
    r++;
  } r += 2;
  return r & 1;
}
