# writes d/t{0..3}.gcno/.gcda whose file or function names are not UTF-8; then:
#   /verif/harness/target-grcov/debug/grcov d --llvm -t lcov -o out.lcov   -> panic path_rewriting.rs:363, exit 101, no report
import sys, os; sys.path.insert(0,'/verif/tools/review_probes2/gcno')
from enc import *
os.makedirs('d',exist_ok=True)
for i,(fname,name) in enumerate([(b'a\xf0',b'f'),(b'\xff\xfe.c',b'f'),(b'src/\xe9t\xe9.c',b'g\xf0\x9f'),(b'ok.c',b'fn\xc3')]):
    f={'ident':1,'lsum':11,'csum':22,'name':name,'file':fname,'start':10,
       'recs':[('B',4),('A',0,[(2,1)]),('A',2,[(3,0)]),('A',3,[(1,1)]),('L',2,[10,11]),('L',3,[12])]}
    open('d/t%d.gcno'%i,'wb').write(gcno(7,[f]))
    open('d/t%d.gcda'%i,'wb').write(gcda(7,[(1,11,22,[3])]))
