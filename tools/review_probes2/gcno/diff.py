#!/usr/bin/env python3
# differential: clang-14 --coverage [-Xclang -coverage-version=V] prog.c ; runs ; llvm-cov-14 gcov -b vs Gcno::compute
import sys, os, subprocess, shutil, re, glob
PROBE='/tmp/rev2/target/debug/probe_gcno_1'
def run(src_files, profiles, version=None, workdir='/tmp/rev2/gcno-w/case', extra=[], main='prog.c', per_run=False):
    shutil.rmtree(workdir, ignore_errors=True); os.makedirs(workdir)
    for n,t in src_files.items():
        open(os.path.join(workdir,n),'w').write(t)
    cmd=['clang-14','--coverage','-O0','-w',main,'-o','prog']+extra
    if version: cmd+=['-Xclang','-coverage-version='+version]
    r=subprocess.run(cmd,cwd=workdir,capture_output=True,text=True)
    if r.returncode: return ('COMPILE_FAIL',r.stderr[:300])
    gcdas=[]
    stem=os.path.splitext(main)[0]
    for i,p in enumerate(profiles):
        subprocess.run(['./prog']+p,cwd=workdir,capture_output=True,timeout=10)
        if per_run:
            shutil.move(os.path.join(workdir,stem+'.gcda'),os.path.join(workdir,'run%d.gcda'%i)); gcdas.append('run%d.gcda'%i)
    if per_run and profiles:
        for p in profiles: subprocess.run(['./prog']+p,cwd=workdir,capture_output=True,timeout=10)
    have=os.path.exists(os.path.join(workdir,stem+'.gcda'))
    if not per_run and have: gcdas=[stem+'.gcda']
    r=subprocess.run(['llvm-cov-14','gcov','-b',stem+('.gcda' if have else '.gcno')],cwd=workdir,capture_output=True,text=True)
    theirs={}
    if r.returncode: return ('LLVMCOV_FAIL',r.stderr[:300]+r.stdout[:300])
    # functions: "Function 'f'\nLines executed..." in stdout w/ -b? use -f? parse 'function f called N' in .gcov
    for g in glob.glob(os.path.join(workdir,'*.gcov')):
        src=None; lines={}; funcs={}
        for ln in open(g,errors='replace'):
            m=re.match(r'\s*([^:]+):\s*(\d+):(.*)$',ln)
            if m:
                c,n,rest=m.group(1).strip(),int(m.group(2)),m.group(3)
                if n==0:
                    if rest.startswith('Source:'): src=rest[7:]
                    continue
                if c=='-': continue
                c=c.rstrip('*')
                lines[n]=0 if c in('#####','=====') else int(c)
            m=re.match(r'function (\S+) called (\d+)',ln)
            if m: funcs[m.group(1)]=int(m.group(2))>0
        theirs[src]=(lines,funcs)
    r=subprocess.run([PROBE,stem+'.gcno']+gcdas,cwd=workdir,capture_output=True,text=True)
    ours={}; cur=None
    out=r.stdout
    if out.startswith('ERR') or out.startswith('PANIC') or r.returncode: return ('GRCOV',out[:300]+r.stderr[:300],theirs)
    for ln in out.splitlines():
        t=ln.split(' ')
        if t[0]=='FILE': cur=ln[5:].strip().strip('"'); ours[cur]=({}, {})
        elif t[0]=='L': ours[cur][0][int(t[1])]=int(t[2])
        elif t[0]=='F': ours[cur][1][t[1].strip('"')]=(t[3]=='true')
    return ('OK',ours,theirs)
def diff(ours,theirs):
    d=[]
    if set(ours)!=set(theirs): d.append(('files',sorted(ours),sorted(theirs)))
    for k in set(ours)&set(theirs):
        lo,fo=ours[k]; lt,ft=theirs[k]
        if set(lo)!=set(lt): d.append((k,'lineset only-grcov',sorted(set(lo)-set(lt)),'only-llvm',sorted(set(lt)-set(lo))))
        for l in sorted(set(lo)&set(lt)):
            if lo[l]!=lt[l]: d.append((k,l,'grcov',lo[l],'llvm-cov',lt[l]))
        if fo!=ft: d.append((k,'funcs',fo,ft))
    return d
if __name__=='__main__':
    src=open(sys.argv[1]).read()
    ver=sys.argv[2] if len(sys.argv)>2 and sys.argv[2]!='-' else None
    profs=[p.split(',') if p else [] for p in sys.argv[3:]] 
    res=run({'prog.c':src},profs,ver)
    print(res[0]); 
    if res[0]=='OK': print(diff(res[1],res[2]) or 'EQUAL')
    else: print(res[1:])
