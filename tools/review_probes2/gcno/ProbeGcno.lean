import GrcovModel.Props.C08
import GrcovModel.Props.C15
import GrcovModel.Props.C14Gcno
open Grcov Grcov.Gcno Grcov.Gcno.Outcome AList

/-- format 8 notes as clang-14 `-Xclang -coverage-version='800*'` writes them for t1.c function f:
start line 4, END LINE 5 (LLVM writes a bogus end line), body lines 4..9 -/
def v8 (ver : Nat) : Outcome Notes :=
  build ver 7
    [.func 1 11 22 [102] [97, 46, 99] 4 5, .blocks 4,
     .arcs 0 [(2, 1)], .arcs 2 [(3, 0)], .arcs 3 [(1, 1)],
     .lines 2 [.file [97, 46, 99], .line 4, .line 5, .line 6],
     .lines 3 [.file [97, 46, 99], .line 7, .line 8, .line 9]]

def linesOf (o : Outcome (List (Bytes × Cov))) : Option (List (Nat × Nat)) :=
  match o with
  | .ok [(_, c)] => some c.lines
  | _ => none

-- version 80: only the lines within [start,end] survive `read_lines`; version 48: all six
#eval linesOf ((v8 80).bind fun g => compute g [⟨80, 7, [.func 3 1 11 22, .arcs 2 [3]]⟩] true)
#eval linesOf ((v8 48).bind fun g => compute g [⟨48, 7, [.func 3 1 11 22, .arcs 2 [3]]⟩] true)

/-- a line listed twice in ONE block (a-b-a, what clang writes for `r = (k(a) +\n k(b)) + (k(r)`):
`lines_to_block[10] = [2,2]`, so it is not a "single-block line" and gets 2 x inflow -/
def aba : Outcome Notes :=
  build 48 7
    [.func 1 11 22 [102] [97, 46, 99] 10 0, .blocks 4,
     .arcs 0 [(2, 1)], .arcs 2 [(3, 0)], .arcs 3 [(1, 1)],
     .lines 2 [.file [97, 46, 99], .line 10, .line 11, .line 10],
     .lines 3 [.file [97, 46, 99], .line 12]]
#eval linesOf (aba.bind fun g => compute g [⟨48, 7, [.func 3 1 11 22, .arcs 2 [3]]⟩] true)
#eval (match aba with | .ok g => g.funcs.map linesToBlock | _ => [])
