#include <stdlib.h>
#include <setjmp.h>
int g; jmp_buf jb;
void die(int a) { g++; if (a > 5) exit(0); g++; }
void jump(int a) { g++; if (a > 2) longjmp(jb, 1); g++; }
int f(int a, int b) {
  int r = 0;
  if (setjmp(jb) == 0) { jump(a); r++; } else { r += 2; }
  for (int i = 0; i < b; i++) { die(i + a); r++; } r++;
  return r;
}
int main(int argc, char **argv) {
  int a = argc > 1 ? atoi(argv[1]) : 0; int b = argc > 2 ? atoi(argv[2]) : 0;
  int r = f(a, b);
  die(a + b);
  return r & 1;
}
