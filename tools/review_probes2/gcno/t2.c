#include <stdlib.h>
int g;
int k(int a) { return a + 1; }
int f(int a, int b) {
  int r = 0;
  r = (k(a) +
       k(b)) + (k(r)
    + k(a));
  r = a ? k(a)
    : k(b); r = b ? k(b)
    : k(a);
  for (int i = 0; i < a; i++) r += k(i)
     + k(b); g++;
  return r;
}
int main(int argc, char **argv) {
  int a = argc > 1 ? atoi(argv[1]) : 0; int b = argc > 2 ? atoi(argv[2]) : 0;
  int r = f(a, b);
#line 100 "other.c"
  r += k(r);
  r += k(r);
#line 20 "prog.c"
  return r & 1;
}
