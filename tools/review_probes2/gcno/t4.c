#include <stdlib.h>
int g;
int p(int a) { return a + 1; } int q(int a) { if (a) return 2; return 3; } int never(int a) { return a; }
#define DEF(n) int n(int a) { int r = 0; for (int i = 0; i < a; i++) { if (i & 1) r++; else g++; } return r; }
DEF(m1) DEF(m2) DEF(m3)
int main(int argc, char **argv) {
  int a = argc > 1 ? atoi(argv[1]) : 0; int b = argc > 2 ? atoi(argv[2]) : 0;
  int r = p(a) + p(b) + q(a); if (a > 2) r += m1(a) + m2(b); else r += m2(a);
  return r & 1;
}
