import struct, sys, os
def u32(x): return struct.pack('<I', x)
def s(b):
    if isinstance(b,str): b=b.encode()
    n=(len(b)//4)+1
    return u32(n)+b+b'\0'*(4*n-len(b))
def gcno(checksum, funcs):
    out=b'oncg'+b'*804'+u32(checksum)
    for f in funcs:
        pay=u32(f['ident'])+u32(f['lsum'])+u32(f['csum'])+s(f['name'])+s(f['file'])+u32(f['start'])
        out+=u32(0x01000000)+u32(len(pay)//4)+pay
        for rec in f['recs']:
            if rec[0]=='B':
                out+=u32(0x01410000)+u32(rec[1])+u32(0)*rec[1]
            elif rec[0]=='A':
                pairs=rec[2]
                out+=u32(0x01430000)+u32(1+2*len(pairs))+u32(rec[1])
                for d,fl in pairs: out+=u32(d)+u32(fl)
            elif rec[0]=='L':
                pay=u32(rec[1])+u32(0)+s(f['file'])
                for l in rec[2]: pay+=u32(l)
                pay+=u32(0)+u32(0)
                out+=u32(0x01450000)+u32(len(pay)//4)+pay
    out+=u32(0)+u32(0)
    return out
def gcda(checksum, parts):
    out=b'adcg'+b'*804'+u32(checksum)
    for ident,lsum,csum,vals in parts:
        out+=u32(0x01000000)+u32(3)+u32(ident)+u32(lsum)+u32(csum)
        out+=u32(0x01a10000)+u32(2*len(vals))
        for v in vals: out+=struct.pack('<Q',v)
    out+=u32(0)+u32(0)
    return out
