#!/bin/sh
# Probes run against the REAL hooked binary /verif/harness/target-grcov/debug/grcov (built from /repo as of 2059514).
G=/verif/harness/target-grcov/debug/grcov
D=$(mktemp -d); cd "$D"

# 1. overlapping command-line paths: artifacts under data/sub are discovered and counted twice
mkdir -p data/sub
printf "SF:src/a.c\nDA:1,5\nend_of_record\n" > data/sub/x.info
printf "SF:src/a.c\nDA:1,2\nend_of_record\n" > data/y.info
$G data -t lcov | grep DA                 # observed DA:1,7
$G data data/sub -t lcov | grep DA        # observed DA:1,12  (x.info counted twice)
$G data ./data -t lcov | grep DA          # observed DA:1,14
$G data/y.info data/y.info -t lcov | grep DA   # observed DA:1,4

# 2. worker dies inside add_results (mutex poisoned): hook exists (2059514) but no harness uses it
for i in 1 2 3 4 5 6; do printf "SF:src/a.c\nFN:1,f\nFNDA:1,f\nDA:1,$i\nend_of_record\n" > in$i.info; done
GRCOV_VERIF_LOG=$D/ev.log GRCOV_VERIF_FAULT="panic_in_merge:Consumer_0" timeout 20 $G in*.info -t lcov --threads 2; echo "exit=$?"   # observed exit=1
cat ev.log   # Consumer_0: recv, lock, died_in_merge ; Consumer_1: recv ; main: main_prod_joined, main_stop
GRCOV_VERIF_FAULT="panic_in_merge:Consumer_0" timeout 20 $G in*.info -t lcov --threads 1; echo "exit=$?"   # observed exit=1 (producer send fails)

# 3. corrupt zip beside a valid tracefile: the producer panics, no report at all, exit 1
printf "not a zip" > bad.zip
timeout 20 $G bad.zip data/y.info -t lcov; echo "exit=$?"   # observed: panic producer.rs:520 "Failed to parse ZIP file", exit=1

# 4. schedule-dependent report bytes: see fn_order_schedule.py (FN/FNDA order inside ONE file record)
