import GrcovModel.Props.C07
open Grcov Grcov.Pipeline

-- axioms of the main statements
#print axioms Grcov.Props.C01.C01_grouping_invariant
#print axioms Grcov.Props.C02.C02_report_schedule_independent
#print axioms Grcov.Props.C07.C07_no_deadlock
#print axioms Grcov.Props.C07.C07_poisoned_nonzero_exit

-- the real log of `GRCOV_VERIF_FAULT=panic_in_merge:Consumer_0 --threads 2` (six inputs) as a model run:
-- worker 0 dies inside add_results, worker 1 then dies on the poisoned mutex, the producer has finished,
-- the first stop-marker send fails, main exits 1 (exactly the real event log).  The model has this run; the trace validator has no event for it.
example : ∃ s, replay (fun _ => .ok) (fun _ => 1) (init 2 false [1,2,3,4,5,6])
    [.prodSend, .prodSend, .prodSend, .recv 1, .recv 0, .prodSend, .prodSend, .prodSend,
     .parsed 0, .lock 0, .workerDies 0, .parsed 1, .lock 1, .prodExit, .main, .main, .main] = some s
    ∧ s.mainPc = .done 1 ∧ s.poisoned = true ∧ s.merged = [2] ∧ s.log = [] := by
  refine ⟨_, rfl, ?_, ?_, ?_, ?_⟩ <;> decide

-- `merged` records the lock acquisition, not a completed write: in a poisoned run an item is in
-- `merged` although none of its entries was written (only harmless because exit != 0).
