import random, subprocess, os, hashlib
G="/verif/harness/target-grcov/debug/grcov"
random.seed(11)
def w(name, fns):
    with open(name,'w') as f:
        f.write("SF:src/a.c\n")
        for i in fns: f.write(f"FN:{i},fn{i}\n")
        for i in fns: f.write(f"FNDA:1,fn{i}\n")
        f.write("DA:1,1\nend_of_record\n")
found=0
for t in range(12):
    pool=random.sample(range(1,400), random.randint(10,60))
    a=random.sample(pool, random.randint(1,len(pool)))
    b=random.sample(pool, random.randint(1,len(pool)))
    c=random.sample(pool, random.randint(1,len(pool)))
    w("A.info",a); w("B.info",b); w("C.info",c)
    outs={}
    for seed in range(25):
        env=dict(os.environ, GRCOV_VERIF_PERTURB=str(seed))
        o=subprocess.run([G,"A.info","B.info","C.info","-t","lcov","--threads","3","--no-demangle"],capture_output=True,env=env).stdout
        outs.setdefault(o,[]).append(seed)
    if len(outs)>1:
        found+=1
        if found==1:
            ks=list(outs)
            open("fn_order_run1.txt","wb").write(ks[0]); open("fn_order_run2.txt","wb").write(ks[1])
            for n in "ABC": open(f"w{n}.info","w").write(open(f"{n}.info").read())
            print("seeds", outs[ks[0]][:3], outs[ks[1]][:3], "sorted-equal:", sorted(ks[0].split(b"\n"))==sorted(ks[1].split(b"\n")))
    print(t, "distinct outputs:", len(outs))
print("sets with schedule-dependent bytes:", found)
