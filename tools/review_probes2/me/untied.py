import collections,re
reach=set(l.split('\t')[1].strip() for l in open('reach_all.txt'))
edges={}; kind={}
for l in open('edges.txt'):
    _,k,n,us=l.rstrip('\n').split('\t')
    us=[u.strip() for u in us.strip('[]').split(',') if u.strip()]
    edges[n]=us; kind[n]=k
aux=re.compile(r'(\.match_\d+|\.proof_\d+|\._\w+|\.inst\w*|\.rec|\.casesOn|\.below|\.brecOn|\.noConfusion\w*|\._sunfold|\.eq_\d+|\._unary|\._mutual)$')
def base(n):
    # strip auxiliary suffixes to the user-level def
    while True:
        m=aux.search(n)
        if not m: return n
        n=n[:m.start()]
# user-level graph
g=collections.defaultdict(set)
for n,us in edges.items():
    b=base(n)
    for u in us:
        bu=base(u)
        if bu!=b: g[b].add(bu)
reachb=set(base(r) for r in reach)
deps=collections.defaultdict(set)
for l in open('stmt_deps.txt'):
    _,t,u=l.rstrip('\n').split('\t'); deps[t].add(base(u))
def unreached_leaves(d,seen=None):
    out=set(); st=[d]; seen=set()
    while st:
        x=st.pop()
        if x in seen: continue
        seen.add(x)
        if x in reachb or x not in edges and x not in g: continue
        if kind.get(x)=='P': continue
        kids=[k for k in g.get(x,()) if k not in reachb and (k in edges or k in g) and kind.get(k)!='P']
        if not kids: out.add(x)
        st.extend(kids)
    return out
byprop=collections.defaultdict(lambda: collections.defaultdict(set))
for t,us in deps.items():
    p=t.split('.')[2]
    for u in us:
        if u in reachb or kind.get(u)=='P' or u not in kind: continue
        for lf in unreached_leaves(u):
            byprop[p][lf].add(t.split('.')[-1])
for p in sorted(byprop):
    print('==',p)
    for u,ts in sorted(byprop[p].items()):
        print('  ',u,'<-',len(ts),sorted(ts)[:4])
