import GrcovModel.Props.C01
#check @GrcovModel.Props.C01.C01_branches_nary
