import Lean
import GrcovModel.Props.C01
import GrcovModel.Props.C02
import GrcovModel.Props.C03
import GrcovModel.Props.C03CobAde
import GrcovModel.Props.C03CobBytes
import GrcovModel.Props.C03Docs
import GrcovModel.Props.C03JsonBytes
import GrcovModel.Props.C03Lcov
import GrcovModel.Props.C03Main
import GrcovModel.Props.C04
import GrcovModel.Props.C05
import GrcovModel.Props.C05Cli
import GrcovModel.Props.C05Rewrite
import GrcovModel.Props.C06
import GrcovModel.Props.C06Cli
import GrcovModel.Props.C07
import GrcovModel.Props.C08
import GrcovModel.Props.C08EndToEnd
import GrcovModel.Props.C09
import GrcovModel.Props.C09JsonBytes
import GrcovModel.Props.C10
import GrcovModel.Props.C10Bytes
import GrcovModel.Props.C11
import GrcovModel.Props.C11Main
import GrcovModel.Props.C11Partial
import GrcovModel.Props.C11Symlink
import GrcovModel.Props.C12
import GrcovModel.Props.C13
import GrcovModel.Props.C13Docs
import GrcovModel.Props.C14
import GrcovModel.Props.C14Gcno
import GrcovModel.Props.C14GcnoCost
import GrcovModel.Props.C15
import GrcovModel.Props.C15Bytes
import GrcovModel.Props.C15Entry
import GrcovModel.Props.C15Mismatch
import GrcovModel.Props.C16
import GrcovModel.Props.C17
import GrcovModel.Props.C18
import GrcovModel.Props.C18CobBytes
import GrcovModel.Props.C18JsonBytes
import GrcovModel.Props.C19
import GrcovModel.Props.C19Dest
import GrcovModel.Props.C20
import GrcovModel.Props.C20Consumer
import GrcovModel.Props.C20FindBin
open Lean Elab Command

/-- for each property theorem: the `Grcov.*` definitions (not theorems) its statement depends on,
    following definitions declared in Props namespaces (`_stmt`, guards, specs) but stopping at the first
    definition outside `Grcov.Props` (a model or Spec/Lemmas definition) -/
elab "#stmtdeps" : command => do
  let env ← getEnv
  for (n, ci) in env.constants.toList do
    if !(`Grcov.Props).isPrefixOf n then continue
    match ci with
    | .thmInfo _ => pure ()
    | _ => continue
    if n.isInternal then continue
    let mut seen : NameSet := {}
    let mut out : NameSet := {}
    let mut todo : Array Name := ci.type.getUsedConstants
    while !todo.isEmpty do
      let u := todo.back!
      todo := todo.pop
      if seen.contains u then continue
      seen := seen.insert u
      if !(`Grcov).isPrefixOf u then continue
      let some ui := env.find? u | continue
      match ui with
      | .defnInfo d =>
        if (`Grcov.Props).isPrefixOf u then
          todo := todo ++ d.value.getUsedConstants ++ d.type.getUsedConstants
        else out := out.insert u
      | .inductInfo _ => out := out.insert u
      | .ctorInfo _ => pure ()
      | .recInfo _ => pure ()
      | .thmInfo _ => pure ()
      | _ => out := out.insert u
    for u in out.toList do
      IO.println s!"DEP\t{n}\t{u}"
#stmtdeps
