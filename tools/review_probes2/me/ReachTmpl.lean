import Lean
import ROOT
open Lean Elab Command

/-- transitive closure of constants used by `main` (types and values), printed if they start with `Grcov` -/
elab "#reach" : command => do
  let env ← getEnv
  let mut seen : NameSet := {}
  let mut todo : Array Name := #[`main, `step, `dispatch]
  for (n, _) in env.constants.toList do
    if (`Grcov.Drv).isPrefixOf n then todo := todo.push n
  while !todo.isEmpty do
    let n := todo.back!
    todo := todo.pop
    if seen.contains n then continue
    seen := seen.insert n
    let some ci := env.find? n | continue
    let mut used := ci.type.getUsedConstants
    match ci with
    | .defnInfo d => used := used ++ d.value.getUsedConstants
    | .opaqueInfo d => used := used ++ d.value.getUsedConstants
    | _ => pure ()
    for u in used do
      -- only follow our own code
      if (`Grcov).isPrefixOf u || u == `step || u == `dispatch || u == `loop then
        if !seen.contains u then todo := todo.push u
  for n in seen.toList do
    if (`Grcov).isPrefixOf n then IO.println s!"REACH\t{n}"
#reach
