import Lean
import GrcovModel.Props.C01
import GrcovModel.Props.C02
import GrcovModel.Props.C03
import GrcovModel.Props.C03CobAde
import GrcovModel.Props.C03CobBytes
import GrcovModel.Props.C03Docs
import GrcovModel.Props.C03JsonBytes
import GrcovModel.Props.C03Lcov
import GrcovModel.Props.C03Main
import GrcovModel.Props.C04
import GrcovModel.Props.C05
import GrcovModel.Props.C05Cli
import GrcovModel.Props.C05Rewrite
import GrcovModel.Props.C06
import GrcovModel.Props.C06Cli
import GrcovModel.Props.C07
import GrcovModel.Props.C08
import GrcovModel.Props.C08EndToEnd
import GrcovModel.Props.C09
import GrcovModel.Props.C09JsonBytes
import GrcovModel.Props.C10
import GrcovModel.Props.C10Bytes
import GrcovModel.Props.C11
import GrcovModel.Props.C11Main
import GrcovModel.Props.C11Partial
import GrcovModel.Props.C11Symlink
import GrcovModel.Props.C12
import GrcovModel.Props.C13
import GrcovModel.Props.C13Docs
import GrcovModel.Props.C14
import GrcovModel.Props.C14Gcno
import GrcovModel.Props.C14GcnoCost
import GrcovModel.Props.C15
import GrcovModel.Props.C15Bytes
import GrcovModel.Props.C15Entry
import GrcovModel.Props.C15Mismatch
import GrcovModel.Props.C16
import GrcovModel.Props.C17
import GrcovModel.Props.C18
import GrcovModel.Props.C18CobBytes
import GrcovModel.Props.C18JsonBytes
import GrcovModel.Props.C19
import GrcovModel.Props.C19Dest
import GrcovModel.Props.C20
import GrcovModel.Props.C20Consumer
import GrcovModel.Props.C20FindBin
open Lean Elab Command
elab "#edges" : command => do
  let env ← getEnv
  for (n, ci) in env.constants.toList do
    if !(`Grcov).isPrefixOf n then continue
    match ci with
    | .defnInfo d =>
      let us := d.value.getUsedConstants.filter (fun u => (`Grcov).isPrefixOf u)
      let kind := if (← liftTermElabM (Meta.isProp d.type)) then "P" else "D"
      IO.println s!"EDGE\t{kind}\t{n}\t{us.toList}"
    | _ => pure ()
#edges
