import GrcovModel.Props.C05Cli
open Grcov Grcov.Lcov Grcov.Rewrite Grcov.Cli
def b (s : String) : List Nat := s.toUTF8.toList.map (·.toNat)
def str (bs : List Nat) : String := String.mk (bs.map fun x => Char.ofNat x)
def fsJ : FS := { files := [[b "s", b "main", b "java", b "pkg", b "A.java"]],
                  dirs := [[b "s"], [b "s", b "main"], [b "s", b "main", b "java"], [b "s", b "main", b "java", b "pkg"]], cwd := [b "s"] }
def cfgJ : Cfg := { sourceDir := some (b "/s"), prefixDir := some (b "/s") }
def inpJ : List Nat := b "TN:\nSF:pkg/A.java\nDA:1,1\nend_of_record\n"
def out (r : Res (List Nat)) : String := match r with | .ok x => str x | .panic s => "PANIC " ++ s
-- real binary (c06_shard_probe.py / c05_chain_probe.py, `-s S`, S/main/java/pkg/A.java on disk): SF:main/java/pkg/A.java
#eval out (Cli.run cfgJ true fsJ [inpJ])
