#!/usr/bin/env python3
"""C06 on the real binary: cases harness/c06 never generates – an lcov input and a JaCoCo report
about the SAME source file, path options (-s / -p) at the shard stage, --branch on/off."""
import os, subprocess, tempfile, shutil, itertools, sys
BIN = "/verif/harness/target-grcov/debug/grcov"
def run(cwd, args):
    p = subprocess.run([BIN] + args, cwd=cwd, capture_output=True, timeout=120)
    if p.returncode != 0: raise SystemExit("exit %s: %s" % (p.returncode, p.stderr.decode()[-400:]))
    return p.stdout.decode()
def decode(text):
    secs = {}; cur = None
    for line in text.split("\n"):
        if line.startswith("SF:"): cur = (line[3:], [])
        elif line == "end_of_record" and cur:
            secs.setdefault(cur[0], []).append(tuple(sorted(l for l in cur[1] if l.split(":")[0] in ("DA","BRDA","FN","FNDA")))); cur = None
        elif cur is not None and line: cur[1].append(line)
    return secs
JAC = lambda lines, extra="": ('<?xml version="1.0" encoding="UTF-8" standalone="yes"?><!DOCTYPE report PUBLIC "-//JACOCO//DTD Report 1.0//EN" "report.dtd">\n'
  '<report name="r"><sessioninfo id="s" start="1" dump="2"/>\n<package name="pkg">\n<class name="pkg/A" sourcefilename="A.java">'
  '<method name="m0" desc="()V" line="3"><counter type="METHOD" missed="0" covered="1"/></method></class>\n'
  '<sourcefile name="A.java">' + lines + '</sourcefile>\n</package></report>\n<!-- pad pad pad pad pad pad pad pad pad pad pad pad pad pad pad pad pad pad pad pad pad pad pad pad pad pad ' + extra + '-->\n')
def main():
    root = os.path.realpath(tempfile.mkdtemp(prefix="c06probe"))
    S = os.path.join(root, "srcroot"); os.makedirs(os.path.join(S, "main/java/pkg")); os.makedirs(os.path.join(S, "src"))
    open(os.path.join(S, "main/java/pkg/A.java"), "w").write("class A {}\n" * 10)
    open(os.path.join(S, "src/a.c"), "w").write("int x;\n" * 10)
    files = {
      "j1.xml": JAC('<line nr="3" mi="0" ci="2" mb="1" cb="1"/><line nr="5" mi="1" ci="0" mb="0" cb="0"/>', "1"),
      "j2.xml": JAC('<line nr="3" mi="0" ci="1" mb="0" cb="3"/><line nr="7" mi="0" ci="4" mb="2" cb="0"/>', "2"),
      "l1.info": "TN:\nSF:pkg/A.java\nFN:3,pkg/A#m0\nFNDA:0,pkg/A#m0\nDA:3,5\nDA:9,1\nBRDA:3,0,0,-\nBRDA:3,0,1,1\nBRDA:3,0,2,-\nBRDA:9,0,0,1\nend_of_record\nSF:src/a.c\nDA:1,1\nBRDA:1,0,0,1\nend_of_record\n",
      "l2.info": "TN:\nSF:src/a.c\nDA:1,2\nDA:2,0\nBRDA:1,0,1,1\nend_of_record\nSF:./src/../src/a.c\nDA:4,4\nend_of_record\n",
    }
    for k, v in files.items(): open(os.path.join(root, k), "w").write(v)
    trees = {"((j1 l1) (j2 l2))": [["j1.xml", "l1.info"], ["j2.xml", "l2.info"]],
             "((j1 j2) (l1 l2))": [["j1.xml", "j2.xml"], ["l1.info", "l2.info"]],
             "((j1) l1 j2 l2)": [["j1.xml"], "l1.info", "j2.xml", "l2.info"],
             "((l1) j1 j2 (l2))": [["l1.info"], "j1.xml", "j2.xml", ["l2.info"]]}
    optsets = {"none": ([], []), "s-both": (["-s", S], ["-s", S]), "s-shard-only": (["-s", S], []),
               "s-p-shard-only": (["-s", S, "-p", S + "/main"], [])}
    n = 0
    for (tn, tree), (on, (sopts, fopts)), branch in itertools.product(trees.items(), optsets.items(), [True, False]):
        base = ["-t", "lcov", "--no-demangle"] + (["--branch"] if branch else [])
        direct = decode(run(root, list(files.keys()) + base + sopts))
        args = []
        for c in tree:
            if isinstance(c, list):
                n += 1; name = "shard%d.info" % n
                open(os.path.join(root, name), "w").write(run(root, c + base + sopts)); args.append(name)
            else: args.append(c)
        # the final stage: path options as given for it (leaves that reach it directly still need them → use sopts when a raw leaf is present)
        final_opts = fopts if all(isinstance(c, list) for c in tree) else sopts
        sharded = decode(run(root, args + base + final_opts))
        if direct != sharded:
            print("DIFF tree=%s opts=%s branch=%s" % (tn, on, branch))
            for k in sorted(set(direct) | set(sharded)):
                if direct.get(k) != sharded.get(k):
                    print("   %r\n      direct : %s\n      sharded: %s" % (k, direct.get(k), sharded.get(k)))
    shutil.rmtree(root)
main()
