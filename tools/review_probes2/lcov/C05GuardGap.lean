import GrcovModel.Props.C05Cli
open Grcov Grcov.Lcov Grcov.Rewrite Grcov.Cli
def b (s : String) : List Nat := s.toUTF8.toList.map (·.toNat)
def keysOf (r : Res (List Rec)) : List String := match r with
  | .ok rep => rep.map fun x => String.mk (x.rel.map fun c => Char.ofNat c)
  | .panic s => ["PANIC " ++ s]
def fsE : FS := { files := [], dirs := [[b "s"]], cwd := [b "s"] }
-- outside BOTH partial theorems (source dir set, file NOT on disk; or a relative prefix / no source dir with an
-- absolute prefix) and violating none of the three recorded findings: the rewrite IS idempotent here, unproved.
def cases : List (String × Cfg × String) := [
  ("-s /s, missing file, path does not start with the source dir's name", { sourceDir := some (b "/s"), prefixDir := some (b "/s") }, "foo/x.c"),
  ("-s /s -p /s, missing absolute file below S", { sourceDir := some (b "/s"), prefixDir := some (b "/s") }, "/s/foo/x.c"),
  ("-p /p absolute, no -s, path below the prefix as spelled", { prefixDir := some (b "/p") }, "/p/a/x.c"),
  ("-p a relative, path not starting with a after one strip", { prefixDir := some (b "a") }, "a/b/x.c"),
  ("-s /s --ignore-not-existing off, file outside S (absolute)", { sourceDir := some (b "/s"), prefixDir := some (b "/s") }, "/other/x.c")]
#eval cases.map fun (n, cfg, k) =>
  let r1 := rewritePaths cfg fsE [(b k, {})]
  let r2 := match r1 with | .ok rep => rewritePaths cfg fsE (reKeys rep) | .panic s => .panic s
  (n, keysOf r1, keysOf r2)
