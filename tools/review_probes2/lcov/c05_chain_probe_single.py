#!/usr/bin/env python3
"""C05 CLI chains on the real grcov binary with more path/option variety than harness/c05.
For each (tree, inputs, options): r1 = grcov in.info; r2 = grcov r1; r3 = grcov r2. Print every
case where decoded r1 != r2 or r2 != r3, tagged with the known restrip patterns."""
import os, subprocess, sys, tempfile, itertools, shutil, re
BIN = "/verif/harness/target-grcov/debug/grcov"

def run(cwd, args):
    env = dict(os.environ); env.pop("GRCOV_VERIF_LOG", None)
    p = subprocess.run([BIN] + args, cwd=cwd, capture_output=True, env=env, timeout=120)
    return p.returncode, p.stdout.decode("utf-8", "replace"), p.stderr.decode("utf-8", "replace")

def decode(text):
    secs = {}; cur = None; dup = False
    for line in text.split("\n"):
        if line.startswith("SF:"):
            cur = (line[3:], [])
        elif line == "end_of_record" and cur:
            k = cur[0]
            if k in secs: dup = True
            secs.setdefault(k, []).append(tuple(sorted(cur[1]))); cur = None
        elif cur is not None and line:
            cur[1].append(line)
    return {k: tuple(v) for k, v in secs.items()}, dup

def make_tree(root):
    src = os.path.join(root, "srcroot")
    for f in ["src/a.c", "src/sub/b.c", "lib/c.rs", "d.cpp", "srcroot/e.c", "main/java/pkg/A.java", "x y/é.c"]:
        p = os.path.join(src, f); os.makedirs(os.path.dirname(p), exist_ok=True)
        open(p, "w").write("int x;\n" * 20)
    os.symlink(os.path.join(src, "src"), os.path.join(src, "lnk"))       # dir symlink
    os.symlink(os.path.join(src, "d.cpp"), os.path.join(src, "dl.cpp"))  # file symlink
    os.makedirs(os.path.join(root, "other"), exist_ok=True)
    open(os.path.join(root, "other", "o.c"), "w").write("int y;\n")
    return src

def tracefile(paths):
    out = ["TN:"]
    for i, p in enumerate(paths):
        out += ["SF:" + p, "FN:%d,f%d" % (i + 1, i), "FNDA:1,f%d" % i, "DA:%d,%d" % (i + 1, i + 1), "DA:19,0",
                "BRDA:%d,0,0,1" % (i + 1), "BRDA:%d,0,1,-" % (i + 1), "end_of_record"]
    return "\n".join(out) + "\n"

def main():
    root = tempfile.mkdtemp(prefix="c05probe")
    root = os.path.realpath(root)
    src = make_tree(root)
    S = src
    path_sets = {
      "plain-existing": ["src/a.c", "lib/c.rs", "d.cpp"],
      "missing": ["src/zz.c", "nope/q.c", "w.c"],
      "dots": ["./src/a.c", "src//sub/../a.c", "src/./sub/b.c", "nope/../w.c"],
      "abs-under": [S + "/src/a.c", S + "/lib/c.rs", S + "/nope/m.c"],
      "abs-outside": [root + "/other/o.c", "/nonexistent/dir/k.c"],
      "symlink": ["lnk/a.c", "dl.cpp", "lnk/sub/b.c"],
      "srcname": ["srcroot/e.c", "srcroot/src/a.c", "srcroot/srcroot/e.c", "srcroot/missing.c"],
      "java": ["pkg/A.java", "A.java"],
      "space-nonascii": ["x y/é.c", " lead.c", "trail.c "],
      "backslash": ["src\\a.c", "src\\sub\\..\\a.c"],
      "dotdot-out": ["../other/o.c", "src/../../other/o.c"],
      "cwdrel": ["srcroot/src/a.c", "srcroot/d.cpp"],
      "prefixy": ["src/src/a.c", "src/a.c", "a.c"],
    }
    opt_sets = {
      "none": [],
      "s": ["-s", S],
      "s-ine": ["-s", S, "--ignore-not-existing"],
      "ine": ["--ignore-not-existing"],
      "s-pabs": ["-s", S, "-p", S + "/src"],
      "pabs": ["-p", S],
      "pabs-src": ["-p", S + "/src"],
      "s-prel": ["-s", S, "-p", "src"],
      "s-keep-anch": ["-s", S, "--keep-only", "src/*"],
      "s-ign-anch": ["-s", S, "--ignore", "src/sub/*"],
      "keep-abs": ["--keep-only", S + "/*"],
      "s-filter-unc": ["-s", S, "--filter", "uncovered"],
      "s-rel": ["-s", "srcroot"],
      "s-excl": ["-s", S, "--excl-line", "int"],
    }
    base = ["-t", "lcov", "--branch", "--no-demangle"]
    n = 0; bad = 0
    singles = {"%s:%s" % (pn, p): [p] for pn, ps in path_sets.items() for p in ps}
    for (pn, paths), (on, opts) in itertools.product(singles.items(), opt_sets.items()):
        d = os.path.join(root, "case%d" % n); n += 1
        os.makedirs(d)
        # cwd = root so that "srcroot/..." is cwd-relative
        inp = os.path.join(d, "in.info"); open(inp, "w").write(tracefile(paths))
        reports = []; prev = inp; fail = None
        for r in range(3):
            rc, out, err = run(root, [prev] + base + opts)
            if rc != 0:
                fail = "round %d exit %s: %s" % (r, rc, err.strip().split("\n")[-1][:200]); break
            prev = os.path.join(d, "r%d.info" % (r + 1)); open(prev, "w").write(out); reports.append(out)
        if fail:
            print("FAIL %-16s %-12s %s" % (pn, on, fail)); continue
        decs = [decode(r) for r in reports]
        if decs[0][0] != decs[1][0] or decs[1][0] != decs[2][0] or decs[0][1]:
            bad += 1
            ks = [sorted(d_[0].keys()) for d_ in decs]
            print("DIFF %-40s %-12s dup=%s\n     r1=%s\n     r2=%s\n     r3=%s" % (pn, on, decs[0][1], ks[0], ks[1], ks[2]))
            # data differences for same keys
            for k in set(ks[0]) & set(ks[1]):
                if decs[0][0][k] != decs[1][0][k]:
                    print("     data of %r differs r1->r2" % k)
    print("cases", n, "non-fixed", bad, "root", root)
    if "--keep" not in sys.argv: shutil.rmtree(root)
main()
