use std::io::Read;
fn unesc(s: &str) -> Vec<u8> {
    let b = s.as_bytes();
    let mut out = vec![];
    let mut i = 0;
    while i < b.len() {
        if b[i] == b'\\' && i + 1 < b.len() {
            match b[i + 1] {
                b'n' => { out.push(10); i += 2; }
                b'r' => { out.push(13); i += 2; }
                b't' => { out.push(9); i += 2; }
                b'x' => { out.push(u8::from_str_radix(&s[i + 2..i + 4], 16).unwrap()); i += 4; }
                _ => { out.push(b[i]); i += 1; }
            }
        } else { out.push(b[i]); i += 1; }
    }
    out
}
fn show(r: &Result<Vec<(String, grcov::CovResult)>, grcov::ParserError>) -> String {
    match r {
        Err(e) => format!("ERR {:?}", e),
        Ok(v) => {
            let mut s = String::from("OK");
            for (k, c) in v {
                let mut f: Vec<_> = c.functions.iter().map(|(n, f)| format!("{:?}@{}:{}", n, f.start, f.executed)).collect();
                f.sort();
                s.push_str(&format!(" [{:?} L{:?} B{:?} F{:?}]", k, c.lines, c.branches, f));
            }
            s
        }
    }
}
fn main() {
    let mut t = String::new();
    std::fs::File::open(std::env::args().nth(1).unwrap()).unwrap().read_to_string(&mut t).unwrap();
    for l in t.lines() {
        let (name, body) = l.split_once('|').unwrap();
        let bytes = unesc(body);
        for br in [true, false] {
            let b2 = bytes.clone();
            let r = std::panic::catch_unwind(move || grcov::parse_lcov(b2, br));
            match r {
                Ok(r) => println!("{} br={} {}", name, br, show(&r)),
                Err(_) => println!("{} br={} PANIC", name, br),
            }
        }
        // also emit the byte list for the Lean side
        eprintln!("#eval show_ \"{}\" {:?}", name, bytes);
    }
}
