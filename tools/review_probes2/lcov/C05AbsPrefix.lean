import GrcovModel.Props.C05Cli
open Grcov Grcov.Lcov Grcov.Rewrite Grcov.Cli
def b (s : String) : List Nat := s.toUTF8.toList.map (·.toNat)
def str (bs : List Nat) : String := String.mk (bs.map fun x => Char.ofNat x)
def fs0 : FS := { files := [[b "s", b "src", b "a.c"]], dirs := [[b "s"], [b "s", b "src"]], cwd := [b "s"] }
def cfg0 : Cfg := { sourceDir := some (b "/s"), prefixDir := some (b "/s/src") }
def inp : List Nat := b "TN:\nSF:src\\a.c\nDA:1,1\nend_of_record\n"
def out (r : Res (List Nat)) : String := match r with | .ok x => str x | .panic s => "PANIC " ++ s
#eval out (Cli.run cfg0 true fs0 [inp])
#eval match Cli.run cfg0 true fs0 [inp] with | .ok r1 => out (Cli.run cfg0 true fs0 [r1]) | _ => "?"
-- a closed witness: a 4th non-idempotence, outside the three recorded findings:
-- absolute prefix strictly below the source dir, file EXISTS below the source dir
example : ∃ r1 r2, Cli.run cfg0 true fs0 [inp] = .ok r1 ∧ Cli.run cfg0 true fs0 [r1] = .ok r2 ∧ r1 ≠ r2 := by
  refine ⟨(match Cli.run cfg0 true fs0 [inp] with | .ok x => x | _ => []),
          (match Cli.run cfg0 true fs0 [(match Cli.run cfg0 true fs0 [inp] with | .ok x => x | _ => [])] with | .ok x => x | _ => []), ?_⟩
  decide +kernel
