#!/usr/bin/env python3
"""Probe (C03/C18): resolve every row link of the generated index pages the way a browser /
static file server does (RFC 3986 reference resolution + percent-decoding of the path) and
report rows whose link does not lead to the page of the file named in the row.
usage: html_links_as_urls.py <html output dir>
Reproduce: printf 'l1\nl2\nl3\n' > src2/{'p%41.c','pA.c','x#y.c','q?z.c','a|b.c'};
  grcov hostile_names.info -s src2 -t html -o hout --no-date; python3 html_links_as_urls.py hout"""
import sys, os, html.parser, urllib.parse
root = os.path.abspath(sys.argv[1])
class P(html.parser.HTMLParser):
    def __init__(s):
        super().__init__(convert_charrefs=True); s.rows = []; s.cur = None; s.in_th = False
    def handle_starttag(s, tag, attrs):
        if tag == 'th': s.in_th = True
        if tag == 'a' and s.in_th: s.cur = [dict(attrs).get('href'), '']
    def handle_data(s, d):
        if s.cur is not None: s.cur[1] += d
    def handle_endtag(s, tag):
        if tag == 'a' and s.cur is not None: s.rows.append(tuple(s.cur)); s.cur = None
        if tag == 'th': s.in_th = False
bad = 0
for d, _, fs in os.walk(root):
    for f in fs:
        if f != 'index.html': continue
        p = P(); p.feed(open(os.path.join(d, f), encoding='utf-8').read())
        base = 'http://host' + urllib.parse.quote(os.path.join(d, f)[len(root):])
        for href, name in p.rows:
            u = urllib.parse.urlsplit(urllib.parse.urljoin(base, href))
            target = urllib.parse.unquote(u.path).lstrip('/')
            want_file = os.path.normpath(os.path.join(d[len(root):].lstrip('/'), name + '.html'))
            want_dir = os.path.normpath(os.path.join(d[len(root):].lstrip('/'), name, 'index.html'))
            if target not in (want_file, want_dir):
                bad += 1
                print('ROW %r in %s: href %r resolves to path %r (query %r, fragment %r); page wanted %r; target exists: %s'
                      % (name, os.path.join(d, f)[len(root)+1:], href, target, u.query, u.fragment, want_file, os.path.exists(os.path.join(root, target))))
print('misdirected rows:', bad)
