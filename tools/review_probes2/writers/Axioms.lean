import GrcovModel.Props.C03
import GrcovModel.Props.C18
open Grcov.Props.C03 Grcov.Props.C18
#print axioms C03_cobbytes_decode_bytes
#print axioms C03_json_coveralls_bytes
#print axioms C03_lcov_decode_bytes
#print axioms C03_html_pages_partial
#print axioms C03_cobbytes_control_witnesses
#print axioms C18_cobbytes_wellformed_exact_names
#print axioms C18_sink_row
