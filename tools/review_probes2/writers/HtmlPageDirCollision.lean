import GrcovModel.Props.C03Docs
open Grcov AList Grcov.Writers Grcov.Writers.Docs Grcov.UPath Grcov.Props.C03

-- results: `a.c` and `a.c.html/z.c`, both sources readable (2 lines each)
def rA : Res := ⟨[47, 97], "a.c".toUTF8.toList.map (·.toNat), { lines := [(1, 1)] }⟩
def rZ : Res := ⟨[47, 122], "a.c.html/z.c".toUTF8.toList.map (·.toNat), { lines := [(2, 7)] }⟩
def src2 : Path → Option Nat := fun _ => some 2

#eval (entriesOf src2 [rA, rZ]).map (fun es => es.map (fun e => (e.dest.map (fun n => String.fromUTF8! ⟨(n.map (·.toUInt8)).toArray⟩), e.rows)))
-- the model: both pages are on disk when output_html returns
#eval (htmlPages src2 [rA, rZ]).map (fun s => [rA, rZ].map (fun r => (htmlDest r.rel).bind s.pageAt))
-- hypotheses of C03_html_pages_partial hold
#eval ([rA, rZ].map fun r => (components r.rel)) 
#eval decide (([rA, rZ].map fun r => components r.rel).Nodup)
#eval [rA, rZ].map (fun r => decide (fileNameOf r.rel ≠ some indexName))
#eval [rA, rZ].map (fun r => isRelative r.rel)
#check @C03_html_pages_partial
