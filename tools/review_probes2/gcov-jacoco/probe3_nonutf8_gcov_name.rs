// A gcov (<= 7) intermediate text file whose `file:` name is not UTF-8 (a Latin-1 source name):
// parse_gcov builds a String from it with from_utf8_unchecked; downstream code then panics or mis-handles it.
use std::path::Path;
use rustc_hash::FxHashMap;
fn main() {
    let p = Path::new("/tmp/rev2/gcov-jacoco-1/l1.gcov");
    std::fs::write(p, b"file:src/caf\xe9.c\nfunction:1,1,main\nlcount:1,1\nlcount:2,0\n").unwrap();
    let r = grcov::parse_gcov(p).unwrap();
    println!("parse_gcov ok: name bytes = {:?}; std::str::from_utf8(name) = {:?}", r[0].0.as_bytes(), std::str::from_utf8(r[0].0.as_bytes()).is_ok());
    let mut map: grcov::CovResultMap = FxHashMap::default();
    for (n, c) in r { map.insert(n, c); }
    let rw = std::panic::catch_unwind(move || {
        grcov::rewrite_paths(map, None, None, None, false, &Vec::<String>::new(), &Vec::<String>::new(), None, grcov::FileFilter::default())
    });
    let res = match rw { Ok(v) => { println!("rewrite_paths ok: {} records, rel.to_str() = {:?}", v.len(), v[0].1.to_str()); v } Err(_) => { println!("rewrite_paths PANIC"); return; } };
    let out = Path::new("/tmp/rev2/gcov-jacoco-1/out");
    let r1 = res.clone();
    println!("output_lcov: {:?}", std::panic::catch_unwind(move || grcov::output_lcov(&r1, Some(&out.join("o.info")), false)).is_ok());
    let r2 = res.clone();
    println!("output_covdir: {:?}", std::panic::catch_unwind(move || grcov::output_covdir(&r2, Some(&out.join("o.json")), 2)).is_ok());
    let r3 = res.clone();
    println!("output_cobertura: {:?}", std::panic::catch_unwind(move || grcov::output_cobertura(None, &r3, Some(&out.join("o.xml")), false, true)).is_ok());
    println!("lcov file: {:?}", std::fs::read(out.join("o.info")).map(|b| String::from_utf8_lossy(&b).into_owned()));
}
