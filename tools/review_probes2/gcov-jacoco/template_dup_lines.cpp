#include <cstdio>
template <typename T>
T pick(T a, T b) {
  if (a > b)
    return a;
  return b;
}
int main(int argc, char **argv) {
  int r = 0;
  if (argc > 100) r += pick<int>(1, 2);
  if (argc > 100) r += (int)pick<double>(1.0, 2.0);
  for (int i = 0; i < 5; i++) r += (int)pick<long>(i, 2);
  printf("%d\n", r);
  return 0;
}
