import GrcovModel.Props.C09
open Grcov Grcov.Gcov Grcov.Gcov.Spec

def b (s : String) : List Nat := s.toUTF8.toList.map (·.toNat)

-- model on the probe inputs run against the real parse_gcov (probe1_real_parsers.rs, `text`)
#eval Text.parse (b "file:a.c\nfunction:3,-1,f\nlcount:3,1\n")          -- fn executed although count negative
#eval Text.parse (b "lcount:7,7\nfile:b.c\nlcount:1,1\n")                -- lines before first file: silently dropped
#eval Text.parse (b "file:a.c\nlcount:1,1\n\n")                          -- trailing empty line rejects whole file
#eval Text.parse (b "file:a.c\nlcount:1,1\nfile:a.c\nlcount:1,2\nlcount:2,0\n")
#eval Text.parse (b "file:a.c\nlcount:3,1\nbranch:3,taken\nbranch:3,nottaken\nbranch:3,notexec\nbranch:3,Taken\nbranch:3,taken \n")

-- JSON: gcov >= 9 lists a template line once per instantiation; spec and model: last entry wins
def dupDoc : Doc :=
  { formatVersion := b "1", gccVersion := b "12", cwd := none, dataFile := b "d"
    files := [ { file := b "t.cpp", functions := []
                 lines := [ ⟨3, some (some (b "pick<long>")), .int 5, false, [⟨.int 2, false, true⟩, ⟨.int 3, false, false⟩]⟩,
                            ⟨3, some (some (b "pick<int>")), .int 0, false, [⟨.int 0, false, true⟩, ⟨.int 0, false, false⟩]⟩ ] } ] }
#eval semJson dupDoc          -- spec says: line 3 count 0, branches [false,false]
#eval Json.toResults dupDoc.toJson
example : dupDoc.WF := by
  intro f hf
  simp only [dupDoc, List.mem_cons, List.not_mem_nil, or_false] at hf
  subst hf
  simp [FileS.WF, LineS.WF, BrS.WF, Counter.WF, U32MAX, U64MAX]
-- the "spec" of a line count IS last-wins: C09_json_line_count is get?_ofList, i.e. a lemma about the fold both sides share
#check @Grcov.Props.C09.C09_json_line_count
#print axioms Grcov.Props.C09.C09_json_fidelity
