use std::io::{BufReader, Cursor, Write};
use std::path::Path;
use grcov::{parse_gcov, parse_gcov_gz, parse_jacoco_xml_report, CovResult};

fn show(r: &Result<Vec<(String, CovResult)>, grcov::ParserError>) -> String {
    match r {
        Ok(v) => {
            let mut s = String::from("OK ");
            for (n, c) in v {
                let mut fns: Vec<_> = c.functions.iter().map(|(k, f)| format!("{:?}@{}:{}", k, f.start, f.executed)).collect();
                fns.sort();
                s += &format!("[{:?} lines={:?} br={:?} fn={:?}] ", n.as_bytes().iter().map(|&b| if (32..127).contains(&b) { (b as char).to_string() } else { format!("\\x{:02x}", b) }).collect::<String>(), c.lines, c.branches, fns);
            }
            s
        }
        Err(e) => format!("ERR {:?}", e),
    }
}
fn text(tag: &str, b: &[u8]) {
    let p = Path::new("/tmp/rev2/gcov-jacoco-1/x.gcov");
    std::fs::write(p, b).unwrap();
    let r = std::panic::catch_unwind(|| parse_gcov(p));
    match r { Ok(r) => println!("TEXT {}: {}", tag, show(&r)), Err(_) => println!("TEXT {}: PANIC", tag) }
}
fn gz(b: &[u8]) -> Vec<u8> {
    let mut e = flate2::write::GzEncoder::new(Vec::new(), flate2::Compression::default());
    e.write_all(b).unwrap();
    e.finish().unwrap()
}
fn jsonraw(tag: &str, b: &[u8]) {
    let p = Path::new("/tmp/rev2/gcov-jacoco-1/x.gcov.json.gz");
    std::fs::write(p, b).unwrap();
    let r = std::panic::catch_unwind(|| parse_gcov_gz(p));
    match r { Ok(r) => println!("JSON {}: {}", tag, show(&r)), Err(_) => println!("JSON {}: PANIC", tag) }
}
fn json(tag: &str, s: &str) { jsonraw(tag, &gz(s.as_bytes())) }
fn doc(lines: &str, fns: &str) -> String {
    format!(r#"{{"format_version":"1","gcc_version":"12","current_working_directory":"/w","data_file":"d","files":[{{"file":"a.c","functions":[{}],"lines":[{}]}}]}}"#, fns, lines)
}
fn xml(tag: &str, b: &[u8]) {
    let b2 = b.to_vec();
    let t0 = std::time::Instant::now();
    let r = std::panic::catch_unwind(move || parse_jacoco_xml_report(BufReader::new(Cursor::new(b2))));
    let ms = t0.elapsed().as_millis();
    match r { Ok(r) => { let s = show(&r); println!("XML {} ({} bytes, {} ms): {}", tag, b.len(), ms, &s[..s.len().min(600)]) }, Err(_) => println!("XML {}: PANIC", tag) }
}
fn main() {
    let which: Vec<String> = std::env::args().skip(1).collect();
    let on = |k: &str| which.is_empty() || which.iter().any(|w| w == k);
    if on("text") {
        text("colon-name", b"file:C:/a:b.c\nlcount:1,1\n");
        text("same-file-twice", b"file:a.c\nlcount:1,1\nfile:a.c\nlcount:1,2\nlcount:2,0\n");
        text("plus", b"file:a.c\nlcount:+1,+5\n");
        text("minus-only", b"file:a.c\nlcount:1,-\n");
        text("neg-big", b"file:a.c\nlcount:1,-99999999999999999999999\n");
        text("space", b"file:a.c\nlcount:1, 5\n");
        text("gcov8-fn", b"file:a.c\nfunction:10,12,0,foo\nlcount:10,1\n");
        text("fn-template", b"file:a.c\nfunction:3,1,std::map<int, std::pair<a,b> >::f(int, char)\nlcount:3,1\n");
        text("fn-00", b"file:a.c\nfunction:3,00,f\nlcount:3,1\n");
        text("fn-neg", b"file:a.c\nfunction:3,-1,f\nlcount:3,1\n");
        text("branch-tokens", b"file:a.c\nlcount:3,1\nbranch:3,taken\nbranch:3,nottaken\nbranch:3,notexec\nbranch:3,Taken\nbranch:3,taken \n");
        text("branch-no-lcount", b"file:a.c\nbranch:3,taken\nfile:b.c\nlcount:1,1\n");
        text("lcount-before-file-dropped", b"lcount:7,7\nfile:b.c\nlcount:1,1\n");
        text("bom", b"\xef\xbb\xbffile:a.c\nlcount:1,1\nfile:b.c\nlcount:2,2\n");
        text("nonutf8", b"file:caf\xe9.c\nlcount:1,1\n");
        text("nonutf8-trunc-lead", b"file:caf\xf0\nlcount:1,1\n");
        text("cr-mid", b"file:a\rb.c\r\r\nlcount:1,1\r\n");
        text("empty-name", b"file:\nlcount:1,1\n");
        text("u32-over", b"file:a.c\nlcount:4294967296,1\n");
        text("line0", b"file:a.c\nlcount:0,1\n");
        text("no-colon", b"file:a.c\nlcount:1,1\n\n");
        text("version-line", b"version:7.3.0\nfile:a.c\nlcount:1,1\n");
    }
    if on("json") {
        let l = |n: &str, c: &str, br: &str| format!(r#"{{"line_number":{},"function_name":"f","count":{},"unexecuted_block":false,"branches":[{}]}}"#, n, c, br);
        json("dup-lines", &doc(&[l("3", "5", r#"{"count":2,"throw":false,"fallthrough":true},{"count":3,"throw":false,"fallthrough":false}"#), l("3", "0", r#"{"count":0,"throw":false,"fallthrough":true},{"count":0,"throw":false,"fallthrough":false}"#)].join(","), ""));
        json("dup-lines-branch-then-none", &doc(&[l("3", "5", r#"{"count":2,"throw":false,"fallthrough":true}"#), l("3", "0", "")].join(","), ""));
        for c in ["1e3", "1.5", "-0.0", "-0", "1E19", "1.8446744073709552e19", "18446744073709551615", "18446744073709551616", "0.9999999999999999", "-1", "1e400", "\"5\"", "null", "true", "4.9e-324"] {
            json(&format!("count={}", c), &doc(&l("1", c, ""), ""));
        }
        for n in ["0", "4294967295", "4294967296", "1.0", "-1", "1e0"] {
            json(&format!("line_number={}", n), &doc(&l(n, "1", ""), ""));
        }
        json("no-function_name", &doc(r#"{"line_number":1,"count":1,"unexecuted_block":false,"branches":[]}"#, ""));
        json("array-form-line", &doc(r#"[1,null,1,false,[[1,false,false]]]"#, ""));
        json("dup-key", &doc(r#"{"line_number":1,"line_number":2,"count":1,"unexecuted_block":false,"branches":[]}"#, ""));
        json("fn-dup-demangled", &doc(&l("1", "1", ""), r#"{"name":"_Z1fi","demangled_name":"f","start_line":3,"start_column":1,"end_line":4,"end_column":1,"blocks":1,"blocks_executed":1,"execution_count":5},{"name":"_Z1fd","demangled_name":"f","start_line":9,"start_column":1,"end_line":10,"end_column":1,"blocks":1,"blocks_executed":0,"execution_count":0}"#));
        // gzip layer
        let d = doc(&l("1", "1", ""), "");
        let mut two = gz(d.as_bytes()); two.extend(gz(b"   ")); jsonraw("gz-two-members-ws", &two);
        let mut g = gz(d.as_bytes()); g.extend(b"GARBAGE GARBAGE"); jsonraw("gz-trailing-garbage", &g);
        let (a, b) = d.split_at(d.len() / 2);
        let mut m = gz(a.as_bytes()); m.extend(gz(b.as_bytes())); jsonraw("gz-json-split-over-two-members", &m);
        let mut g2 = gz(d.as_bytes()); let n = g2.len(); g2[n - 6] ^= 0xff; jsonraw("gz-bad-crc", &g2);
        jsonraw("plain-json-not-gz", d.as_bytes());
        let mut nested = String::new(); for _ in 0..200 { nested.push('['); } for _ in 0..200 { nested.push(']'); }
        json("deep-unknown", &d.replacen("{", &format!("{{\"x\":{},", nested), 1));
    }
    if on("xml") {
        let hdr = "<?xml version=\"1.0\" encoding=\"UTF-8\" standalone=\"yes\"?><!DOCTYPE report PUBLIC \"-//JACOCO//DTD Report 1.1//EN\" \"report.dtd\">";
        let body = |pk: &str, inner: &str| format!("{}<report name=\"r\"><sessioninfo id=\"s\" start=\"1\" dump=\"2\"/>{}<counter type=\"LINE\" missed=\"1\" covered=\"1\"/></report>", hdr, format!("<package name=\"{}\">{}</package>", pk, inner));
        let cls = "<class name=\"p/Outer$Inner\" sourcefilename=\"Outer.java\"><method name=\"&lt;init&gt;\" desc=\"()V\" line=\"3\"><counter type=\"METHOD\" missed=\"0\" covered=\"1\"/></method><method name=\"lambda$0\" desc=\"()V\" line=\"5\"><counter type=\"INSTRUCTION\" missed=\"1\" covered=\"0\"/><counter type=\"METHOD\" missed=\"1\" covered=\"0\"/></method><counter type=\"METHOD\" missed=\"1\" covered=\"1\"/></class>";
        let sf = "<sourcefile name=\"Outer.java\"><line nr=\"3\" mi=\"0\" ci=\"2\" mb=\"0\" cb=\"0\"/><line nr=\"4\" mi=\"0\" ci=\"2\" mb=\"1\" cb=\"2\"/><line nr=\"5\" mi=\"3\" ci=\"0\" mb=\"0\" cb=\"0\"/><counter type=\"LINE\" missed=\"1\" covered=\"2\"/></sourcefile>";
        xml("basic", body("p", &format!("{}{}", cls, sf)).as_bytes());
        xml("nested-groups", format!("{}<report name=\"r\"><group name=\"g1\"><group name=\"g2\"><package name=\"p\">{}{}</package></group><package name=\"p\">{}</package></group></report>", hdr, cls, sf, sf).as_bytes());
        xml("default-pkg", body("", sf).as_bytes());
        xml("slash-pkg", body("/a//b/", sf).as_bytes());
        xml("entities", body("p&amp;q", "<class name=\"p/A&#x41;&#66;\" sourcefilename=\"A&lt;B&gt;&quot;&apos;.java\"><method name=\"m&amp;m\" desc=\"\" line=\"1\"><counter type=\"METHOD\" missed=\"0\" covered=\"1\"/></method></class>").as_bytes());
        xml("num-entity", body("p", "<sourcefile name=\"A.java\"><line nr=\"&#49;\" mi=\"0\" ci=\"1\" mb=\"0\" cb=\"0\"/></sourcefile>").as_bytes());
        xml("num-space", body("p", "<sourcefile name=\"A.java\"><line nr=\" 1\" mi=\"0\" ci=\"1\" mb=\"0\" cb=\"0\"/></sourcefile>").as_bytes());
        xml("num-plus", body("p", "<sourcefile name=\"A.java\"><line nr=\"+1\" mi=\"0\" ci=\"+1\" mb=\"+0\" cb=\"00\"/></sourcefile>").as_bytes());
        xml("single-quote-ws", body("p", "<sourcefile  name = 'A.java' ><line\n nr='1'\tmi = '0' ci='1' mb='0' cb='0' /></sourcefile >").as_bytes());
        xml("comment-cdata", body("p", "<!-- <sourcefile name=\"C.java\"><line nr=\"1\" mi=\"0\" ci=\"1\" mb=\"0\" cb=\"0\"/></sourcefile> --><![CDATA[<sourcefile name=\"D.java\"></sourcefile>]]><?pi <sourcefile name=\"E.java\">?><sourcefile name=\"A.java\"><line nr=\"1\" mi=\"0\" ci=\"1\" mb=\"0\" cb=\"0\"/></sourcefile>").as_bytes());
        xml("gt-in-attr", body("p", "<sourcefile name=\"A>B.java\"><line nr=\"1\" mi=\"0\" ci=\"1\" mb=\"0\" cb=\"0\"/></sourcefile>").as_bytes());
        xml("ns-prefix", format!("{}<j:report xmlns:j=\"u\" name=\"r\"><j:package name=\"p\">{}</j:package></j:report>", hdr, sf.replace("<sourcefile", "<j:sourcefile").replace("</sourcefile", "</j:sourcefile").replace("<line", "<j:line")).as_bytes());
        let mut bom = vec![0xef, 0xbb, 0xbf]; bom.extend(body("p", sf).as_bytes()); xml("bom", &bom);
        let latin = format!("<?xml version=\"1.0\" encoding=\"ISO-8859-1\"?><report name=\"r\"><package name=\"p\"><sourcefile name=\"Caf\u{e9}.java\"><line nr=\"1\" mi=\"0\" ci=\"1\" mb=\"0\" cb=\"0\"/></sourcefile></package></report>");
        let latin_bytes: Vec<u8> = latin.chars().map(|c| c as u32 as u8).collect();
        xml("latin1-nonascii-name", &latin_bytes);
        let latin2: Vec<u8> = latin.replace("Caf\u{e9}", "Cafe").replace("name=\"r\"", "name=\"r\u{e9}\"").chars().map(|c| c as u32 as u8).collect();
        xml("latin1-nonascii-only-in-report-name", &latin2);
        let u16: Vec<u8> = std::iter::once(0xfeffu16).chain(body("p", sf).replace("UTF-8", "UTF-16").encode_utf16()).flat_map(|u| u.to_le_bytes()).collect();
        xml("utf16le", &u16);
        xml("class-no-sourcefilename-dollar-first", body("p", "<class name=\"p/$Proxy1\"><method name=\"m\" desc=\"\" line=\"1\"><counter type=\"METHOD\" missed=\"0\" covered=\"1\"/></method></class>").as_bytes());
        xml("class-bad-sourcefilename-entity-swallowed", body("p", "<class name=\"p/A\" sourcefilename=\"&bad;\"><method name=\"m\" desc=\"\" line=\"1\"><counter type=\"METHOD\" missed=\"0\" covered=\"1\"/></method></class>").as_bytes());
        xml("method-no-line", body("p", "<class name=\"p/A\" sourcefilename=\"A.java\"><method name=\"m\" desc=\"\"><counter type=\"METHOD\" missed=\"0\" covered=\"1\"/></method></class>").as_bytes());
        xml("dup-nr", body("p", "<sourcefile name=\"A.java\"><line nr=\"1\" mi=\"0\" ci=\"1\" mb=\"0\" cb=\"0\"/><line nr=\"1\" mi=\"0\" ci=\"0\" mb=\"1\" cb=\"1\"/><line nr=\"1\" mi=\"1\" ci=\"0\" mb=\"0\" cb=\"0\"/></sourcefile>").as_bytes());
        xml("two-sourcefiles-same-name", body("p", "<sourcefile name=\"A.java\"><line nr=\"1\" mi=\"0\" ci=\"1\" mb=\"0\" cb=\"0\"/></sourcefile><sourcefile name=\"A.java\"><line nr=\"2\" mi=\"0\" ci=\"1\" mb=\"0\" cb=\"0\"/></sourcefile>").as_bytes());
        xml("nested-package-in-sourcefile-text", body("p", "<sourcefile name=\"A.java\"><line nr=\"1\" mi=\"0\" ci=\"1\" mb=\"0\" cb=\"0\">text &amp; more</line></sourcefile>").as_bytes());
        xml("stray-end", body("p", "</sourcefile><sourcefile name=\"A.java\"><line nr=\"1\" mi=\"0\" ci=\"1\" mb=\"0\" cb=\"0\"/></sourcefile>").as_bytes());
        xml("mismatched-end", body("p", "<sourcefile name=\"A.java\"><line nr=\"1\" mi=\"0\" ci=\"1\" mb=\"0\" cb=\"0\"></lime></sourcefile>").as_bytes());
    }
    if on("quad") {
        for k in [20_000usize, 40_000, 80_000, 160_000] {
            let mut s = String::from("<report><package name=\"p\"><sourcefile name=\"A.java\"><line");
            for i in 0..k { s += &format!(" a{}=\"\"", i); }
            s += " nr=\"1\" mi=\"0\" ci=\"1\" mb=\"0\" cb=\"0\"/></sourcefile></package></report>";
            xml(&format!("many-attrs k={}", k), s.as_bytes());
        }
    }
}
