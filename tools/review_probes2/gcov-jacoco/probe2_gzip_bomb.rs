use std::io::Write;
use std::path::Path;
fn hwm() -> String { std::fs::read_to_string("/proc/self/status").unwrap().lines().find(|l| l.starts_with("VmHWM")).unwrap().to_string() }
fn main() {
    let n: usize = std::env::args().nth(1).unwrap().parse().unwrap();
    let p = Path::new("/tmp/rev2/gcov-jacoco-1/bomb.gcov.json.gz");
    {
        let f = std::fs::File::create(p).unwrap();
        let mut e = flate2::write::GzEncoder::new(std::io::BufWriter::new(f), flate2::Compression::best());
        e.write_all(br#"{"format_version":"1","gcc_version":"12","data_file":"d","files":[{"file":"a.c","functions":[],"lines":["#).unwrap();
        for i in 0..n { if i > 0 { e.write_all(b",").unwrap(); } e.write_all(b"[1,null,0,false,[]]").unwrap(); }
        e.write_all(b"]}]}").unwrap();
        e.finish().unwrap().flush().unwrap();
    }
    let sz = std::fs::metadata(p).unwrap().len();
    println!("before: {}", hwm());
    let t0 = std::time::Instant::now();
    let r = grcov::parse_gcov_gz(p);
    println!("n={} gz bytes={} decompressed~{} ms={} ok={} result_lines={} after: {}", n, sz, 20 * n, t0.elapsed().as_millis(), r.is_ok(), r.map(|v| v[0].1.lines.len()).unwrap_or(0), hwm());
}
