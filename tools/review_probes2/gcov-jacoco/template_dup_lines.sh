# gcov >= 9 JSON lists one entry per (template instantiation, line); parse_gcov_gz does lines.insert => last wins.
# Run in a scratch dir: copies template_dup_lines.cpp, builds with g++ 12 --coverage, runs, then the real grcov.
set -e
d=$(mktemp -d); cp "$(dirname "$0")/template_dup_lines.cpp" $d/t.cpp; cd $d
g++ --coverage -O0 t.cpp -o t && ./t
gcov -b -c t.cpp >/dev/null 2>&1; sed -n 5,12p t.cpp.gcov   # gcov's own summary: line 3 = 5*, line 4 = 5*
rm -f t.cpp.gcov
/verif/harness/target-grcov/debug/grcov . -s . -t lcov --branch | grep -E '^(DA:[3-6],|BRDA:4,)'
# observed: DA:3,0 DA:4,0 DA:5,0 DA:6,0  BRDA:4,0,0,-  BRDA:4,0,1,-   (expected 5,5,2,3 and branch taken 2/3)
