#!/usr/bin/python3
"""run_seeded.py [ids…] — applies each /verif/seeded/<id>/patch.diff to /repo, runs ./check <id>
(quick), records the verdict in meta.json, and restores /repo."""
import json, os, subprocess, sys, time
ids = sys.argv[1:] or sorted(os.listdir("/verif/seeded"))
for pid in ids:
    d = f"/verif/seeded/{pid}"
    if not os.path.exists(f"{d}/patch.diff"):
        continue
    subprocess.run(["git", "-C", "/repo", "checkout", "--", "."], check=True)
    # a patch written against an older /repo is kept as it was; its re-confirmed rebase is used
    patch = f"{d}/patch_rebased.diff" if os.path.exists(f"{d}/patch_rebased.diff") else f"{d}/patch.diff"
    r = subprocess.run(["git", "-C", "/repo", "apply", patch], capture_output=True, text=True)
    if r.returncode != 0:
        print(pid, "patch does not apply:", r.stderr[:200]); continue
    t0 = time.time()
    extra = json.load(open(f"{d}/meta.json")).get("also_run", []) if os.path.exists(f"{d}/meta.json") else []
    verdicts = {}
    base = pid.split("-")[0]
    for prop in [base] + extra:
        p = subprocess.run(["./check", prop, "--tier", "quick"], cwd="/verif", capture_output=True, text=True)
        viol = [l for l in p.stdout.splitlines() if l.startswith("VIOLATION")]
        verdicts[prop] = {"exit": p.returncode, "violations": len(viol), "first": viol[0] if viol else None,
                          "summary": p.stdout.strip().splitlines()[-1] if p.stdout.strip() else ""}
        # keep the first replay's description
        if viol:
            rp = viol[0].split("replay=")[1].split()[0]
            try:
                verdicts[prop]["what"] = json.load(open(rp)).get("what", "")[:300]
                verdicts[prop]["kind"] = json.load(open(rp)).get("kind", "")
            except Exception:
                pass
    subprocess.run(["git", "-C", "/repo", "checkout", "--", "."], check=True)
    meta_path = f"{d}/meta.json"
    meta = json.load(open(meta_path)) if os.path.exists(meta_path) else {}
    meta["check_results"] = verdicts
    json.dump(meta, open(meta_path, "w"), indent=1)
    v = verdicts[base]
    print(f"{pid}: exit={v['exit']} violations={v['violations']} kind={v.get('kind')} {v.get('what','')[:140]}  ({time.time()-t0:.0f}s)")
