#!/usr/bin/python3
"""Runs the repository's test suite (guard off) in <repo dir> and checks that every test of
/root/.vp/BASELINE.json's stable_pass list passes.  usage: baseline_check.py [repo_dir]"""
import json, re, subprocess, sys
repo = sys.argv[1] if len(sys.argv) > 1 else "/repo"
base = json.load(open("/root/.vp/BASELINE.json"))
p = subprocess.run(["cargo", "test", "--workspace", "--no-fail-fast", "--offline"], cwd=repo,
                   stdout=subprocess.PIPE, stderr=subprocess.STDOUT, text=True,
                   env={**__import__("os").environ, "CARGO_NET_OFFLINE": "true"})
results = {}
target = None
for ln in p.stdout.splitlines():
    m = re.match(r"\s*Running (unittests )?(\S+)", ln)
    if m:
        t = m.group(2)
        target = "lib" if t == "src/lib.rs" else "bin" if t == "src/main.rs" else "test" if t.startswith("tests/test.rs") else t
        continue
    m = re.match(r"test (\S+)(?: - should panic)? \.\.\. (ok|FAILED|ignored)", ln)
    if m and target:
        name = m.group(1)
        full = {"lib": "grcov::" + name, "bin": "grcov::bin/grcov::" + name, "test": "grcov::test::" + name}.get(target, target + "::" + name)
        results[full] = m.group(2)
missing = [t for t in base["stable_pass"] if results.get(t) != "ok"]
print(f"{sum(1 for v in results.values() if v == 'ok')} passed, {sum(1 for v in results.values() if v == 'FAILED')} failed; "
      f"stable baseline tests not passing: {missing}")
sys.exit(1 if missing else 0)
