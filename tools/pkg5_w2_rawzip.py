#!/usr/bin/python3
"""pkg5_w2_rawzip.py <out dir> — writes the raw zip witnesses of work package W2 (C17/C19) with
python's zipfile (which, unlike the `zip` crate's writer, keeps repeated and respelled names):

  respelled.zip   d//b.info, d/./e.info, ./a.info, c.info           all four are used (fix 2f541c3)
  samecanon1.zip  a//b.info (first.c), a/b.info (second.c)          finding C17-zip-same-canonical-name-reads-other-entry:
                                                                     the first is listed, the second is read
  samecanon2.zip  x.info/ (directory entry), ./x.info (real.c)      … the directory entry's empty data are read: real.c is lost
  decoy.zip       a//b.info (valid), a/b.info (decoy), c.info       … the valid entry is listed, the decoy is read: first.c is lost
  overlong.zip    <300 x N>/x.gcno, ok.info                          finding C17-name-too-long-aborts-run (exit 1, ok.info lost)

Try:  grcov <out dir>/samecanon2.zip -t lcov      (expected SF:real.c, prints nothing)
The harnesses write such archives themselves (harness/c17/src/rawzipw.rs); this script is for
reproducing a witness by hand."""
import os, sys, warnings, zipfile
warnings.simplefilter("ignore")

def info(f, n):
    return "TN:\nSF:%s\nDA:1,%d\nend_of_record\n" % (f, n)

def mk(path, entries):
    with zipfile.ZipFile(path, "w") as z:
        for name, data in entries:
            z.writestr(zipfile.ZipInfo(name), data)

out = sys.argv[1] if len(sys.argv) > 1 else "."
os.makedirs(out, exist_ok=True)
mk(os.path.join(out, "respelled.zip"), [("d//b.info", info("b.c", 1)), ("d/./e.info", info("e.c", 2)), ("./a.info", info("a.c", 3)), ("c.info", info("ctl.c", 9))])
mk(os.path.join(out, "samecanon1.zip"), [("a//b.info", info("first.c", 1)), ("a/b.info", info("second.c", 2))])
mk(os.path.join(out, "samecanon2.zip"), [("x.info/", ""), ("./x.info", info("real.c", 3))])
mk(os.path.join(out, "decoy.zip"), [("a//b.info", info("first.c", 1)), ("a/b.info", "XX decoy"), ("c.info", info("ctl.c", 9))])
mk(os.path.join(out, "overlong.zip"), [("N" * 300 + "/x.gcno", "oncg*22B"), ("ok.info", info("ok.c", 1))])
print("written to", out)
