#!/usr/bin/python3
"""Regenerates /verif/MANIFEST.json from the table below (one entry per claimed property)."""
import json, os
ROOT = os.path.dirname(os.path.dirname(os.path.abspath(__file__)))

COMMON_NOTE = ("Trusted: Lean 4.33.0 kernel and the standard axioms reported per theorem in the evidence "
               "(subset of propext, Classical.choice, Quot.sound; no native_decide, no sorry); the hand model is "
               "NOT trusted but tied to /repo's working tree by the correspondence run of this check; trusted there: "
               "the harness (generators, canonicalisers, hex line protocol) and the Lean compiler for gmodel. ")

CLAIMED = {
 "C01": dict(
  text=("Proof: 18 theorems about Merge.merge/addResults (pointwise saturating sum, slot-wise OR over the longer "
        "vector, executed OR, start from an input, commutativity, associativity, invariance under every permutation "
        "and parenthesisation (Tree), clamped-sum closed form, identity, monotonicity, u64 closure) for all records. "
        "Tie: merge_results and add_results (via the cfg hook) vs the model on generated records incl. 2^64-1 "
        "boundaries, plus the property oracles evaluated on the implementation (random trees vs closed form)."),
  note=COMMON_NOTE + "Modelled, not verified: BTreeMap/FxHashMap as association lists observed through get?; "
       "std::fs::canonicalize as a finite table computed by the harness.",
  technique="Lean 4 proof over a hand model (induction, pointwise algebra) + differential correspondence with merge_results/add_results",
  design="6.C01"),
 "C04": dict(
  text=("Proof: theorems about the byte machine Lcov.parse (model of parse_lcov/add_branch): branch vector indexed by "
        "branch number with slot = OR over all records of that (line, branch), independent of record order and block "
        "numbers; line count = clamped sum of DA counts in any order; byte-level DA record lemma for every digit string, "
        "LF and CRLF; no branch data with branch parsing off for every byte string; compositionality. Full statement "
        "parse(render ast)=sem ast is proved per layer as described in Props/C04.lean; the remaining record kinds are "
        "covered by the spec oracle. Tie: parse_lcov vs Lcov.parse byte-for-byte on rendered ASTs and on a malformed "
        "stream; spec oracle parse_lcov(render ast)=sem ast on the implementation with shrinking."),
  note=COMMON_NOTE + "Modelled, not verified: String::from_utf8_lossy (modelled as Lcov.utf8Lossy and tied on generated "
       "byte strings); debug-build overflow semantics (overflow-checks on). Known finding C04-fnda-before-fn.",
  technique="Lean 4 proof over a byte-level Mealy-machine model of parse_lcov + differential correspondence + spec oracle on the implementation",
  design="6.C04"),
}

PENDING_REASON = "not claimed in this revision: model and check still being built (see DESIGN.md section 10)"

def main():
    ids = [json.loads(l)["id"] for l in open(os.path.join(ROOT, "properties.jsonl"))]
    hooks = json.load(open(os.path.join(ROOT, "hooks.json")))
    checks = []
    for pid in ids:
        if pid not in CLAIMED:
            continue
        c = CLAIMED[pid]
        checks.append({
            "property_id": pid,
            "quick_cmd": f"./check {pid} --tier quick",
            "thorough_cmd": f"./check {pid} --tier thorough",
            "evidence_file": f"/verif/evidence/{pid}.json",
            "replay_cmd_template": f"./check {pid} --replay {{path}}",
            "engine": "lean4-model+rust-correspondence",
            "level_claimed": {"category": "proof", "text": c["text"], "design_ref": c["design"]},
            "level_note": c["note"],
            "technique": c["technique"],
        })
    m = {
        "version": 1,
        "setup_cmd": "./setup.sh",
        "hooks": {
            "guard": "--cfg mozilla_grcov_verif",
            "enable": "rustflags --cfg mozilla_grcov_verif in /verif/harness/.cargo/config.toml; the harness links /repo's working tree as a path dependency",
            "baseline_off_cmd": "cd /repo && cargo test --workspace --no-fail-fast --offline",
            "source_commits": hooks["source_commits"],
            "add_only": True,
        },
        "engines": [
            {"name": "lean-model", "path": "/verif/lean", "serves_properties": sorted(CLAIMED),
             "kind_free_text": "Lean 4 models, property theorems (GrcovModel/Props), native line-protocol driver gmodel"},
            {"name": "corr-harness", "path": "/verif/harness", "serves_properties": sorted(CLAIMED),
             "kind_free_text": "Rust differential harness linking /repo's working tree: generators, oracles on the implementation, replay"},
            {"name": "check", "path": "/verif/check", "serves_properties": sorted(CLAIMED),
             "kind_free_text": "python driver: proof gate + axiom/statement audit, build gate, correspondence run, known-finding classification, evidence"},
        ],
        "checks": checks,
        "not_applicable": [{"property_id": p, "reason": PENDING_REASON} for p in ids if p not in CLAIMED],
        "notes": "See DESIGN.md. fix: commits and known findings are listed in known_findings.json.",
    }
    json.dump(m, open(os.path.join(ROOT, "MANIFEST.json"), "w"), indent=1)
    print("claimed:", sorted(CLAIMED))

if __name__ == "__main__":
    main()
