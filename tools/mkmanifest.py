#!/usr/bin/python3
"""Regenerates /verif/MANIFEST.json from the table below (one entry per claimed property)."""
import json, os, re
ROOT = os.path.dirname(os.path.dirname(os.path.abspath(__file__)))

COMMON_NOTE = ("Trusted: Lean 4.33.0 kernel and the standard axioms reported per theorem in the evidence "
               "(subset of propext, Classical.choice, Quot.sound; no native_decide, no sorry); the hand model is "
               "NOT trusted but tied to /repo's working tree by the correspondence run of this check; trusted there: "
               "the harness (generators, canonicalisers, hex line protocol) and the Lean compiler for gmodel. ")

CLAIMED = {
 "C01": dict(
  text=("Proof: 18 theorems about Merge.merge/addResults (pointwise saturating sum, slot-wise OR over the longer "
        "vector, executed OR, start from an input, commutativity, associativity, invariance under every permutation "
        "and parenthesisation (Tree), clamped-sum closed form, identity, monotonicity, u64 closure) for all records. "
        "Tie: merge_results and add_results (via the cfg hook) vs the model on generated records incl. 2^64-1 "
        "boundaries, plus the property oracles evaluated on the implementation (random trees vs closed form)."),
  note=COMMON_NOTE + "Modelled, not verified: BTreeMap/FxHashMap as association lists observed through get?; "
       "std::fs::canonicalize as a finite table computed by the harness.",
  technique="Lean 4 proof over a hand model (induction, pointwise algebra) + differential correspondence with merge_results/add_results",
  design="6.C01"),
 "C04": dict(
  text=("Proof: theorems about the byte machine Lcov.parse (model of parse_lcov/add_branch): branch vector indexed by "
        "branch number with slot = OR over all records of that (line, branch), independent of record order and block "
        "numbers; line count = clamped sum of DA counts in any order; byte-level DA record lemma for every digit string, "
        "LF and CRLF; no branch data with branch parsing off for every byte string; compositionality. Full statement "
        "parse(render ast)=sem ast is proved per layer as described in Props/C04.lean; the remaining record kinds are "
        "covered by the spec oracle. Tie: parse_lcov vs Lcov.parse byte-for-byte on rendered ASTs and on a malformed "
        "stream; spec oracle parse_lcov(render ast)=sem ast on the implementation with shrinking."),
  note=COMMON_NOTE + "Modelled, not verified: String::from_utf8_lossy (modelled as Lcov.utf8Lossy and tied on generated "
       "byte strings); debug-build overflow semantics (overflow-checks on). Known finding C04-fnda-before-fn.",
  technique="Lean 4 proof over a byte-level Mealy-machine model of parse_lcov + differential correspondence + spec oracle on the implementation",
  design="6.C04"),
 "C02": dict(
  text=("Proof: theorems about the Pipeline transition system (one producer, n consumers, main's join/stop-marker "
        "sequence, FIFO queue of capacity 2n) for every n, item list, fault environment and schedule: conservation "
        "(each item is in exactly one place in every reachable state: nothing dropped, nothing duplicated), the "
        "stop-marker bookkeeping invariant, merged-at-most-once. Tie: the hooked grcov binary is run on generated "
        "input sets with --threads 1..8, shuffled argument order and seeded perturbation; its per-thread event log "
        "must be realisable by a run of the model (search over interleavings in the Lean driver) and the decoded lcov "
        "report must equal the independent aggregate of what each input contains. Partial: the theorems cover every "
        "interleaving of the model; that the OS only produces interleavings of these steps is the crossbeam/std contract."),
  note=COMMON_NOTE + "Modelled, not verified: crossbeam bounded channel (FIFO, send blocks iff full and fails iff no "
       "receiver is left, recv blocks iff empty), thread join, the result-map mutex. Real schedules are sampled, the "
       "theorem carries the all-interleavings claim.",
  technique="Lean 4 invariant proofs over a transition-system model + trace validation of the hooked binary against the model + end-to-end differential oracle",
  design="6.C02"),
 "C07": dict(
  text=("Proof: for the repaired code (main drops its Receiver) no reachable non-terminal state of the Pipeline model "
        "is stuck, for every n >= 1, item list, fault environment (rejects, worker deaths up to all workers) and "
        "interleaving; every run has at most 3*items+6n+4 steps; and a closed witness that the original code deadlocks "
        "(n=1, four items, the first kills the worker). Tie: fault injection through the cfg hook on the real binary "
        "(rejects and panics at chosen inputs, all-workers-die scenarios with more queued items than slots): must "
        "terminate within the limit, exit non-zero iff a worker died, otherwise report exactly the aggregate of the "
        "non-rejected inputs, and the event log must be a run of the model with those faults."),
  note=COMMON_NOTE + "Modelled, not verified: crossbeam channel disconnection semantics, panics unwinding a worker "
       "thread drop its Receiver, process::exit. Parser non-termination is C14's subject, not modelled here.",
  technique="Lean 4 progress + termination-measure proofs over the transition system, deadlock witness by decide, fault-injection trace validation",
  design="6.C07"),
 "C05": dict(
  text=("Proof: byte-level round trip - for every result set in the writer's domain (unique keys, u64 counts, u32 "
        "line numbers, names/paths without line terminators, names valid UTF-8) the bytes written by the lcov writer "
        "model printLcov (TN, SF, FN, FNDA, FNF/FNH, one BRDA per slot, BRF/BRH, DA, LF/LH, end_of_record, decimal "
        "numbers) are read back by the reader model with branch parsing on to one record per file, in order "
        "(C05_roundtrip_bytes), each carrying the same line counts, branch vectors, start lines and executed flags "
        "(C05_roundtrip_same_data); record-level round trips also for records re-sorted by other tools; k+1 round trips "
        "= 1 (induction on k). Tie: printLcov vs output_lcov byte for byte (sets with <= 1 function per file, hash "
        "order is not modelled), parse_lcov vs Lcov.parse on every written report, in-process "
        "parse_lcov(output_lcov(rs)) = rs incl. 2^64-1 counts and non-ASCII names, second export = first incl. summary "
        "lines, CLI chains r1 -> r2 -> r3 with -s/-p/--ignore/--keep-only/--filter."),
  note=COMMON_NOTE + "Hash-map iteration order of functions is not modelled (any order is covered by C04's fidelity "
       "theorem); rewrite_paths idempotence is exercised through the CLI chains only (C11 models it).",
  technique="Lean 4 byte-level writer/reader round-trip proof + byte-for-byte differential tie + round trips on the implementation (in-process and CLI chains)",
  design="6.C05"),
 "C06": dict(
  text=("Proof: for every shard tree (any partition, any nesting depth) whose inner nodes aggregate (C01 merge) and pass "
        "the result through any observable-preserving round trip, the result has the same observables as the direct "
        "aggregation of any permutation/grouping of the same inputs (C06_sharding, from merge congruence and "
        "C01_grouping_invariant). The round-trip hypothesis is what C05 establishes for lcov. Tie: CLI shard trees of "
        "depth 1-3 over 2-8 .info/.xml inputs against the single run, with and without --branch, plus the direct "
        "report against the independent aggregate."),
  note=COMMON_NOTE + "The round-trip hypothesis is discharged by C05 at record level and checked at byte level. Known "
       "finding C06-jacoco-branches-without-branch-flag.",
  technique="Lean 4 proof by tree induction over the C01 algebra + CLI differential oracle (sharded vs direct)",
  design="6.C06"),
 "C19": dict(
  text=("Proof: for every temp dir, every entry name that passes the enclosure test (relative, never climbing above "
        "its start) and every renaming of its last component (<stem>_<n>.<ext>), the destination tmp.join(name) resolves "
        "below the temp dir (C19_enclosed_stays_in_tmp, by induction over path components); closed witnesses that "
        "un-enclosed and absolute names escape (the zip-slip defect repaired by a fix: commit). Tie: the zip crate's "
        "enclosed_name vs the model on generated names; sandbox runs of the real binary on hostile archives, symlinked "
        "directory inputs, hostile recorded source paths and all output types with a full before/after snapshot: every "
        "change must lie under the output path, the temp dir must be gone, inputs unchanged. Partial: kernel path "
        "resolution/symlink following and 'grcov writes nowhere else' are checked by the snapshots, not proved."),
  note=COMMON_NOTE + "Modelled, not verified: lexical `..` resolution stands for the kernel's (no symlinks inside the "
       "temp dir); tempfile::tempdir cleanup; the zip crate's enclosed_name (tied).",
  technique="Lean 4 proof over a path-component model + sandbox file-system snapshots around CLI runs",
  design="6.C19"),
 "C16": dict(
  text=("Proof (13 theorems, all full strength, for all option subsets, all sources as per-line match bits and all "
        "coverage records): line data of line n is removed iff n matches the line marker or lies in a start-inclusive / "
        "stop-exclusive line region (C16_lines), the same for branch data (C16_branches), the two dimensions are "
        "independent (C16_independent, C16_four_outcomes), the record loses exactly the listed keys and nothing else, "
        "no options or an unreadable source leave it unchanged. Tie: the real FileFilter::create and rewrite_paths on "
        "~36k cases per quick run (all <=2-line texts x 64 option sets exhaustively, random LF/CRLF/UTF-8 texts over four "
        "regex sets, unreadable sources), with an independent Rust re-statement of the rule on every case. The defect "
        "found (single-line marker ignored inside a region of the other kind) was repaired by fix: commit c7806a2."),
  note=COMMON_NOTE + "Modelled, not verified: regex::is_match as per-line bits, the LF/CR line splitter, "
       "read_to_string as a Boolean; sources < 2^32 lines; the path plumbing of rewrite_paths around the removal loop is "
       "exercised, not modelled.",
  technique="Lean 4 proof over a model of the two-flag single pass + exhaustive small-scope and random differential correspondence",
  design="6.C16"),
 "C20": dict(
  text=("LLVM half, proof over the LlvmTools model with the tools as parameters: the lines of the merge tool's stdin "
        "are exactly the profile list (each path once), one export result per binary whose export succeeded, a failing "
        "export never removes another binary's result, and each report entry is the C01 aggregation of exactly the file "
        "records of the successful exports. Tie: recording stand-ins for llvm-profdata/llvm-cov under --llvm-path over "
        "generated layouts (profiles in dirs/zips/plain args; nested binary trees with ELF-headed executables, decoys, "
        "failing binaries): their logs and the report vs the model and the independent aggregate. GCC half (checked, "
        "not provable: an external program): generated C programs, gcc --coverage, 0-3 runs, grcov through real gcov "
        "with 1 and 3 threads vs an independent reader of `gcov -b -c` text (per-line counts, function executed flags)."),
  note=COMMON_NOTE + "gcc/gcov 12 are reference oracles, never modelled; llvm-profdata/llvm-cov are replaced by "
       "recording stubs; find_binaries' directory walk (ignore crate, infer::is_app) is exercised, not modelled.",
  technique="Lean 4 decision-logic theorems over a tool-parametric model + recording-stub differential runs + toolchain cross-check (gcc/gcov)",
  design="6.C20"),
 "C09": dict(
  text=("Proof (25 theorems, all full strength). Text form: for every well-formed report (any record order, CR*LF "
        "terminators, '+'/leading zeros, names with commas) Gcov.Text.parse (render r) = ok (semText r) at byte level, "
        "per-record lemmas, negative => 0, count >= 2^64 => Err(Parse) after any well-formed prefix, every accepted count "
        "fits u64 and final newline optional for every byte string, branch vector in record order, last record wins, "
        "lcount-less sections omitted. JSON form: for every well-formed document Json.toResults (toJson d) = ok (semJson d) "
        "at value-tree level, deserialize_counter (integer as is, float 0..2^64 truncated/saturated, no wrap), files without "
        "lines omitted, key-order invariance. Robustness: C09_text_never_panics (every byte string) and "
        "C09_json_never_panics (every value tree and reader-layer failure). Tie: the real parse_gcov/parse_gcov_gz on "
        "generated .gcov and .gcov.json.gz files vs the model and vs independent Rust semantics, plus malformed streams."),
  note=COMMON_NOTE + "Modelled, not verified: flate2 and serde_json's text-to-value layer (the model starts at the value "
       "tree), serde_json float reading (exercised on exactly representable literals), File::open failure and read_until "
       "I/O errors, from_utf8_unchecked on non-UTF-8 input (never generated).",
  technique="Lean 4 proofs over byte-level (text) and value-tree (JSON) models of the gcov readers + differential correspondence + independent semantics oracle",
  design="6.C09"),
 "C14": dict(
  text=("Proof: for EVERY byte string the lcov byte machine returns a result or an error value, never a panic "
        "(C14_lcov_never_panics, C14_lcov_result_or_error; a fold, hence one step per byte), truncation = a prefix run; "
        "JaCoCo: every event sequence terminates with fuel 2*events+1 (C14_jacoco_always_terminates, from C10); gcov text "
        "and JSON: C09_text_never_panics / C09_json_never_panics (audited by the C09 check). Not covered by a theorem: the "
        "gcno/gcda binary reader (tied by C15/C08 at CFG level, measured here) and the time/memory of the Rust code, which "
        "are MEASURED: every prefix (sampled on quick, all on thorough) of every corpus file, single-word substitutions "
        "by boundary values in gcno/gcda, single-token substitutions in text inputs and random multi-point corruptions "
        "run in a child process under RLIMIT_AS = 2 GiB and a wall-clock limit; the outcome must be ok or err; lcov cases "
        "are tied to the model; a truncated gcda must give an error or the result of one of its record prefixes."),
  note=COMMON_NOTE + "Known findings C14-lcov-branch-number-alloc and C14-jacoco-branch-vector-alloc (a number in the "
       "input is an allocation size). Stack depth of the recursive gcno propagation and the exponential cycle search are "
       "outside every model (DESIGN section 7 item 12); the allocator and the kernel's limits are trusted.",
  technique="Lean 4 invariant proofs (no panic state reachable, termination) over the reader models + exhaustive/sampled truncation and substitution fault enumeration in a resource-limited child process",
  design="6.C14"),
 "C18": dict(
  text=("Proof (19 theorems) for all byte strings: the escape tables of quick-xml (escape, as used by push_attribute and "
        "BytesText::new), serde_json and Tera are inverted exactly by an XML/HTML entity reader and a JSON string reader; "
        "escaped output contains no raw < > \" ' (no byte below 0x20 for JSON); every & starts an emitted entity; hence an "
        "attribute, text or JSON-string scanner started after the opening delimiter returns exactly the name and the "
        "writer's own continuation (XML attribute scan under the property's no-TAB/LF/CR guard). Breadcrumb link and item "
        "for every prefix option and name; index row links relative for every name without prefix. One _partial about "
        "configuration (a --abs-link-prefix without '/' or ':' concatenated with a directory name). Tie: the real escape "
        "routines and Tera row template byte for byte on ~4000 strings, reader models vs quick-xml/serde_json parsers on "
        "~3000 inputs, ~95 whole report sets through the five real writers read back by expat/json/html.parser and "
        "compared with the names, a benign twin and the link-scheme rule."),
  note=COMMON_NOTE + "quick-xml, serde_json and Tera are modelled as escape tables and tied at run time; Python's expat, "
       "json and html.parser are independent readers; that grcov's writers route every name through those routines is "
       "checked on generated reports, not proved; c++filt supplies expected demanglings.",
  technique="Lean 4 proofs over escape/scan models + byte-for-byte differential ties + independent parsers on whole reports",
  design="6.C18"),
 "C03": dict(
  text=("Proof (12 theorems) over the Writers model for all line maps with counts up to 2^64-1: covdir, coveralls and "
        "html carry line i+1 at position i - the count itself or the not-instrumented marker, never confused "
        "(C03_entry_faithful), no instrumented line dropped; coveralls branch quadruples rebuild every vector (C05); "
        "cobertura lists exactly the instrumented lines with their hits and conditions; ActiveData covered/uncovered "
        "lists partition the lines by count. Cobertura branch fidelity is proved under the guard the code forces and "
        "refuted without it (known finding C03-cobertura-branch-without-line). The byte layer (serde_json, quick-xml, "
        "Tera, tabled) is trusted and read back: every writer and option variant (lcov, coveralls/+, covdir, ade, files, "
        "markdown incl. missed ranges, cobertura/pretty, html with a generated source tree) is decoded by independent "
        "readers and must equal the projection of the results the format carries; array encodings are tied to the model."),
  note=COMMON_NOTE + "Third-party serialisers below tree level are trusted; demangling is off in the generated sets "
       "(an opaque String -> String); precision variants are C13's subject.",
  technique="Lean 4 proofs over position-encoding models + independent decoders on every writer's real output",
  design="6.C03"),
 "C10": dict(
  text=("Proof (15 theorems, all full strength) over an event-level model of parse_jacoco_xml_report: for every "
        "well-formed serialisation (any class/sourcefile interleaving, attribute order, extra attributes and elements, "
        "escaping, empty or start/end tags) of every report, parse returns exactly sem of the report; element order and "
        "ignored content are irrelevant; the parser terminates on EVERY event sequence with fuel 2*events+1 and end of "
        "input inside an element is a Parse error (after fix 34e25d5); error kinds; the is_jacoco sniff is exactly "
        "'marker within the first 256 bytes' (after fix 82d1c8b). Tie: the real parser on ~6000 generated reports per "
        "quick run (well-formed, mutated, truncated), the independent Rust sem on every well-formed case, quick-xml's "
        "tokenizer cross-checked per case."),
  note=COMMON_NOTE + "Modelled, not verified: the quick-xml tokenizer (bytes to events), UTF-8 decoding of names, "
       "hash-map order (results compared sorted). Known finding C14-jacoco-branch-vector-alloc.",
  technique="Lean 4 proofs over an event-level parser model with fuel + differential correspondence + independent semantics oracle",
  design="6.C10"),
 "C11": dict(
  text=("Proof (18 theorems) over an executable model of rewrite_paths/normalize_path/is_covered with the file system "
        "as a finite tree parameter, for all configurations, file systems and maps: selection-iff, ignore/keep and "
        "covered/uncovered partitions (per key and as multisets), data pass-through, the is_covered rule, prefix removal, "
        "the escape criterion of normalize_path, normal form of the absolute path, and relative-under-the-source-dir "
        "(full strength after fix 52345c0). Normal form of the relative path is refuted by a closed witness and proved "
        "under its guard (known finding C11-mapping-backslash). Tie: the real rewrite_paths, normalize_path, std::path "
        "and globset against the model on ~16.7k cases per quick run over generated trees and all option combinations."),
  note=COMMON_NOTE + "globset (subset literal/?/*/**) and std::path are modelled and compared on every run; the file "
       "system is a finite symlink-free tree parameter; Java/Kotlin partial paths, exclusion markers (C16) and the CLI "
       "wiring are outside the model.",
  technique="Lean 4 proofs over a path/glob/rewrite model with a file-system parameter + differential correspondence over generated trees",
  design="6.C11"),
 "C12": dict(
  text=("The full uniqueness statement is proved FALSE of the code (C12_unique_false, five-spelling witness replayed on "
        "rewrite_paths; known finding C12-respelled-duplicates). Proved: uniqueness under either guard (keys already "
        "normal without path options; files existing under a clean source dir canonicalised by add_results), one "
        "add_results entry per canonical path, totals count once under uniqueness (and the closed witness that they do "
        "not otherwise). Tie: add_results -> rewrite_paths -> output_covdir in-process against the model; per-directory "
        "covdir sums checked on the real JSON."),
  note=COMMON_NOTE + "FS assumptions as in C11; in-process only.",
  technique="Lean 4 refutation by closed witness + guarded uniqueness proofs + differential correspondence",
  design="6.C12"),
 "C13": dict(
  text=("Proof (29 theorems; 25 full strength) for every result set and directory tree of any depth over the Stats "
        "model of the lcov, covdir, cobertura, html, markdown and ade writers: per-file totals equal the counts of the "
        "listed records, every directory/package/global total is the sum of its children up to the root, covered <= "
        "total, covered + missed = total, exact-rational rates in [0,1]/[0,100] with each writer's zero-total convention "
        "(markdown after fix 6c25d0d). Two statements are false of the code and proved false from closed witnesses with "
        "_partial theorems (known findings C13-ade-null-zero-lines, C13-html-root-dir-replaces-index). Agreement of "
        "printed figures with the exact rate within the printed precision is checked on every run, not proved."),
  note=COMMON_NOTE + "Rust floating point and the third-party serialisers are not modelled; html sum theorems assume "
       "distinct (directory, name) pairs (C12); line numbers >= 1 for covdir.",
  technique="Lean 4 proofs (tree induction, exact rationals) over a model of the summary computations + decoded-report differential oracle",
  design="6.C13"),
 "C17": dict(
  text=("Proof (17 theorems) over a Producer model on abstract layouts: C17_items_exact (item multiset = closed form of "
        "the artifact multiset), outcomes incl. 'No input files found', gcno x gcda pairing, orphans, gcda-only, decoys, "
        "the .info/.xml sniffing rules exactly (after fix 82d1c8b), path mapping. Packaging and argument-order invariance "
        "are proved _partial under the guard that gcno files sharing a (stem, llvm) key have one content; a closed "
        "witness shows the guard is necessary (known finding C17-gcno-same-stem-last-wins). Tie: the real grcov::producer "
        "on dir/zip/plain layouts of generated artifact multisets with exact item comparison, layout A vs layout B, and "
        "CLI runs for report equality."),
  note=COMMON_NOTE + "File system, walkdir, zip, symlink/hard-link extraction are exercised, not modelled; hash-map "
       "iteration order up to permutation; non-enclosed zip names are outside the model (skipped since 5f37686).",
  technique="Lean 4 proofs over an abstract-layout producer model + differential correspondence on real dir/zip/plain layouts",
  design="6.C17"),
 "C15": dict(
  text=("Proof: 12 theorems (all full strength, for every CFG, well-formed or not) about Gcno.compute (model of "
        "read_gcda/count_on_tree/add_line_count/finalize): result structure is a function of the notes; no gcda => all "
        "zero; any permutation of an accepted gcda list gives the same result; k+1 copies give exactly (k+1)x line counts "
        "with the same flags and branches, through propagation and the cycle search; executed <=> first arc count > 0; "
        "version/checksum/function-checksum mismatches are never accepted. Tie: Gcno::compute and the {:?} state vs the "
        "model at record and byte level on generated notes and data, the /repo/test corpus and corrupted files; the laws "
        "are also evaluated on the implementation itself."),
  note=COMMON_NOTE + "Harness gcno/gcda encoder and independent decoder are trusted; HashMap order modelled as "
       "first-insertion order; u64 overflow is a panic (overflow checks on); u32 runcounts not modelled; stack depth of "
       "the recursive Rust is outside the model.",
  technique="Lean 4 proofs (additive-increment algebra, simulation under a scaling relation) over a record-level model of the gcno/gcda reader + differential correspondence at record and byte level",
  design="6.C15"),
 "C08": dict(
  text=("Proof: flow conservation - if the on-tree arcs plus the virtual exit->entry arc form a forest (a checkable "
        "certificate, proved sound) and the gcda holds a conserved flow, count_on_tree recovers the flow on every arc and "
        "every block counter is the inflow; instrumented lines come from the notes only; executed <=> entry arc positive; "
        "a single-block line gets its block's count (9 theorems, all full strength). CHECKED, not provable (an external "
        "program): equality with llvm-cov-14 gcov on generated C programs (clang-14 --coverage, 0-4 run profiles, merged "
        "and per-run gcda) and generated LLVM-like notes, and the multi-block line/cycle rule. Known findings "
        "C08-single-block-line-outflow and C08-entry-arc-zero-function-zeroed (LLVM 14 records flow-inconsistent counters "
        "for a dropped critical-edge arc)."),
  note=COMMON_NOTE + "clang-14 and llvm-cov-14 are reference oracles, never modelled; the harness's gcov text reader "
       "and gcno encoder/decoder are trusted.",
  technique="Lean 4 proof of flow recovery over a spanning-forest presentation with a sound executable certificate + toolchain cross-check against llvm-cov gcov",
  design="6.C08"),
}

PENDING_REASON = "not claimed in this revision: model and check still being built (see DESIGN.md section 10)"

# ---- session 3: what was added on top of the texts above (appended to `text`); `note_sub` replaces
# stale sentences of the note; the number of audited theorems is read from statements.lock ----
EXT = {
 "C01": dict(add="Added: N-input closed forms (C01_branches_nary: length = longest input vector and slot i taken iff taken in some input; C01_functions_nary: present iff named by some input, executed iff executed in some input) for every order and grouping."),
 "C02": dict(add="Added: the merge is refined into parsed / lock / mergeEntry / unlock steps with a mutex (C02_mutual_exclusion, C02_writes_are_whole_batches, C02_final_map_is_fold_of_batches: the map written entry by entry equals the fold of add_results over the batches in lock order), fault steps for a worker dying at any point (also idle) and the producer dying, and the composition with the aggregation model C01: every entry of the result map of every fault-free run is observably the entry of a single sequential pass over the listed inputs (C02_report_is_aggregate, _schedule_independent, _without_rejected, _start_when_inputs_agree). Trace validation now uses lock/unlock hook events (overlapping or split lock sections are rejected) and a capacity bound (at most 3N announced-but-unreceived items), with runs that actually fill the queue."),
 "C03": dict(add="Added (document level): the Cobertura document (packages, classes, methods by the start-line range rule, lines, conditions, totals) and the ActiveData records (CobAde), the coveralls(+) document, the complete covdir document incl. the children map of into_json, files, markdown rows and missed ranges, the html page set, rows for ARBITRARY source bytes (lossy decoding + str::lines) and index rows (Docs), each with decode-after-write theorems and `_false`/`_partial` pairs with closed witnesses for every guard; byte level: quick-xml's writer for the Cobertura dialect (CobBytes: xmlParse (xmlSerialize t) = some t, report bytes decode to the projected results) and serde_json's compact writer (JsonBytes: jsonParse (jsonSerialize j) = some j), both tied BYTE FOR BYTE to the real output and read by expat / Python json as independent readers; the CLI glue of main.rs (Main: output dispatch, to_file_name, sorting, writer parameters) tied as real binary = library(plan(opts)).",
            note_sub=("Third-party serialisers below tree level are trusted;", "quick-xml's and serde_json's writers are modelled and tied byte for byte for cobertura, covdir, coveralls and ActiveData; Tera (html) and tabled (markdown) stay trusted below the fragment level;"),
            technique="Lean 4 proofs over document-tree and byte-level writer models (decode-after-write, parse-after-serialise) + byte-for-byte / document-for-document differential ties + independent decoders (expat, Python json, html.parser) on every writer's real output"),
 "C04": dict(add="After fixes 08517d5 and d06d7c1 the full statement C04_fidelity holds without guard: for every list of well-formed sections (any record order, FNDA before or after FN, DA checksum fields, LF or CRLF, branch parsing on or off) parse (render secs) = ok (secs.map (sf, sem)), with an order-free function semantics; C04_fnda_without_fn_rejected; names: validUtf8 bs -> utf8Lossy bs = bs for the full RFC 3629 grammar (C04_names_preserved). Known finding C04-lcov2-fn-end-line (lcov 2.x FN:<start>,<end>,<name>) is witnessed on every run.",
            note_sub=("Known finding C04-fnda-before-fn.", "Known finding C04-lcov2-fn-end-line (outside WellFormed).")),
 "C05": dict(add="Added: C05_second_export_equals_first (printLcov (roundtrip rs) = printLcov rs byte for byte, hence the same summary lines), C05_iterate (any number of rounds), preservation of the writer's domain by a round; the rewrite side: C05_rewrite_idempotent_stmt is FALSE (three closed witnesses = known findings C05-relative-prefix-restripped, C05-source-dir-name-restripped, C05-prefix-behind-dotdot-restripped) and proved under exactly the guards they violate (C05_rewrite_idempotent_partial, _plain_partial, C05_rewrite_twice_partial), tied by applying the real rewrite_paths twice."),
 "C06": dict(add="Added: report level and byte level - for every tree of shards over lists of file records, writing and parsing the lcov bytes at every inner node succeeds and the final parse is literally the direct aggregation (C06_sharding_reports_bytes), observably equal for every permutation/grouping of the leaves (C06_sharding_reports); the --branch-off variant is the `_false`/`_partial` pair behind known finding C06-jacoco-branches-without-branch-flag."),
 "C07": dict(add="Added: fault steps workerDies (any point, also idle) and prodDies in the transition system; C07_no_deadlock and C07_runs_are_finite re-proved for it (bound sum(size x + 8) + 6n + 4, no n >= 1 hypothesis); C07_no_death_exit_zero (without a fault step and without a die fate every exit status reached is 0 - the converse of dead-worker-nonzero-exit, without which the report theorems could be vacuous), C07_dead_producer_nonzero_exit, C07_poisoned_nonzero_exit, C07_report_without_rejected. Fault injection now includes idle deaths (one, several, all workers) and producer deaths (before the first, a middle and the last send)."),
 "C08": dict(add="Added: C08_line_count_single_block_end_to_end (from gcda lists through addGcdas, stop, addLineCount, mergeLines, finalize: a line owned by one block is reported with that block's flow; k+1 runs give (k+1) times) and the repair of a model/code mismatch found by review (a function with several BLOCKS records restarts block.no; generators now produce it)."),
 "C09": dict(add="Added: C09_json_unknown_keys_irrelevant (keys gcov 13/14 add, at every level and position), key-order independence lifted to toResults, a float counter is accepted iff 0 <= v < 2^64 (after fix 5cfb47a: 2^64 rejected), gcov 8 three-field lcount is a parse error, NodupKeys of branch maps; the `never_panics` theorems are documented as true by construction with a site-by-site reading of the Rust."),
 "C10": dict(add="Added: an allocation outcome (cb + mb above a cap = the capacity-overflow panic / allocation abort; fidelity under the bound), C10_repeated_method_last_wins and C10_fidelity_overloads (what the code does for overloaded methods - outside the property's quantifier, recorded as an observation), C10_fidelity_lines_and_branches without any method-name guard, C10_missing_attribute_outcomes (which missing attributes reject the report)."),
 "C11": dict(add="Added: the Java/Kotlin partial-path lookup inside the model (rewritePathsJ with the walk order as a parameter; conservative extension theorem, candidate characterisation, unique candidate / unique suffix, selection-iff and partitions restated, order dependence witnessed; the --ignore/--keep-only partition is FALSE with the lookup: known finding C11-partial-path-ignore-prunes-candidates); after fix 568afd2 the normal form of the reported path holds WITHOUT guard (C11_normal_form, C11_no_backslash, C11_reported_is_final); relative-under-source-dir carries a `_false`/`_partial` pair (known finding C11-backslash-name-abs-rel-differ); the CLI wiring of main.rs (filter option, prefix default, argument positions of rewrite_paths and FileFilter::new) is modelled and tied to the real binary (C11_main_*).",
            note_sub=("Java/Kotlin partial paths, exclusion markers (C16) and the CLI wiring are outside the model.", "exclusion markers are C16's subject.")),
 "C12": dict(add="Added: the sharp guard - without source dir and mapping the report has pairwise distinct paths IFF normalizePath after prefix removal is injective on the reported keys (C12_unique_iff_no_source, _unfiltered), which characterises the finding exactly; a second source of duplicates (C12_prefix_collapse_witness, known finding C12-prefix-collapses-distinct-keys) with its guarded theorem; C12_canonical_record_is_merge (the single record IS the C01 merge of all spellings' records); covdir root totals count each file once."),
 "C13": dict(add="Added: the sums are about the REPORT (the children listed in covdir's JSON are exactly the internal children under the no-collision guard, with the closed witness a + a/b), the printed rate as an audited predicate printedOK (tolerances per format in Lean; every figure the harness accepts is re-judged by the model), rates finite/in range/monotone, line 0 behaviour per writer; defect repaired: the badge truncated an f64 quotient (fix 5a7a2d7) and the harness tolerance that had hidden it is removed."),
 "C14": dict(add="Added: the gcno/gcda reader is now covered by theorems for ALL byte strings: the byte layer, read_gcno, read_gcda, build, count_on_tree and finalize never crash except by the recorded u64 overflow (C14_gcno_bytes_never_crash) and never diverge (C14_gcno_bytes_terminate, via the Johnson stack invariant of look_for_circuit); a truncated gcda gives an error or exactly the state of a prefix of its complete records (C14_truncated_gcda, _records, _counters); record streams, strings, arcs, line items and (after fix ed627d5) the block table are linear in the input.",
            note_sub=("Stack depth of the recursive gcno propagation and the exponential cycle search are outside every model (DESIGN section 7 item 12);", "Stack depth of the recursive gcno propagation and the running time of the cycle search are measured, not bounded by a theorem;")),
 "C15": dict(add="Added: byte-level corollaries (computeBytes = computeRecs whenever the buffers can be read; structure, no-gcda, order and k-copies laws over BYTES), executed iff entry flow > 0 under the explicit shape condition EntryFirst (closed witness that it is needed), a per-function checksum mismatch is an error wherever the bad gcda stands (below the overflow guard), record-level termination."),
 "C16": dict(add="Added: line splitting inside the model (split at LF, CR stripping, exactly one final LF dropped after fix f854858): C16_only_real_lines (whatever is removed is a line of the source, for every non-empty text), C16_phantom_line, C16_empty_file; the oracle no longer has a don't-care key; the whole filter list is computed from the source text by the model and tied to FileFilter::create."),
 "C17": dict(add="Added: the path-mapping artifact in the outcome (invariance when at most one distinct map exists; known finding C17-two-path-mappings-first-wins with closed witness), argument classification (.zip suffix test before any file-system access, directory, plain file, the two panics) tied on 147 argument shapes, hidden directories / dot files / ignore files inside directory inputs."),
 "C18": dict(add="Added: the XML readers are the strict conforming ones (line-end normalisation, control characters rejected; guards printable/textSafe with closed witnesses, agreeing with the expat-tied CobBytes reader), every sink of the HTML templates as a fragment theorem (title, breadcrumb, row link and text, source line: the scan returns exactly the name and the fragment's markup skeleton does not depend on the name) tied byte for byte to the rendered pages, whole-document theorems for Cobertura bytes and JSON bytes (C18_cobbytes_*, C18_json_*: number of elements/attributes/objects/keys independent of every name)."),
 "C19": dict(add="Added: EVERY write/delete destination of a run is modelled (Confine.dests: html pages, directory and global indexes, badges, coverage.json, resources, worker directories, gcov outputs and their removal, the merged profile and its removal, report files, the log) and proved confined to the temp dir, the output location or the log file for all inputs (C19_all_dests_confined), the html part composed with C11's normal-form theorem (full strength after fix 568afd2, which repaired the escape found here), C19_inputs_untouched, C19_removals_inside_worker_dirs; tied by comparing the set of created files of html and -o runs with dests, and by snapshots of LLVM-path runs with profiles as plain arguments.",
            technique="Lean 4 proofs over path-component and destination models (all write/delete sites) + sandbox file-system snapshots and created-file comparison around CLI runs"),
 "C20": dict(add="Added: the worker loop body of consumer (dispatch table, gcov working-directory protocol with the SingleFile/MultipleFiles latch, rename_single_files), the gcov interface (argv, version parsing, output extension switch at 9.1.0) and find_binaries (entries file/dir/symlink, hidden and ignored entries) are modelled with the tools as parameters: isolation and every-assignment at full strength under the gcov tool contract (after fix 2cb069b), directory theorems per mode, no-panic `_partial` with a closed witness per guard, C20_findbin_deterministic (after fix 647649e), C20_findbin_every_executable `_false`/`_partial` (known finding C20-findbin-hidden-or-ignored-skipped); tied by running the real consumer in child processes with a scripted gcov and the real find_binaries on trees with symlinks.",
            note_sub=("find_binaries' directory walk (ignore crate, infer::is_app) is exercised, not modelled.", "the ignore crate's rule language and infer::is_app are parameters of the find_binaries model.")),
}


# ---- session 4: appended after the session-3 addenda ----
EXT4 = {
 "C01": "Session 4: C01_report_monotone (over add_results: for any batch and key spelling every file already in the map is still there with nothing removed, lowered, shortened or cleared); an oracle on the real add_results maps independent of the model (each entry = closed-form aggregate of all records filed under its canonical key), with directed batches in which a record saturates and a later record of the same batch hits an existing key.",
 "C02": "Session 4: one whole run is a Lean function RunAll.run (lcov/JaCoCo bytes -> result map -> rewrite_paths with exclusion markers -> ordering -> lcov, files, covdir, coveralls(+), cobertura or ActiveData bytes), a composition of the component models tied to the real binary byte for byte; C02_end_to_end composes Producer.run (C17) with the pipeline and the report: permuted path arguments, any packaging into directories/zips/plain files, any thread count and schedule give observably the same result map (`_false` = the C17 same-stem finding); after fix 73c9152 (functions listed in name order) sorted report types are byte-identical under argument permutation and any merge order (C02_run_perm_sorted_bytes, C02_run_schedule_sorted_bytes) with no hypothesis on hash-map order; the stream uses real layouts (2-3 directories, 1-2 zips, an LLVM gcno/gcda pair, -s trees) and a byte oracle on pairs of real runs.",
 "C03": "Session 4: the HTML report is modelled BYTE FOR BYTE (Tera's rendering of the four templates, IEEE-exact percentages, page set and overwrite order) with strict page readers proved to recover every line number, count (uninstrumented is never 0; 2^64-1 exact), source text, name, link and covered/total pair for every context (C03_htmlb_*), tied on every .html file of generated sites; every writer model lists functions by `sortByName` (fix 73c9152; no order is read off the real output) and takes the demangler as a parameter `dm`: decode(write dm rs) = rs with renamed functions when dm is injective on each file's functions, closed `_false` witness _Z3fooi/_Z3food (known finding C03-demangle-collapses-overloads), streams with demangling ON and names that really demangle; the html output as a file system (page/directory collisions, a directory named index.html: `_false` + `_partial`, two findings); row links resolved as URLs (finding C03-html-links-not-urlencoded); several types on one stdout (finding).",
 "C04": "Session 4: lcov 2.x exception branches (BRDA:<line>,e<block>,<branch>,<taken>) are in the AST and, after fix 66f7aba, inside the unguarded C04_fidelity (C04_exception_flag_ignored: read byte for byte like the record without the flag).",
 "C05": "Session 4: the writer lists FN/FNDA in name order (Cli.sortFns; C05_output_independent_of_table_order), byte tie on every section with no order read from the output; the CLI theorems are about Cli.runJ (the run WITH the Java/Kotlin partial-path lookup); C05_rewrite_idempotent_sharp (sharp guards hrel/hguess/habs); a fourth non-idempotence recorded (C05-abs-prefix-below-source-restripped) with closed witness; `--branch` off fixed point; chains with respelled paths, absolute -p, --filter, --ignore-not-existing and exclusion markers, each moved record explained by exactly one finding.",
 "C06": "Session 4: C06_cli_sharding_partial holds for any -s/-p applied at every stage (the sourceDir = none guard is gone), C06_cli_sharding_source_partial; lcov and JaCoCo inputs naming the same file; the matcher of C06-jacoco-branches-without-branch-flag is exact (sharded branches = OR over the JaCoCo inputs that are direct children of the root, none elsewhere); finding C06-partial-path-resolved-shard-listed-twice.",
 "C07": "Session 4: death of a worker while it holds the result-map mutex is tied (hook panic_in_merge: event died_in_merge, silent lock-when-poisoned move, the realisation must end with the real exit status), C07_no_write_after_poison, C07_lock_after_poison_dies; hung runs are bounded (20 s for the first, 4 s afterwards, stop after three) so a hang is a verdict within about a minute.",
 "C08": "Session 4: lines that live in several basic blocks: the line count is proved to be exactly the entering part when the line's blocks carry no circuit, the entering part plus the loop minimum for exactly one simple loop, and in general between the entering part and the sum of the line's block counts; k copies of a gcda scale every line for every circuit structure; count > 0 iff some block of the line has a positive count (converse under reachability); all composed end to end with flow recovery and tied field by field to the real Gcno state and to llvm-cov on generated one-line statements; several functions per gcno (C08_line_count_is_sum_over_functions); instrumented-line theorems over the LINES records with the format >= 8 `_false` witness (known finding C08-gcno8-line-range-filter; programs compiled with -coverage-version 402*/407*/408*/800*/A93*/B01*); names decoded lossily (fix 7f9b2b3); the irreducible-cycles matcher re-implements llvm-cov's cycle cancelling.",
 "C09": "Session 4: after fix 5a9c87e the JSON spec is stated key by key independently of the reader's fold: a line's count is the clamped SUM over all its entries (template instantiations), its branch vector the position-wise OR, a function executed iff some entry with that demangled name is (C09_json_line_count, _branch_vector, _function, C09_json_repeated_line_adds_up), corpus witness = the real gcov 12 JSON of a template program; text names are the lossy decoding of their bytes for every name without CR/LF (fix 7f9b2b3); a negative function call count means executed; gzip trailing data documented and tied.",
 "C10": "Session 4: after fix ae885a6 a repeated attribute is not an error (first match for looked-up attributes, last value in the <line> loop: theorems), attribute work per element linear; after fix 276971e an undecodable sourcefilename rejects the report (C10_unreadable_sourcefilename_rejects_the_report), an absent one falls back; wrong-encoding reports tied (UTF-16 gives Ok([]): observation); childless self-closing containers generated.",
 "C11": "Session 4: globset 0.4.16's whole pattern language (classes, ranges, negation, alternation, escapes, ** anywhere, all error kinds) and the GlobSet strategy tables are inside the model (executable matcher = regex denotation, conservative over the earlier subset, selection/partition theorems re-derived, unparsable pattern = proved and tied panic; findings C11-globset-trailing-dot-path, C11-glob-escaped-comma-doublestar); the selection and partition theorems now hold WITH exclusion markers in the code's order (markers before --filter; the model had them the other way round: review item 7); C11_prefix_removed_with_source, C11_rel_nonempty_iff; after fix fdef150 a key naming a file below the source dir is not looked up as a partial path (C11_partial_existing_file_kept).",
 "C12": "Session 4: tree-shaped writers key a record by the canonical path when the reported path is absolute (model repaired: Rec.treePath); the guard is worded as 'keys that canonicalise below S' with closed witnesses that an existing file is not enough (backslash, prefix, mapping); the matcher of C12-respelled-duplicates is per file (every key that canonicalises to one path must sit in one record, otherwise an unnamed failure); Java/Kotlin stream with the real readdir order; after fix fdef150 C12_java_existing_once holds at full strength; html totals variant; finding C12-outside-source-dir-keeps-own-name.",
 "C13": "Session 4: markdown, the five badges and coverage.json are modelled byte for byte (tabled layout, IEEE f32/f64 percentage arithmetic, {:.p$}, templates) and tied byte for byte; printed percentages proved within half a unit of the last place + 2.5e-5 (markdown) of 100*covered/total for all totals and precisions; badge figure = floor(100c/t) in [0,100] from the same global totals as coverage.json; html file header vs listed rows (C13_html_file_listed under lastKey <= source lines, `_false`: finding C13-html-header-counts-unlisted-lines); html sums under duplicate paths (`_stmt/_false/_partial`, finding C13-html-duplicate-path); rounding mode per figure (printedOK2: half-even vs half-away at ties).",
 "C14": "Session 4: cost views of the four text readers (reads, map operations, copied/hashed bytes, vector slots, attribute visits): work and result size are proved linear in the input for all inputs, with three named exceptions each proved as a `_false` family + `_partial` bound under exactly the violated guard (lcov branch numbers, JaCoCo cb/mb, JaCoCo name prefixes); the real readers are tied size for size and measured on scaling families n..8n (time ratio with floor, RSS <= 16 MiB + 200*input) in a 2 GiB child; the overflow and allocation matchers accept a crash only if the model answers the same crash site / a clamped rerun is fine; CLI-level stream with non-UTF-8 names (fix 7f9b2b3); fix ae885a6 removed the quadratic attribute check.",
 "C15": "Session 4: stamp theorems over the four version bytes (C15_stamp_only_number_matters, `_false`: a 472* gcda is accepted against 402* notes: known finding C15-version-stamp-middle-char-ignored), ill-formed names and names that collide after lossy decoding generated, distinct and all-zero gcda files per stem.",
 "C16": "Session 4: end to end through RunAll.run for seven report types: the report with markers is the marker-free report minus exactly the rule-selected lines/branches, identical without marker options or readable sources; C16_then_filter: --filter covered|uncovered is decided on the data AFTER exclusion (`_false` witness for 'before'); C16_main_branch_flag_irrelevant and a CLI stream with JaCoCo input and --excl-br-* with and without --branch.",
 "C17": "Session 4: raw zip entries inside the model (the zip crate's index, canonical names, listing and lookup): after fixes 2f541c3 and 99c0f28 C17_zip_entries_exact holds at full strength (per canonical spelling the first non-directory entry with a safe name is listed, sniffed and read; respelled entries a//b, a/./b, ./a/b are used); C17_items_exact_raw; repeated/nested arguments and linked sub-directories as `_false` witnesses (findings); raw zip writer, long names, overlapping arguments in the streams.",
 "C18": "Session 4: for every context the element/attribute skeleton and the < > \" ' sequence of an HTML file or index page depend only on (branch flag, date shown, number of parents, number of rows), every & starts a Tera entity, for every page of every site (C18_htmlb_*, no guard on names or text), tied to html.parser on the real pages; 45 'hard' Unicode characters (combining marks, ZWJ, variation selectors, bidi and format characters) through every writer; C18_json_debug_quoting_rejected; row links as URLs (C18_row_link_target_false/_partial, C18_row_link_fixed); user templates are an explicit assumption.",
 "C19": "Session 4: after fix 232bfd3 the inputs are extracted below tmp/inputs: the extractions are DERIVED from the Producer model (extractsOf) and proved apart from every worker directory for every stem, number and worker (C19_extractions_apart_from_workers; the old layout kept as a closed regression witness), C19_no_write_through_link, C19_tmp_removed_last, C19_nothing_of_tmp_survives; in-process layouts compared with extractsOf, a recording gcov stub at CLI level.",
 "C20": "Session 4: llvm-profdata's list syntax is a model (parseList) and, after fix 4f2eb74, parseList (mergeStdin ps) = ps.map (1,.) under the exact guard (`_false`: newline, trailing blank, non-UTF-8: finding), tied to the REAL llvm-profdata; after fix 232bfd3 the private empty worker directory is a theorem for every input name and interleaving (C20_private_directory, C20_every_schedule), composed with C19; export-log theorems (one export per found binary per merged profile, against its own profile); multi-translation-unit gcc programs in digit-named directories with a g++ template unit at threads 1/2/3/8; content-dependent stub tools; finding C20-same-program-exported-twice.",
}


# ---- session 4, third wave (appended after EXT4) ----
EXT5 = {
 "C02": "Third wave: the whole-run model also takes LLVM-mode gcno+gcda inputs (Gcno byte model) and writes markdown, html (as a directory: every page, index, badge, coverage.json) and several -t types into -o dir (RunAll.runHtml / runMulti): each file of a multi-type run is proved to be the bytes of the single-type run (C02_run_multi_is_single_runs), tied byte for byte to the real binary on 82 runs per quick tier.",
 "C03": "Third wave: html and markdown reports of a WHOLE RUN decode, through the strict readers, to the C01 aggregate after the exclusion markers (C03_run_html_end_to_end, C03_run_markdown_end_to_end), exactly one html page per reported file with a relative path and an openable source under the html-disk guards, nothing else in the directory but indexes, badges and coverage.json.",
 "C05": "Third wave: the fixed point at whole-run level with exclusion markers, --filter, globs and any input kinds in the first run (C05_run_second_run_markers; C05_run_fixed_point_markers_partial under the sharp rewrite guards; `_false` witness: a JaCoCo input without --branch).",
 "C15": "Third wave: k copies, structure independence, gcda order and the orphan-gcno case are proved THROUGH the whole run, from gcno/gcda bytes to lcov report bytes (C15_run_k_copies, C15_run_structure_independent_of_gcda, C15_run_gcda_order_irrelevant, C15_run_orphan_all_zero), tied on runs of the real binary over directories with gcno/gcda pairs.",
 "C16": "Third wave: the six --excl-* options are PATTERNS, not bits: a Lean model of the regex crate's parser (23 error kinds, nest and size limits), is_match specification and a verified matcher (C16_regex_matcher_decides) for a stated subset (literals, classes incl. Unicode Perl and POSIX, escapes, groups, alternation, all repetitions and assertions; everything else answered `unsupported`, never guessed), tied to the real crate on generated patterns and lines, the Unicode tables on every scalar value, the binary (invalid value = exit 2); the exclusion rule is proved with patterns (C16_regex_lines/_branches/_independent), literal, anchored and LCOV_EXCL_* markers are instances, and the regex model is conservative over the substring model of the whole-run ties.",
}

# stale sentences of the session-2 texts, replaced when the manifest is generated
TEXT_SUB = {
 "C01": [("Proof: 18 theorems about", "Proof: theorems about")],
 "C04": [(" Full statement parse(render ast)=sem ast is proved per layer as described in Props/C04.lean; the remaining record kinds are covered by the spec oracle.", "")],
 "C07": [("every run has at most 3*items+6n+4 steps", "every run is finite (a bound linear in the inputs)")],
 "C11": [(" Normal form of the relative path is refuted by a closed witness and proved under its guard (known finding C11-mapping-backslash).", "")],
 "C14": [("Not covered by a theorem: the gcno/gcda binary reader (tied by C15/C08 at CFG level, measured here) and the time/memory of the Rust code, which are MEASURED:",
          "Time and memory of the Rust code are MEASURED:")],
}


# session 4: stale sentences of the notes (applied after the session-3 substitutions)
NOTE_SUB4 = {
 "C03": [("Tera (html) and tabled (markdown) stay trusted below the fragment level; demangling is off in the generated sets (an opaque String -> String);",
          "Tera's rendering of the four html templates is modelled and tied byte for byte (tabled/markdown: C13); the demangler is a parameter `dm` of the writer models whose values on the generated names are read from the real demangler;")],
 "C05": [("Hash-map iteration order of functions is not modelled (any order is covered by C04's fidelity theorem);", "Functions are listed in name order (fix 73c9152; modelled, Cli.sortFns);"),
         ("rewrite_paths idempotence is exercised through the CLI chains only (C11 models it).", "rewrite_paths inside a run is modelled by Cli.runJ and tied on the CLI chains; chains with exclusion markers or JaCoCo inputs are judged by the oracle only.")],
 "C09": [("from_utf8_unchecked on non-UTF-8 input (never generated).", "names are decoded lossily since fix 7f9b2b3 (modelled, non-UTF-8 names generated).")],
 "C11": [("globset (subset literal/?/*/**) and std::path are modelled", "globset 0.4.16 (whole pattern language and the GlobSet strategy tables; regex-automata/Aho-Corasick trusted to implement regex semantics) and std::path are modelled"),
         ("exclusion markers are C16's subject.", "exclusion markers enter the selection theorems through the file-filter parameter (their own semantics is C16's subject).")],
 "C12": [("FS assumptions as in C11; in-process only.", "FS assumptions as in C11 (finite tree with symbolic links; the Java/Kotlin walk order is a parameter read from the real readdir); in-process plus a small CLI stream.")],
 "C13": [("Rust floating point and the third-party serialisers are not modelled;", "IEEE f32/f64 arithmetic and {:.p$} are modelled for markdown, badges and coverage.json (exact), the other formats' figures are judged by the audited printedOK/printedOK2; tabled's layout is modelled for ASCII names (display width of non-ASCII text is not);")],
 "C14": [("Known findings C14-lcov-branch-number-alloc and C14-jacoco-branch-vector-alloc (a number in the input is an allocation size).", "Known findings C14-lcov-branch-number-alloc, C14-jacoco-branch-vector-alloc (a number in the input is an allocation size), C14-jacoco-name-prefix-amplification, C14-gcov-json-gzip-amplification. Cost counters correspond to Rust operations by construction of the cost views; hash-map operations are counted as O(1); time and RSS of the real readers are measured as ratios on scaling families.")],
 "C16": [("the path plumbing of rewrite_paths around the removal loop is exercised, not modelled.", "the path plumbing of rewrite_paths around the removal loop is modelled in RunAll.run (rewritePathsF) and tied to the binary."),
         ("regex::is_match as per-line bits,", "regex::is_match as per-line bits in the base theorems and as a modelled, tied subset of the regex crate in the C16_regex_* theorems (regex-automata trusted below the parser/semantics level; patterns outside the subset are declined),")],
 "C17": [("File system, walkdir, zip, symlink/hard-link extraction are exercised, not modelled;", "The zip crate's index (first place, last data for a repeated raw name), canonical entry names and the listing/lookup are modelled; the file system, walkdir and symlink/hard-link extraction are exercised, not modelled; arguments are assumed pairwise non-nested and directory inputs free of links to directories (findings);"),
         (" non-enclosed zip names are outside the model (skipped since 5f37686).", " unsafe zip names (.., absolute, NUL) are skipped (modelled).")],
 "C18": [("quick-xml, serde_json and Tera are modelled as escape tables and tied at run time;", "quick-xml, serde_json and Tera's escaping are modelled and tied at run time, whole HTML pages byte for byte; user templates given through --output-config-file are outside every theorem;")],
 "C19": [("the zip crate's enclosed_name (tied).", "canonical zip entry names (modelled, tied).")],
 "C20": [("llvm-profdata/llvm-cov are replaced by recording stubs;", "llvm-profdata/llvm-cov are replaced by recording, content-dependent stubs, and the list-file syntax is tied to the real llvm-profdata-14;")],
}

def main():
    global LOCK
    LOCK = json.load(open(os.path.join(ROOT, "statements.lock")))
    ids = [json.loads(l)["id"] for l in open(os.path.join(ROOT, "properties.jsonl"))]
    hooks = json.load(open(os.path.join(ROOT, "hooks.json")))
    checks = []
    for pid in ids:
        if pid not in CLAIMED:
            continue
        c = dict(CLAIMED[pid])
        e = EXT.get(pid, {})
        n = sum(1 for k in LOCK if k.startswith(f"Grcov.Props.{pid}."))
        text = re.sub(r"Proof \(\d+ theorems\)", "Proof", c["text"])
        for a, b in TEXT_SUB.get(pid, []):
            assert a in text, (pid, a)
            text = text.replace(a, b)
        c["text"] = f"{n} audited theorems. " + text + (" " + e["add"] if e.get("add") else "") + (" " + EXT4[pid] if pid in EXT4 else "") + (" " + EXT5[pid] if pid in EXT5 else "")
        if e.get("note_sub"):
            assert e["note_sub"][0] in c["note"], pid
            c["note"] = c["note"].replace(e["note_sub"][0], e["note_sub"][1])
        for a, b in NOTE_SUB4.get(pid, []):
            assert a in c["note"], (pid, a)
            c["note"] = c["note"].replace(a, b)
        if e.get("technique"):
            c["technique"] = e["technique"]
        checks.append({
            "property_id": pid,
            "quick_cmd": f"./check {pid} --tier quick",
            "thorough_cmd": f"./check {pid} --tier thorough",
            "evidence_file": f"/verif/evidence/{pid}.json",
            "replay_cmd_template": f"./check {pid} --replay {{path}}",
            "engine": "lean4-model+rust-correspondence",
            "level_claimed": {"category": "proof", "text": c["text"], "design_ref": c["design"]},
            "level_note": c["note"],
            "technique": c["technique"],
        })
    m = {
        "version": 1,
        "setup_cmd": "./setup.sh",
        "hooks": {
            "guard": "--cfg mozilla_grcov_verif",
            "enable": "rustflags --cfg mozilla_grcov_verif in /verif/harness/.cargo/config.toml; the harness links /repo's working tree as a path dependency",
            "baseline_off_cmd": "cd /repo && cargo test --workspace --no-fail-fast --offline",
            "source_commits": hooks["source_commits"],
            "add_only": True,
        },
        "engines": [
            {"name": "lean-model", "path": "/verif/lean", "serves_properties": sorted(CLAIMED),
             "kind_free_text": "Lean 4 models, property theorems (GrcovModel/Props), native line-protocol driver gmodel"},
            {"name": "corr-harness", "path": "/verif/harness", "serves_properties": sorted(CLAIMED),
             "kind_free_text": "Rust differential harness linking /repo's working tree: generators, oracles on the implementation, replay"},
            {"name": "check", "path": "/verif/check", "serves_properties": sorted(CLAIMED),
             "kind_free_text": "python driver: proof gate + axiom/statement audit, build gate, correspondence run, known-finding classification, evidence"},
        ],
        "checks": checks,
        "not_applicable": [{"property_id": p, "reason": PENDING_REASON} for p in ids if p not in CLAIMED],
        "notes": "See DESIGN.md. fix: commits and known findings are listed in known_findings.json.",
    }
    json.dump(m, open(os.path.join(ROOT, "MANIFEST.json"), "w"), indent=1)
    print("claimed:", sorted(CLAIMED))

if __name__ == "__main__":
    main()
