set -e
rm -rf /tmp/seedeval /tmp/seedrepo
git clone -q /verif /tmp/seedeval
git clone -q /repo /tmp/seedrepo
# build directories change under our feet when builders are at work: vanished files are fine
rsync -a /verif/lean/.lake/ /tmp/seedeval/lean/.lake/ || true
rsync -a /verif/harness/target/ /tmp/seedeval/harness/target/ || true
rsync -a /verif/harness/target-grcov/ /tmp/seedeval/harness/target-grcov/ || true
cp /verif/harness/Cargo.lock /tmp/seedeval/harness/Cargo.lock
mkdir -p /tmp/seedeval/work /tmp/seedeval/replays /tmp/seedeval/evidence
echo setup-done
