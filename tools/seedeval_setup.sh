set -e
rm -rf /tmp/seedeval /tmp/seedrepo
git clone -q /verif /tmp/seedeval
git clone -q /repo /tmp/seedrepo
cp -r /verif/lean/.lake /tmp/seedeval/lean/.lake
cp -r /verif/harness/target /tmp/seedeval/harness/target
cp -r /verif/harness/target-grcov /tmp/seedeval/harness/target-grcov
cp /verif/harness/Cargo.lock /tmp/seedeval/harness/Cargo.lock
mkdir -p /tmp/seedeval/work /tmp/seedeval/replays /tmp/seedeval/evidence
echo setup-done
