#!/usr/bin/python3
"""confirm_seed.py Cxx — re-checks a seeded change produced in /tmp/wt_cxx + /tmp/seed_out/Cxx:
the worktree diff equals patch.diff, the tree builds, the baseline tests still pass, the
demonstration fails with the change and passes without it. Then copies patch.diff, the
demonstration and a meta.json skeleton to /verif/seeded/Cxx/."""
import json, os, shutil, subprocess, sys
pid = sys.argv[1]
rnd = sys.argv[2] if len(sys.argv) > 2 else "1"
sfx = "" if rnd == "1" else rnd
wt = f"/tmp/wt{sfx}_{pid.lower()}"
out = f"/tmp/seed_out{sfx}/{pid}"
dst = f"/verif/seeded/{pid}" + ("" if rnd == "1" else f"-{rnd}")
env = {**os.environ, "CARGO_NET_OFFLINE": "true"}
def sh(cmd, cwd=None, timeout=1800):
    p = subprocess.run(cmd, cwd=cwd, shell=isinstance(cmd, str), stdout=subprocess.PIPE, stderr=subprocess.STDOUT, text=True, env=env, timeout=timeout)
    return p.returncode, p.stdout
rc, diff = sh("git diff -- src", cwd=wt)
patch = open(f"{out}/patch.diff").read()
same = [l for l in diff.splitlines() if l.startswith(('+', '-')) and not l.startswith(('+++', '---'))] == \
       [l for l in patch.splitlines() if l.startswith(('+', '-')) and not l.startswith(('+++', '---'))]
print("worktree diff == patch.diff:", same)
def run_demo():
    """returns (kind, rc, tail)"""
    if rnd != "1" and os.path.exists(f"{out}/demo.sh"):
        rc, o = sh(["bash", f"{out}/demo.sh"], cwd=wt)
        return "demo.sh", rc, o[-1500:]
    if os.path.exists(f"{out}/demo.sh") and (pid in ("C07", "C10", "C11") or not os.path.exists(f"{out}/demo_test.rs")):
        arg = wt if pid == "C10" else f"{wt}/target/debug/grcov"
        rc, o = sh(["bash", f"{out}/demo.sh", arg, wt], cwd=wt)
        return "demo.sh", rc, o[-1500:]
    if os.path.exists(f"{out}/demo_test.rs"):
        t = f"{wt}/tests/seed_demo_{pid.lower()}.rs"
        shutil.copy(f"{out}/demo_test.rs", t)
        rc, o = sh(["cargo", "test", "--offline", "--test", f"seed_demo_{pid.lower()}"], cwd=wt)
        os.remove(t)
        return "demo_test.rs", rc, o[-1500:]
    if os.path.exists(f"{out}/demo.sh"):
        rc, o = sh(["bash", f"{out}/demo.sh"], cwd=wt)
        return "demo.sh", rc, o[-1500:]
    return "none", 0, ""
rc_b, o_b = sh(["cargo", "build", "--offline"], cwd=wt)
print("build with change:", rc_b == 0)
rc_t, o_t = sh(["python3", "/verif/tools/baseline_check.py", wt])
print("baseline tests with change:", o_t.strip())
kind, rc_with, tail_with = run_demo()
print(f"demo ({kind}) with change: rc={rc_with}")
sh(["git", "apply", "-R", f"{out}/patch.diff"], cwd=wt)
sh(["cargo", "build", "--offline"], cwd=wt)
_, rc_without, tail_without = run_demo()
print(f"demo without change: rc={rc_without}")
sh(["git", "apply", f"{out}/patch.diff"], cwd=wt)
ok = same and rc_b == 0 and rc_t == 0 and rc_with != 0 and rc_without == 0
print("CONFIRMED" if ok else "NOT CONFIRMED")
if ok:
    os.makedirs(dst, exist_ok=True)
    for f in ["patch.diff", "demo_test.rs", "demo.sh", "demo.diff", "notes.md", "demo.c", "demo_output.txt"]:
        if os.path.exists(f"{out}/{f}"):
            shutil.copy(f"{out}/{f}", f"{dst}/{f}")
    meta_path = f"{dst}/meta.json"
    meta = json.load(open(meta_path)) if os.path.exists(meta_path) else {}
    meta.update({"property": pid, "demo": kind,
        "confirmed": {"worktree_diff_equals_patch": same, "builds": True, "baseline_tests": o_t.strip(),
                      "demo_rc_with_change": rc_with, "demo_rc_without_change": rc_without,
                      "commands": ["cargo build --offline", "python3 /verif/tools/baseline_check.py <worktree>",
                                   "cargo test --offline --test <demo> | bash demo.sh", "git apply -R patch.diff; rebuild; demo again; git apply patch.diff"]}})
    json.dump(meta, open(meta_path, "w"), indent=1)
sys.exit(0 if ok else 1)
