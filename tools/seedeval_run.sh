# usage: seedeval_run.sh <ids...>   (runs inside a private mount namespace)
unshare -m sh -c "mount --bind /tmp/seedeval /verif && mount --bind /tmp/seedrepo /repo && cd /verif && python3 tools/run_seeded.py $*"
