#!/usr/bin/python3
"""seed_prompt.py Cxx round [hint…] — prints the prompt given to a fresh sub-agent that is asked for a
seeded change breaking property Cxx. The prompt contains ONLY the property's text (statement,
quantifier, why tests cannot settle it, anchors) and the scratch locations; nothing about /verif."""
import json, sys
pid, rnd = sys.argv[1], sys.argv[2]
hint = " ".join(sys.argv[3:])
props = {}
for ln in open("/verif/properties.jsonl"):
    p = json.loads(ln)
    props[p["id"]] = p
p = props[pid]
wt = f"/tmp/wt{rnd}_{pid.lower()}"
out = f"/tmp/seed_out{rnd}/{pid}"
print(f"""You are helping to evaluate a verification effort for the Rust project mozilla/grcov (a CLI that parses gcno/gcda, profraw, lcov and JaCoCo coverage data, merges it, and emits lcov/cobertura/html/coveralls/… reports). You have your own scratch git worktree of the project at {wt} (a detached checkout of the current HEAD). Work ONLY inside {wt} and {out}. Never touch /repo, never look at or touch /verif, do not commit anything, do not create other worktrees.

Here is a semantic property the project is supposed to satisfy:

  id: {p['id']}
  title: {p['title']}
  statement: {p['statement']}
  quantified over: {p['quantifier']['text']}
  why the existing tests cannot settle it: {p['why_tests_cant']}
  code anchors: {json.dumps(p['anchors'].get('mechanism', p['anchors']), ensure_ascii=False)}

Your task: produce ONE realistic change to the source code under {wt}/src (the kind of edit a well-meaning contributor could make: a refactoring, an optimisation, an off-by-one, a reordered pair of statements, a dropped special case, a changed data structure, two sites that each look fine alone…) such that
  1. the project still compiles (`cd {wt} && CARGO_NET_OFFLINE=true cargo build --offline`),
  2. the existing test suite still passes: `cd {wt} && CARGO_NET_OFFLINE=true cargo test --workspace --no-fail-fast --offline` – run it FIRST on the unchanged worktree and note which tests (if any) already fail there; with your change no additional test may fail,
  3. the property above is BROKEN by the change, and
  4. the breakage needs something specific to manifest – a particular interleaving, a crash or fault at a particular point, a multi-step sequence of operations, an unusual but legal input, a particular option combination, or two cooperating sites – NOT something ordinary use would expose at once. Subtle is better than blatant; the change must not be a no-op on all ordinary inputs either: give the concrete situation in which it shows.{(' Steer: ' + hint) if hint else ''}
The sandbox has no network; use only what is installed (cargo works offline; gcc, clang-14, llvm-14 tools, python3 are present).

Also produce a demonstration that FAILS with your change and PASSES without it: either an integration test file `demo_test.rs` (it will be copied to `{wt}/tests/seed_demo_{pid.lower()}.rs` and run with `cargo test --offline --test seed_demo_{pid.lower()}`; it can only use grcov's public API: check `src/lib.rs` for what is `pub`) or a shell script `demo.sh` (run as `bash demo.sh` with cwd = {wt}; it may build and run `target/debug/grcov`; exit status 0 = property holds, non-zero = broken). The demonstration must check the PROPERTY (e.g. compare the report with what the inputs say), not the implementation detail you changed. Verify both directions yourself: run it with the change (must fail), `git stash`-free revert with `git apply -R`, run it again (must pass), re-apply.

Write into {out}/ :
  patch.diff   – `cd {wt} && git diff -- src > {out}/patch.diff` (the change only, no test files)
  demo_test.rs or demo.sh – the demonstration
  notes.md     – what the change is, why it breaks the property, exactly what is needed for it to manifest, why the existing tests do not notice, and the commands you ran with their results.
Leave the worktree WITH the change applied (and without the demo test file inside it) when you finish. Your final message: a five-line summary (change, trigger, demo kind, test-suite result, anything unusual).""")
