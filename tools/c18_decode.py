#!/usr/bin/python3
"""c18_decode.py — independent readers for the C18 whole-report check.

  c18_decode.py <manifest.json> <out.json>

manifest: [{"id": str, "kind": "xml"|"json"|"ndjson"|"html", "path": str}, ...]
out:      {id: {"ok": bool, "error": str?, ...}}

Only the standard library: xml.parsers.expat (strict), json (strict), html.parser (a tokenizer:
never fails, so the caller compares the tag stream with the one of a benign twin report).
Everything that is a *name* in a report comes out decoded, with the place where it was found;
everything structural comes out as a shape (multiset of element / key paths, or the tag stream).
"""
import json
import sys
import xml.parsers.expat
from html.parser import HTMLParser


def read_xml(data):
    """shape: {"path|sorted attr keys": count}; attrs: [[path, key, value]]; texts: [[path, text]]"""
    shape = {}
    attrs = []
    texts = []
    stack = []
    buf = []

    def flush():
        if buf:
            t = "".join(buf)
            if t.strip() != "":
                texts.append(["/".join(stack), t])
            del buf[:]

    def start(name, a):
        flush()
        stack.append(name)
        path = "/".join(stack)
        keys = [a[i] for i in range(0, len(a), 2)]
        k = path + "|" + ",".join(keys)
        shape[k] = shape.get(k, 0) + 1
        for i in range(0, len(a), 2):
            attrs.append([path, a[i], a[i + 1]])

    def end(name):
        flush()
        stack.pop()

    p = xml.parsers.expat.ParserCreate()
    p.ordered_attributes = True
    p.buffer_text = False
    p.StartElementHandler = start
    p.EndElementHandler = end
    p.CharacterDataHandler = lambda d: buf.append(d)
    p.Parse(data, True)
    return {"shape": shape, "attrs": attrs, "texts": texts}


def no_dup_pairs(pairs):
    d = {}
    for k, v in pairs:
        if k in d:
            raise ValueError("duplicate key %r" % k)
        d[k] = v
    return d


def walk_json(v, path, shape, strings, keys):
    if isinstance(v, dict):
        t = path + "{}"
        shape[t] = shape.get(t, 0) + 1
        under_children = path.endswith(".children")
        for k, x in v.items():
            if under_children:
                keys.append([path, k])
                walk_json(x, path + ".*", shape, strings, keys)
            else:
                walk_json(x, path + "." + k, shape, strings, keys)
    elif isinstance(v, list):
        t = path + "[]"
        shape[t] = shape.get(t, 0) + 1
        for x in v:
            walk_json(x, path + "[]", shape, strings, keys)
    else:
        if isinstance(v, str):
            strings.append([path, v])
            t = path + ":str"
        elif v is None:
            t = path + ":null"
        elif isinstance(v, bool):
            t = path + ":bool"
        else:
            t = path + ":num"
        shape[t] = shape.get(t, 0) + 1


def read_json_docs(texts):
    shape = {}
    strings = []
    keys = []
    for t in texts:
        v = json.loads(t, object_pairs_hook=no_dup_pairs)
        walk_json(v, "$", shape, strings, keys)
    return {"shape": shape, "strings": strings, "keys": keys, "records": len(texts)}


VOID = {"meta", "link", "br", "hr", "img", "input", "area", "base", "col", "embed", "source",
        "track", "wbr"}
TEXT_OF = {"a", "pre", "title"}
VALUE_KEYS = {"href", "id", "aria-label", "title", "src", "action", "style"}


class Page(HTMLParser):
    def __init__(self):
        super().__init__(convert_charrefs=True)
        self.tags = []       # "S tag k1,k2" / "E tag" / "C" (comment) / "D" (doctype) / "P"
        self.values = []     # [tag, key, value] for VALUE_KEYS
        self.elems = []      # [tag, href-or-"", text] for TEXT_OF elements, in document order
        self.open = []       # stack of [tag, href, [chunks]]
        self.dup_attr = False

    def handle_starttag(self, tag, attrs):
        keys = [k for k, _ in attrs]
        if len(set(keys)) != len(keys):
            self.dup_attr = True
        self.tags.append("S %s %s" % (tag, ",".join(keys)))
        for k, v in attrs:
            if k in VALUE_KEYS or k.startswith("on"):
                self.values.append([tag, k, v if v is not None else ""])
        if tag in TEXT_OF:
            href = ""
            for k, v in attrs:
                if k == "href":
                    href = v if v is not None else ""
            self.open.append([tag, href, []])

    def handle_startendtag(self, tag, attrs):
        self.handle_starttag(tag, attrs)
        self.handle_endtag(tag)

    def handle_endtag(self, tag):
        self.tags.append("E %s" % tag)
        if tag in TEXT_OF and self.open and self.open[-1][0] == tag:
            t, href, chunks = self.open.pop()
            self.elems.append([t, href, "".join(chunks)])

    def handle_data(self, data):
        for o in self.open:
            o[2].append(data)

    def handle_comment(self, data):
        self.tags.append("C")

    def handle_decl(self, decl):
        self.tags.append("D " + decl)

    def handle_pi(self, data):
        self.tags.append("P")

    def unknown_decl(self, data):
        self.tags.append("U")


def read_html(text):
    p = Page()
    p.feed(text)
    p.close()
    return {"tags": p.tags, "values": p.values, "elems": p.elems,
            "unclosed": [o[0] for o in p.open], "dup_attr": p.dup_attr}


def main():
    manifest = json.load(open(sys.argv[1], encoding="utf-8"))
    out = {}
    for item in manifest:
        try:
            raw = open(item["path"], "rb").read()
            kind = item["kind"]
            if kind == "xml":
                r = read_xml(raw)
            elif kind == "json":
                r = read_json_docs([raw.decode("utf-8")])
            elif kind == "ndjson":
                text = raw.decode("utf-8")
                lines = text.split("\n")
                if lines and lines[-1] == "":
                    lines.pop()
                r = read_json_docs(lines)
            elif kind == "html":
                r = read_html(raw.decode("utf-8"))
            else:
                raise ValueError("unknown kind " + kind)
            r["ok"] = True
        except Exception as e:  # a parse error is an observation, not a crash
            r = {"ok": False, "error": "%s: %s" % (type(e).__name__, e)}
        out[item["id"]] = r
    with open(sys.argv[2], "w", encoding="utf-8") as f:
        json.dump(out, f, ensure_ascii=True)


if __name__ == "__main__":
    main()
