#!/bin/sh
# Build the verification framework from files on disk only (offline).
set -e
cd "$(dirname "$0")"
export CARGO_NET_OFFLINE=true
mkdir -p work replays evidence
cp /repo/Cargo.lock harness/Cargo.lock
exes=$(grep '^name = "gm' lean/lakefile.toml | sed 's/name = "\(.*\)"/\1/')
(cd lean && lake build GrcovModel $exes)
# (a build directory copied while another build was writing it can hold inconsistent incremental
# objects: on a link failure drop the incremental cache and the harness's own objects and build again)
(cd harness && (cargo build --offline || (rm -rf target/debug/incremental target/debug/deps/c[0-2][0-9]-* target/debug/deps/corrlib-* target/debug/deps/libcorrlib-* && cargo build --offline)))
echo setup-ok
