#!/bin/sh
# Build the verification framework from files on disk only (offline).
set -e
cd "$(dirname "$0")"
export CARGO_NET_OFFLINE=true
mkdir -p work replays evidence
cp /repo/Cargo.lock harness/Cargo.lock
exes=$(grep '^name = "gm' lean/lakefile.toml | sed 's/name = "\(.*\)"/\1/')
(cd lean && lake build GrcovModel $exes)
(cd harness && cargo build --offline)
echo setup-ok
