//! C16 part `Regex` — the pattern language of the `regex` crate behind the six `--excl-*` options,
//! tied to GrcovModel/Regex/Syntax.lean + Regex/Match.lean + FileFilter/Regex.lean (driver ops
//! `c16.rx.*` of gm_c16):
//!
//! * `tables` — the Unicode tables of `\w` `\d` `\s` (and `\b`) against the real crate on EVERY
//!              scalar value;
//! * `syntax` — `Regex::new(p)`: ok / error kind against `Regex.parse`, for patterns printed from a
//!              generated tree (valid, inside the subset: both must accept), for malformed patterns
//!              with a known error kind, for patterns outside the subset (the model must answer
//!              `Unsupported`, never guess), for raw pieces of syntax glued at random (model and
//!              crate must agree whenever the model claims anything) and for patterns at the nest
//!              and size limits;
//! * `match`  — `FileFilter::new(Some(re), …).create(file)` (the real `is_match` on every real source
//!              line, CR handling included) against `createPat`, and against an independent
//!              matcher in this file (`Node::ends`: it never calls the crate or the model);
//! * `six`    — all six options as generated patterns on texts with markers: real `create`, model
//!              `createPat`, and the property re-stated (`crate::spec_of`) on the independent matcher's
//!              bits;
//! * `cli`    — the real binary with `--excl-*` PATTERNS on a source tree (lcov in, lcov out): the
//!              lines / branches missing from the report are the model's filter list; a pattern that
//!              does not compile (or is not UTF-8) ends the run with status 2 and no report.
//!
//! The modelled subset: literals, `.`, classes (ranges, negation, leading `]` `-`, Perl and POSIX classes),
//! Unicode `\d \s \w`, single-char and hex escapes, groups, alternation, every repetition form, every
//! assertion; flags, named groups, `\p{..}`, nested classes and class operators are `Unsupported`.
//! Trusted: nothing about regular expressions – the crate is the code under test here.
use corrlib::*;
use grcov::FileFilter;
use regex::Regex;
use serde_json::{json, Value};
use std::collections::BTreeSet;
use std::path::Path;

const DRV: &str = "gm_c16";

// ---------------------------------------------------------------------------------------------
// the real crate

#[derive(Clone, Debug, PartialEq)]
enum Out {
    Ok,
    Err(String),
    TooBig,
}

const MESSAGES: &[(&str, &str)] = &[
    ("unclosed group", "GroupUnclosed"),
    ("unopened group", "GroupUnopened"),
    ("look-around, including look-ahead and look-behind, is not supported", "UnsupportedLookAround"),
    ("unclosed character class", "ClassUnclosed"),
    ("invalid escape sequence found in character class", "ClassEscapeInvalid"),
    ("invalid character class range, the start must be <= the end", "ClassRangeInvalid"),
    ("invalid range boundary, must be a literal", "ClassRangeLiteral"),
    ("repetition operator missing expression", "RepetitionMissing"),
    ("unclosed counted repetition", "RepetitionCountUnclosed"),
    ("invalid repetition count range, the start must be <= the end", "RepetitionCountInvalid"),
    ("repetition quantifier expects a valid decimal", "RepetitionCountDecimalEmpty"),
    ("decimal literal invalid", "DecimalInvalid"),
    ("decimal literal empty", "DecimalEmpty"),
    ("incomplete escape sequence, reached end of pattern prematurely", "EscapeUnexpectedEof"),
    ("unrecognized escape sequence", "EscapeUnrecognized"),
    ("backreferences are not supported", "UnsupportedBackreference"),
    ("hexadecimal literal empty", "EscapeHexEmpty"),
    ("hexadecimal literal is not a Unicode scalar value", "EscapeHexInvalid"),
    ("invalid hexadecimal digit", "EscapeHexInvalidDigit"),
    ("special word boundary assertion is either unclosed or contains an invalid character", "SpecialWordBoundaryUnclosed"),
    ("unrecognized special word boundary assertion, valid choices are: start, end, start-half or end-half", "SpecialWordBoundaryUnrecognized"),
    ("exceed the maximum number of nested parentheses/brackets (250)", "NestLimitExceeded"),
];

fn kind_of(msg: &str) -> String {
    let last = msg.lines().last().unwrap_or("").trim();
    let last = last.strip_prefix("error: ").unwrap_or(last);
    for (m, k) in MESSAGES {
        if last == *m {
            return k.to_string();
        }
    }
    if last.starts_with("found either the beginning of a special word boundary") {
        return "SpecialWordOrRepetitionUnexpectedEof".into();
    }
    format!("other:{}", last)
}

fn crate_new(p: &str) -> (Out, Option<Regex>) {
    match Regex::new(p) {
        Ok(r) => (Out::Ok, Some(r)),
        Err(regex::Error::Syntax(s)) => (Out::Err(kind_of(&s)), None),
        Err(regex::Error::CompiledTooBig(_)) => (Out::TooBig, None),
        Err(e) => (Out::Err(format!("other:{}", e)), None),
    }
}

fn xhex(b: &[u8]) -> String {
    format!("x{}", hex(b))
}

/// does the model's answer to `c16.rx.parse` contradict the crate? `None` = compatible
fn parse_disagrees(model: &str, real: &Out) -> Option<String> {
    if model.starts_with("ok ") {
        return if *real == Out::Ok { None } else { Some(format!("the model accepts, the crate answers {:?}", real)) };
    }
    if model == "err Unsupported" {
        return None;
    }
    if let Some(k) = model.strip_prefix("err ") {
        return match real {
            Out::Err(rk) if rk == k => None,
            _ => Some(format!("the model answers error {}, the crate answers {:?}", k, real)),
        };
    }
    Some(format!("unexpected model answer {:?}", model))
}

// ---------------------------------------------------------------------------------------------
// the generator's alphabet, with ITS OWN classification (word, digit, space)

const T: bool = true;
const F: bool = false;
const ALPHA: &[(char, bool, bool, bool)] = &[
    ('a', T, F, F), ('b', T, F, F), ('c', T, F, F), ('x', T, F, F), ('Z', T, F, F), ('0', T, T, F), ('7', T, T, F),
    ('_', T, F, F), (' ', F, F, T), ('\t', F, F, T), ('\r', F, F, T), ('\u{b}', F, F, T), ('\u{c}', F, F, T),
    ('-', F, F, F), ('.', F, F, F), ('/', F, F, F), ('*', F, F, F), ('(', F, F, F), (')', F, F, F), ('[', F, F, F),
    (']', F, F, F), ('{', F, F, F), ('}', F, F, F), ('^', F, F, F), ('$', F, F, F), ('|', F, F, F), ('?', F, F, F),
    ('+', F, F, F), ('\\', F, F, F), ('#', F, F, F), ('&', F, F, F), ('~', F, F, F), (',', F, F, F), (':', F, F, F),
    ('=', F, F, F), ('<', F, F, F), ('>', F, F, F), ('!', F, F, F), ('%', F, F, F), ('é', T, F, F), ('名', T, F, F),
    ('٣', T, T, F), ('\u{a0}', F, F, T), ('\u{2003}', F, F, T), ('\u{85}', F, F, T), ('∀', F, F, F), ('²', F, F, F),
    ('\u{301}', T, F, F), ('ⅷ', T, F, F), ('\u{10348}', T, F, F), ('😀', F, F, F), ('\u{200d}', T, F, F),
    ('\u{7f}', F, F, F), ('\u{1}', F, F, F),
];

fn class_of(c: char) -> Option<(bool, bool, bool)> {
    if c.is_ascii() {
        return Some((c.is_ascii_alphanumeric() || c == '_', c.is_ascii_digit(), matches!(c, '\t'..='\r' | ' ')));
    }
    ALPHA.iter().find(|a| a.0 == c).map(|a| (a.1, a.2, a.3))
}

fn perl_has(kind: u8, c: char) -> bool {
    let (w, d, s) = class_of(c).expect("the oracle only sees chars of its alphabet");
    match kind {
        0 => d,
        1 => s,
        _ => w,
    }
}

fn pick_char(rng: &mut Rng) -> char {
    // the first dozen (plain ASCII) most of the time
    if rng.chance(3, 5) {
        ALPHA[rng.below(8) as usize].0
    } else {
        ALPHA[rng.below(ALPHA.len() as u64) as usize].0
    }
}

fn is_meta(c: char) -> bool {
    matches!(c, '\\' | '.' | '+' | '*' | '?' | '(' | ')' | '|' | '[' | ']' | '{' | '}' | '^' | '$' | '#' | '&' | '-' | '~')
}

fn escapeable(c: char) -> bool {
    is_meta(c) || (c.is_ascii() && !c.is_ascii_alphanumeric() && c != '<' && c != '>')
}

// ---------------------------------------------------------------------------------------------
// pattern trees, their text and their meaning

#[derive(Clone, Debug)]
enum Item {
    /// the char; 0 = verbatim / escaped when needed, 3.. = a hex escape
    Ch(char, u8),
    Range(char, char),
    Perl(u8, bool),
    /// index into POSIX, negated: `[:name:]` / `[:^name:]`
    Posix(usize, bool),
}

const POSIX: [&str; 14] = ["alnum", "alpha", "ascii", "blank", "cntrl", "digit", "graph", "lower", "print", "punct", "space", "upper", "word", "xdigit"];

/// the harness' own reading of the POSIX class names
fn posix_has(k: usize, c: char) -> bool {
    match POSIX[k] {
        "alnum" => c.is_ascii_alphanumeric(),
        "alpha" => c.is_ascii_alphabetic(),
        "ascii" => c.is_ascii(),
        "blank" => c == ' ' || c == '\t',
        "cntrl" => c.is_ascii_control(),
        "digit" => c.is_ascii_digit(),
        "graph" => c.is_ascii_graphic(),
        "lower" => c.is_ascii_lowercase(),
        "print" => c.is_ascii_graphic() || c == ' ',
        "punct" => c.is_ascii_punctuation(),
        "space" => matches!(c, '\t' | '\n' | '\u{b}' | '\u{c}' | '\r' | ' '),
        "upper" => c.is_ascii_uppercase(),
        "word" => c.is_ascii_alphanumeric() || c == '_',
        _ => c.is_ascii_hexdigit(),
    }
}

#[derive(Clone, Debug)]
enum Node {
    /// the char; 0 = verbatim when possible, 1 = escaped when possible, 2 = by name (`\t` …) when it has one,
    /// 3..=8 = one of the six hex spellings (`\xNN` `\x{N}` `\uNNNN` `\u{N}` `\UNNNNNNNN` `\U{N}`) when the
    /// char fits
    Lit(char, u8),
    Dot,
    /// negated, leading `-`s, leading `]`, items, trailing `-`
    Class(bool, usize, bool, Vec<Item>, bool),
    /// 0 `\d`, 1 `\s`, 2 `\w`; negated
    Perl(u8, bool),
    /// 0 `^`, 1 `$`, 2 `\A`, 3 `\z`, 4 `\b`, 5 `\B`, 6 `\<`, 7 `\>`, 8 `\b{start}`, 9 `\b{end}`, 10 `\b{start-half}`,
    /// 11 `\b{end-half}`
    Look(u8),
    /// capturing
    Group(bool, Box<Node>),
    Cat(Vec<Node>),
    Alt(Vec<Node>),
    /// operand, lo, hi, spelling (0 = `? * +` when the bounds allow, 1 = braces, 2 = braces with white space), lazy
    Rep(Box<Node>, u32, Option<u32>, u8, bool),
}
use Node::*;

fn lit_text(c: char, style: u8, in_class: bool, out: &mut String) {
    let name = match c {
        '\u{7}' => Some('a'),
        '\u{c}' => Some('f'),
        '\t' => Some('t'),
        '\n' => Some('n'),
        '\r' => Some('r'),
        '\u{b}' => Some('v'),
        _ => None,
    };
    if style == 2 {
        if let Some(n) = name {
            out.push('\\');
            out.push(n);
            return;
        }
    }
    if style >= 3 {
        let v = c as u32;
        // upper / lower case digits, zero padding in braces: decided by the value itself (deterministic text)
        let up = v % 2 == 0;
        let h = |w: usize| if up { format!("{:0w$X}", v, w = w) } else { format!("{:0w$x}", v, w = w) };
        let t = match style {
            3 if v <= 0xff => Some(format!("\\x{}", h(2))),
            4 => Some(format!("\\x{{{}}}", h(1 + (v % 3) as usize))),
            5 if v <= 0xffff => Some(format!("\\u{}", h(4))),
            6 => Some(format!("\\u{{{}}}", h(1))),
            7 => Some(format!("\\U{}", h(8))),
            8 => Some(format!("\\U{{{}}}", h(6))),
            _ => None,
        };
        if let Some(t) = t {
            out.push_str(&t);
            return;
        }
    }
    let must = if in_class {
        matches!(c, '\\' | '[' | ']' | '^' | '-' | '&' | '~')
    } else {
        matches!(c, '\\' | '.' | '+' | '*' | '?' | '(' | ')' | '|' | '[' | '{' | '^' | '$')
    };
    if must || (style == 1 && escapeable(c)) {
        out.push('\\');
    }
    out.push(c);
}

fn rep_text(lo: u32, hi: Option<u32>, spelling: u8, lazy: bool, out: &mut String) {
    let sp = |out: &mut String| {
        if spelling == 2 {
            out.push(' ');
        }
    };
    match (lo, hi, spelling) {
        (0, Some(1), 0) => out.push('?'),
        (0, None, 0) => out.push('*'),
        (1, None, 0) => out.push('+'),
        _ => {
            out.push('{');
            sp(out);
            out.push_str(&lo.to_string());
            sp(out);
            match hi {
                Some(h) if h == lo && spelling != 2 => {}
                Some(h) => {
                    out.push(',');
                    sp(out);
                    out.push_str(&h.to_string());
                    sp(out);
                }
                None => out.push(','),
            }
            out.push('}');
        }
    }
    if lazy {
        out.push('?');
    }
}

impl Node {
    fn text(&self, out: &mut String) {
        match self {
            Lit(c, s) => lit_text(*c, *s, false, out),
            Dot => out.push('.'),
            Class(neg, dashes, bracket, items, trail) => {
                out.push('[');
                if *neg {
                    out.push('^');
                }
                for _ in 0..*dashes {
                    out.push('-');
                }
                if *bracket {
                    out.push(']');
                }
                for it in items {
                    match it {
                        Item::Ch(c, st) => lit_text(*c, *st, true, out),
                        Item::Range(a, b) => {
                            lit_text(*a, 0, true, out);
                            out.push('-');
                            lit_text(*b, 0, true, out);
                        }
                        Item::Perl(k, n) => {
                            out.push('\\');
                            out.push(perl_letter(*k, *n));
                        }
                        Item::Posix(k, n) => {
                            out.push_str(if *n { "[:^" } else { "[:" });
                            out.push_str(POSIX[*k]);
                            out.push_str(":]");
                        }
                    }
                }
                if *trail {
                    out.push('-');
                }
                out.push(']');
            }
            Perl(k, n) => {
                out.push('\\');
                out.push(perl_letter(*k, *n));
            }
            Look(k) => out.push_str(
                ["^", "$", "\\A", "\\z", "\\b", "\\B", "\\<", "\\>", "\\b{start}", "\\b{end}", "\\b{start-half}", "\\b{end-half}"][*k as usize],
            ),
            Group(cap, n) => {
                out.push_str(if *cap { "(" } else { "(?:" });
                n.text(out);
                out.push(')');
            }
            Cat(ns) => {
                for n in ns {
                    match n {
                        Alt(_) | Cat(_) => Group(false, Box::new(n.clone())).text(out),
                        _ => n.text(out),
                    }
                }
            }
            Alt(ns) => {
                for (i, n) in ns.iter().enumerate() {
                    if i > 0 {
                        out.push('|');
                    }
                    match n {
                        Alt(_) => Group(false, Box::new(n.clone())).text(out),
                        _ => n.text(out),
                    }
                }
            }
            Rep(n, lo, hi, sp, lazy) => {
                let wrap = match &**n {
                    Cat(_) | Alt(_) => true,
                    // `a*` followed by `?` would be read as a lazy star
                    Rep(_, _, _, _, inner_lazy) => !*inner_lazy && (*lo, *hi, *sp) == (0, Some(1), 0),
                    // `\b{` would be tried as a special word boundary
                    Look(4) => !matches!((*lo, *hi, *sp), (0, Some(1), 0) | (0, None, 0) | (1, None, 0)),
                    _ => false,
                };
                if wrap {
                    Group(false, n.clone()).text(out);
                } else {
                    n.text(out);
                }
                rep_text(*lo, *hi, *sp, *lazy, out);
            }
        }
    }

    fn pattern(&self) -> String {
        let mut s = String::new();
        self.text(&mut s);
        s
    }

    /// the generator's own size estimate: patterns above it are not generated
    fn weight(&self) -> u64 {
        match self {
            Lit(..) | Look(_) => 1,
            Dot => 10,
            Class(_, _, _, items, _) => 8 + items.iter().map(|i| match i { Item::Perl(2, _) => 400, Item::Perl(..) | Item::Posix(..) => 100, _ => 14 }).sum::<u64>(),
            Perl(k, _) => if *k == 2 { 400 } else { 100 },
            Group(_, n) => n.weight() + 1,
            Cat(ns) | Alt(ns) => ns.iter().map(|n| n.weight()).sum::<u64>() + 1,
            Rep(n, lo, hi, _, _) => (n.weight() + 1) * (hi.unwrap_or(*lo).max(1) as u64) + 1,
        }
    }

    fn char_ok(&self, c: char) -> bool {
        match self {
            Lit(l, _) => *l == c,
            Dot => c != '\n',
            Class(neg, dashes, bracket, items, trail) => {
                let mut m = (*dashes > 0 || *trail) && c == '-';
                m |= *bracket && c == ']';
                for it in items {
                    m |= match it {
                        Item::Ch(x, _) => *x == c,
                        Item::Range(a, b) => *a <= c && c <= *b,
                        Item::Perl(k, n) => perl_has(*k, c) != *n,
                        Item::Posix(k, n) => posix_has(*k, c) != *n,
                    };
                }
                m != *neg
            }
            Perl(k, n) => perl_has(*k, c) != *n,
            _ => unreachable!(),
        }
    }

    /// THE INDEPENDENT MEANING: the positions where a match of `self` that starts at one of `from`
    /// can end, in the haystack `h`
    fn ends(&self, h: &[char], from: &BTreeSet<usize>) -> BTreeSet<usize> {
        let word = |i: usize| i < h.len() && perl_has(2, h[i]);
        match self {
            Lit(..) | Dot | Class(..) | Perl(..) => {
                from.iter().filter(|&&i| i < h.len() && self.char_ok(h[i])).map(|&i| i + 1).collect()
            }
            Look(k) => from
                .iter()
                .filter(|&&i| {
                    let before = i > 0 && word(i - 1);
                    match k {
                        0 | 2 => i == 0,
                        1 | 3 => i == h.len(),
                        4 => before != word(i),
                        5 => before == word(i),
                        6 | 8 => !before && word(i),
                        7 | 9 => before && !word(i),
                        10 => !before,
                        _ => !word(i),
                    }
                })
                .cloned()
                .collect(),
            Group(_, n) => n.ends(h, from),
            Cat(ns) => {
                let mut cur = from.clone();
                for n in ns {
                    cur = n.ends(h, &cur);
                }
                cur
            }
            Alt(ns) => {
                let mut all = BTreeSet::new();
                for n in ns {
                    all.extend(n.ends(h, from));
                }
                all
            }
            Rep(n, lo, hi, _, _) => {
                let mut cur = from.clone();
                for _ in 0..*lo {
                    cur = n.ends(h, &cur);
                }
                let mut all = cur.clone();
                let mut extra = 0u32;
                loop {
                    if let Some(hi) = hi {
                        if extra >= hi - lo {
                            break;
                        }
                    }
                    let next = n.ends(h, &all);
                    let before = all.len();
                    all.extend(next);
                    extra += 1;
                    if all.len() == before {
                        break;
                    }
                }
                all
            }
        }
    }

    fn is_match(&self, line: &str) -> bool {
        let h: Vec<char> = line.chars().collect();
        let from: BTreeSet<usize> = (0..=h.len()).collect();
        !self.ends(&h, &from).is_empty()
    }

    /// a string the pattern matches when its assertions happen to hold
    fn sample(&self, rng: &mut Rng, out: &mut String) {
        match self {
            Lit(c, _) => out.push(*c),
            Dot | Class(..) | Perl(..) => {
                for _ in 0..12 {
                    let c = pick_char(rng);
                    if self.char_ok(c) {
                        out.push(c);
                        return;
                    }
                }
            }
            Look(_) => {}
            Group(_, n) => n.sample(rng, out),
            Cat(ns) => ns.iter().for_each(|n| n.sample(rng, out)),
            Alt(ns) => ns[rng.below(ns.len() as u64) as usize].sample(rng, out),
            Rep(n, lo, hi, _, _) => {
                let max = hi.unwrap_or(lo + 2).min(lo + 2);
                let k = rng.range(*lo as u64, max as u64);
                for _ in 0..k {
                    n.sample(rng, out);
                }
            }
        }
    }
}

fn perl_letter(k: u8, neg: bool) -> char {
    let c = ['d', 's', 'w'][k as usize];
    if neg {
        c.to_ascii_uppercase()
    } else {
        c
    }
}

fn gen_class(rng: &mut Rng) -> Node {
    let neg = rng.chance(1, 3);
    let dashes = if rng.chance(1, 8) { rng.range(1, 2) as usize } else { 0 };
    let bracket = dashes == 0 && rng.chance(1, 8);
    let trail = rng.chance(1, 8);
    let mut items = vec![];
    let n = rng.below(4) + if dashes == 0 && !bracket && !trail { 1 } else { 0 };
    for _ in 0..n {
        match rng.below(8) {
            0..=3 => items.push(Item::Ch(pick_char(rng), if rng.chance(1, 6) { 3 + rng.below(6) as u8 } else { 0 })),
            4..=5 => {
                let (a, b) = (pick_char(rng), pick_char(rng));
                let (a, b) = if a <= b { (a, b) } else { (b, a) };
                // keep the range inside what the oracle can classify: both ends from the alphabet and
                // every char a line can contain is from the alphabet, so membership is just comparison
                items.push(Item::Range(a, b));
            }
            6 => items.push(if rng.chance(1, 2) { Item::Perl(rng.below(3) as u8, rng.chance(1, 3)) } else { Item::Posix(rng.below(14) as usize, rng.chance(1, 3)) }),
            _ => items.push(Item::Range('a', 'z')),
        }
    }
    Class(neg, dashes, bracket, items, trail)
}

fn gen_atom(rng: &mut Rng, depth: u32) -> Node {
    match rng.below(20) {
        0..=8 => Lit(pick_char(rng), if rng.chance(1, 8) { 3 + rng.below(6) as u8 } else { rng.below(3) as u8 }),
        9 => Dot,
        10 | 11 => gen_class(rng),
        12 | 13 => Perl(rng.below(3) as u8, rng.chance(1, 3)),
        14 | 15 => Look(if rng.chance(1, 3) { 6 + rng.below(6) as u8 } else { rng.below(6) as u8 }),
        _ => {
            if depth == 0 {
                Lit(pick_char(rng), 0)
            } else {
                Group(rng.chance(1, 2), Box::new(gen_alt(rng, depth - 1)))
            }
        }
    }
}

fn gen_rep(rng: &mut Rng, depth: u32) -> Node {
    let a = gen_atom(rng, depth);
    if !rng.chance(1, 3) {
        return a;
    }
    let one = |rng: &mut Rng, a: Node| {
        let lazy = rng.chance(1, 5);
        let (lo, hi, sp) = match rng.below(10) {
            0 | 1 => (0, Some(1), 0),
            2 | 3 => (0, None, 0),
            4 | 5 => (1, None, 0),
            6 => {
                let n = rng.below(4) as u32;
                (n, Some(n), 1 + rng.below(2) as u8)
            }
            7 => (rng.below(4) as u32, None, 1),
            8 => {
                let lo = rng.below(3) as u32;
                (lo, Some(lo + rng.below(4) as u32), 1 + rng.below(2) as u8)
            }
            _ => {
                let lo = rng.below(12) as u32;
                (lo, if rng.chance(1, 2) { Some(lo + rng.below(20) as u32) } else { None }, 1)
            }
        };
        Rep(Box::new(a), lo, hi, sp, lazy)
    };
    let r = one(rng, a);
    if rng.chance(1, 10) {
        one(rng, r)
    } else {
        r
    }
}

fn gen_cat(rng: &mut Rng, depth: u32) -> Node {
    let n = match rng.below(10) {
        0 => 0,
        1..=3 => 1,
        4..=6 => 2,
        7 | 8 => 3,
        _ => 5,
    };
    let mut v: Vec<Node> = (0..n).map(|_| gen_rep(rng, depth)).collect();
    if v.len() == 1 {
        v.pop().unwrap()
    } else {
        Cat(v)
    }
}

fn gen_alt(rng: &mut Rng, depth: u32) -> Node {
    let n = match rng.below(10) {
        0..=6 => 1,
        7 | 8 => 2,
        _ => 3,
    };
    let mut v: Vec<Node> = (0..n).map(|_| gen_cat(rng, depth)).collect();
    if v.len() == 1 {
        v.pop().unwrap()
    } else {
        Alt(v)
    }
}

fn gen_pattern(rng: &mut Rng) -> Node {
    loop {
        let n = gen_alt(rng, 3);
        if n.weight() < 4000 {
            return n;
        }
    }
}

fn gen_line(rng: &mut Rng, n: &Node) -> String {
    let noise = |rng: &mut Rng, max: u64| -> String { (0..rng.below(max + 1)).map(|_| pick_char(rng)).collect() };
    let mut s = match rng.below(10) {
        0 => String::new(),
        1 | 2 => noise(rng, 8),
        3..=5 => {
            let mut s = String::new();
            n.sample(rng, &mut s);
            s
        }
        _ => {
            let mut s = noise(rng, 3);
            n.sample(rng, &mut s);
            s.push_str(&noise(rng, 3));
            s
        }
    };
    if rng.chance(1, 12) && !s.is_empty() {
        // one char dropped or doubled
        let cs: Vec<char> = s.chars().collect();
        let i = rng.below(cs.len() as u64) as usize;
        s = cs.iter().enumerate().flat_map(|(j, c)| if j == i { vec![] } else { vec![*c] }).collect();
    }
    s
}

/// lines joined into a file: LF / CRLF per line, with or without a final newline
fn gen_text(rng: &mut Rng, lines: &[String]) -> Vec<u8> {
    let mut t = String::new();
    for (i, l) in lines.iter().enumerate() {
        t.push_str(l);
        let last = i + 1 == lines.len();
        if last && rng.chance(1, 3) {
            if rng.chance(1, 4) {
                t.push('\r');
            }
        } else {
            t.push_str(if rng.chance(1, 4) { "\r\n" } else { "\n" });
        }
    }
    t.into_bytes()
}

// ---------------------------------------------------------------------------------------------
// stream `tables`

fn ranges_where(mut f: impl FnMut(char) -> bool) -> String {
    let mut out: Vec<String> = vec![];
    let mut start: Option<u32> = None;
    let mut prev = 0u32;
    for cp in 0..=0x10FFFFu32 {
        let m = char::from_u32(cp).map(|c| f(c)).unwrap_or(false);
        match (m, start) {
            (true, None) => start = Some(cp),
            (false, Some(s)) => {
                out.push(format!("{}-{}", s, prev));
                start = None;
            }
            _ => {}
        }
        prev = cp;
    }
    if let Some(s) = start {
        out.push(format!("{}-{}", s, 0x10FFFF));
    }
    out.join(",")
}

fn tables(rep: &mut Report) {
    let reqs: Vec<String> = ["w", "d", "s"].iter().map(|t| format!("c16.rx.table {}", t)).collect();
    let ans = run_model_named(DRV, &reqs, &rep.workdir, "rx_tables");
    let mut buf = [0u8; 4];
    for (i, (name, pat)) in [("w", r"^\w$"), ("d", r"^\d$"), ("s", r"^\s$")].iter().enumerate() {
        let re = Regex::new(pat).unwrap();
        let real = ranges_where(|c| re.is_match(c.encode_utf8(&mut buf)));
        rep.case(&format!("rx.table {}", name), true);
        rep.count("rx.table");
        if real != ans[i] {
            rep.fail(
                "disagreement",
                None,
                format!("the scalar values `{}` matches are not the model's table ({} vs {} ranges)", pat, real.split(',').count(), ans[i].split(',').count()),
                json!({"op": "c16.rx.table", "table": name}),
            );
        }
        // `char::is_whitespace` (what `parse_decimal` skips) is the `\s` table: the oracle of the table
        if *name == "s" {
            let std = ranges_where(|c| c.is_whitespace());
            if std != real {
                rep.fail("oracle", None, "`\\s` is not White_Space (char::is_whitespace)".into(), json!({"op": "c16.rx.table", "table": "s"}));
            }
        }
    }
    // `\b` consults regex-automata's own copy of the word table
    let re = Regex::new(r"\b").unwrap();
    let real = ranges_where(|c| re.is_match(c.encode_utf8(&mut buf)));
    rep.case("rx.table b", true);
    rep.count("rx.table");
    if real != ans[0] {
        rep.fail("disagreement", None, "the one-char strings on which `\\b` matches are not the model's word table".into(), json!({"op": "c16.rx.table", "table": "b"}));
    }
    // the oracle's alphabet against the crate (keeps the independent matcher honest)
    let (w, d, s) = (Regex::new(r"^\w$").unwrap(), Regex::new(r"^\d$").unwrap(), Regex::new(r"^\s$").unwrap());
    for a in ALPHA {
        let t = a.0.to_string();
        if (w.is_match(&t), d.is_match(&t), s.is_match(&t)) != (a.1, a.2, a.3) {
            rep.fail("oracle", None, format!("the harness' own classification of {:?} is not the crate's", a.0), json!({"op": "c16.rx.table", "char": a.0 as u32}));
        }
    }
}

// ---------------------------------------------------------------------------------------------
// stream `syntax`

const BAD_ESCAPES: &[char] = &['e', 'g', 'i', 'j', 'k', 'l', 'm', 'o', 'q', 'y', 'C', 'E', 'F', 'G', 'H', 'I', 'J', 'K', 'L', 'M', 'N', 'O', 'Q', 'R', 'T', 'V', 'X', 'Y', 'Z', 'é', '名'];

/// a malformed pattern and the error kind the generator KNOWS it has
fn gen_malformed(rng: &mut Rng) -> (String, &'static str) {
    let v = format!("(?:{})", gen_pattern(rng).pattern());
    let w = gen_pattern(rng).pattern();
    match rng.below(46) {
        43 => (format!("{}\\b{{{}", v, ["start", "end-half", "x", "start-"][rng.below(4) as usize]), "SpecialWordBoundaryUnclosed"),
        44 => (format!("{}\\b{{{}{}", v, ["start ", "end1}", "a,b}", "start-half)"][rng.below(4) as usize], w), "SpecialWordBoundaryUnclosed"),
        45 => (format!("{}\\b{{{}}}{}", v, ["foo", "Start", "start-end", "-", "starthalf", "e"][rng.below(6) as usize], w), "SpecialWordBoundaryUnrecognized"),
        34 => (format!("{}\\{}", v, ["x", "u", "U", "x4", "u00e", "U0001F60", "x{", "u{41", "U{"][rng.below(9) as usize]), "EscapeUnexpectedEof"),
        35 => (format!("{}\\{}{}", v, ["xg1", "x4g", "u00g9", "U0001F6zz", "x{4g}", "u{ 41}", "x-1"][rng.below(7) as usize], w), "EscapeHexInvalidDigit"),
        36 => (format!("{}\\{}{{}}{}", v, ["x", "u", "U"][rng.below(3) as usize], w), "EscapeHexEmpty"),
        37 => (format!("{}\\{}{}", v, ["x{110000}", "uD800", "u{dfff}", "UFFFFFFFF", "x{123456789}", "U00110000"][rng.below(6) as usize], w), "EscapeHexInvalid"),
        38 => (format!("{}[a-\\x{{110000}}]{}", v, w), "EscapeHexInvalid"),
        39 => (format!("{}[\\x7a-\\x{{61}}]{}", v, w), "ClassRangeInvalid"),
        40 => (format!("{}[\\x", v), "EscapeUnexpectedEof"),
        41 => (format!("{}[\\u12", v), "EscapeUnexpectedEof"),
        42 => (format!("{}[\\x{{}}]{}", v, w), "EscapeHexEmpty"),
        0 => (format!("({}", w), "GroupUnclosed"),
        1 => (format!("{}(?:{}", v, w), "GroupUnclosed"),
        2 => (format!("{})", w), "GroupUnopened"),
        3 => (format!("{}|{})", v, w), "GroupUnopened"),
        4 => (format!("{}[abc", v), "ClassUnclosed"),
        5 => (format!("{}[^", v), "ClassUnclosed"),
        6 => (format!("{}[a-", v), "ClassUnclosed"),
        7 => (format!("{}[]", v), "ClassUnclosed"),
        8 => (format!("{}[--", v), "ClassUnclosed"),
        9 => (format!("*{}", w), "RepetitionMissing"),
        10 => (format!("{}|+{}", v, w), "RepetitionMissing"),
        11 => (format!("{}(?){}", v, w), "RepetitionMissing"),
        12 => (format!("{}({{2}}{}", v, w), "RepetitionMissing"),
        13 => (format!("{}{{", v), "RepetitionCountUnclosed"),
        14 => (format!("{}{{2", v), "RepetitionCountUnclosed"),
        15 => (format!("{}{{2,", v), "RepetitionCountUnclosed"),
        16 => (format!("{}{{2,3{}", v, if rng.chance(1, 2) { "" } else { "x}" }), "RepetitionCountUnclosed"),
        17 => (format!("{}{{{},{}}}{}", v, 3 + rng.below(5), rng.below(3), w), "RepetitionCountInvalid"),
        18 => (format!("{}{{}}{}", v, w), "RepetitionCountDecimalEmpty"),
        19 => (format!("{}{{,3}}{}", v, w), "RepetitionCountDecimalEmpty"),
        20 => (format!("{}{{x}}{}", v, w), "RepetitionCountDecimalEmpty"),
        21 => (format!("{}{{2, }}{}", v, w), "RepetitionCountDecimalEmpty"),
        22 => (format!("{}{{2,x}}{}", v, w), "RepetitionCountDecimalEmpty"),
        23 => (format!("{}{{4294967296}}{}", v, w), "DecimalInvalid"),
        24 => (format!("{}{{1,99999999999}}{}", v, w), "DecimalInvalid"),
        25 => (format!("{}\\", v), "EscapeUnexpectedEof"),
        26 => (format!("{}\\{}{}", v, rng.pick(BAD_ESCAPES), w), "EscapeUnrecognized"),
        27 => (format!("{}\\{}{}", v, rng.below(10), w), "UnsupportedBackreference"),
        28 => (format!("{}[{}-{}]{}", v, ['z', 'b', 'é'][rng.below(3) as usize], ['a', '0', 'Z'][rng.below(3) as usize], w), "ClassRangeInvalid"),
        29 => (format!("{}[{}]{}", v, ["a-\\d", "\\w-z", "\\s-\\S", "\\b-a"][rng.below(4) as usize], w), "ClassRangeLiteral"),
        30 => (format!("{}[a{}]{}", v, ["\\A", "\\z", "\\b", "\\B"][rng.below(4) as usize], w), "ClassEscapeInvalid"),
        31 => (format!("{}({}a){}", v, ["?=", "?!", "?<=", "?<!"][rng.below(4) as usize], w), "UnsupportedLookAround"),
        32 => (format!("{}\\b{{", v), "SpecialWordOrRepetitionUnexpectedEof"),
        _ => {
            let n = 251 + rng.below(3) as usize;
            (format!("{}a{}", "(".repeat(n), ")".repeat(n)), "NestLimitExceeded")
        }
    }
}

/// valid or invalid syntax OUTSIDE the subset: the model must answer `Unsupported`
fn gen_outside(rng: &mut Rng) -> String {
    let v = format!("(?:{})", gen_pattern(rng).pattern());
    let w = gen_pattern(rng).pattern();
    const OUT: &[&str] = &[
        "(?i)", "(?i:a)", "(?-u:a)", "(?x) a", "(?P<n>a)", "(?<n>a)", "(?P<n", "(?z)",
        "\\p{L}", "\\pL", "\\P{Greek}", "\\p{Nope}", "[[:alph:]]", "[[:alpha]]", "[[:al:pha:]]", "[[=a=]]", "[a[b]]",
        "[a&&b]", "[a--b]", "[a~~b]", "[\\p{L}]", "\\w{40}", "[^\\W]{50}", ".{2000}", "a{20001}", "(\\d{10}){20}",
    ];
    format!("{}{}{}", v, rng.pick(OUT), w)
}

const PIECES: &[&str] = &[
    "a", "b", "Z", "0", "7", "_", " ", "-", "é", "名", "٣", ".", "^", "$", "|", "(", "(", ")", ")", "(?:", "[", "[", "]", "]", "[^", "{", "}",
    ",", "?", "*", "+", "\\", "\\d", "\\w", "\\S", "\\b", "\\B", "\\A", "\\z", "\\.", "\\-", "\\]", "\\[", "\\/", "\\ ", "\\t", "\\n", "\\e",
    "\\1", "\\x", "\\x4", "\\x41", "\\x{", "\\u00e9", "\\u", "\\U", "\\U0001F600", "\\x{41}", "g", "f", "1", "4", "\\p", "\\<", "\\>", "\\b{start}", "\\b{end", "\\b{x}", "start", "-half}", "{2}", "{2,}", "{2,3}", "{ 1 , 2 }", "{3,1}", "{,", "{2", "a-z", "0-9", "--", "&&", "~~", "&", "~", "#", "(?i)",
    "(?", "(?P<n>", "(?=", "[:alpha:]", "[:^space:]", "[:", ":]", "[[:word:]", "\\b{", "??", "*?", "+?", "\t", "\r", "\u{a0}",
];

fn gen_raw(rng: &mut Rng) -> String {
    let n = 1 + rng.below(9);
    (0..n).map(|_| *rng.pick(PIECES)).collect()
}

struct SynCase {
    pat: Vec<u8>,
    /// "valid" | "malformed:<Kind>" | "outside" | "raw" | "limit-ok" | "limit-over" | "notutf8"
    class: String,
}

fn syntax_eval(rep: &mut Report, cases: &[SynCase], tag: &str) {
    let reqs: Vec<String> = cases.iter().map(|c| format!("c16.rx.parse {}", xhex(&c.pat))).collect();
    let ans = run_model_named(DRV, &reqs, &rep.workdir, tag);
    for (c, m) in cases.iter().zip(ans.iter()) {
        let case = json!({"op": "c16.rx.parse", "pattern_hex": hex(&c.pat), "pattern": String::from_utf8_lossy(&c.pat), "class": c.class});
        let ptext = match std::str::from_utf8(&c.pat) {
            Ok(s) => s,
            Err(_) => {
                rep.case(&format!("rx.parse {}", hex(&c.pat)), true);
                rep.count("rx.parse.notutf8");
                if m != "notutf8" {
                    rep.fail("disagreement", None, format!("the pattern bytes are not UTF-8, the model answers {}", m), case);
                }
                continue;
            }
        };
        let (real, _) = crate_new(ptext);
        let nontrivial = real != Out::Ok || m.starts_with("ok");
        rep.case(&format!("rx.parse {}", ptext), nontrivial);
        let mkind = m.split(' ').nth(1).unwrap_or("");
        if m.starts_with("ok") {
            rep.count("rx.parse.ok");
        } else if m == "err Unsupported" {
            rep.count(match real { Out::Ok => "rx.parse.unsupported(crate:ok)", Out::TooBig => "rx.parse.unsupported(crate:too-big)", Out::Err(_) => "rx.parse.unsupported(crate:error)" });
        } else {
            rep.count(&format!("rx.parse.err.{}", mkind));
        }
        // the generator's own knowledge: the oracle of the syntax
        let expect: Option<Out> = if c.class == "valid" || c.class == "limit-ok" {
            Some(Out::Ok)
        } else {
            c.class.strip_prefix("malformed:").map(|k| Out::Err(k.to_string()))
        };
        if let Some(e) = &expect {
            if *e != real {
                rep.fail("oracle", None, format!("a pattern the generator knows to be {:?}: the crate answers {:?}", e, real), case.clone());
                continue;
            }
            // … and the model must say so too (never `Unsupported` for something inside the subset)
            let want = match e {
                Out::Ok => "ok".to_string(),
                Out::Err(k) => format!("err {}", k),
                Out::TooBig => unreachable!(),
            };
            if !(m == &want || (want == "ok" && m.starts_with("ok "))) {
                rep.disagreements_checked += 1;
                rep.fail("disagreement", None, format!("the crate and the generator say {:?}, the model answers {}", e, m), case.clone());
                continue;
            }
        }
        if (c.class == "outside" || c.class == "limit-over") && m != "err Unsupported" {
            // a construct outside the subset before which nothing is wrong: the model has to decline
            rep.fail("disagreement", None, format!("outside the modelled subset, but the model answers {} (the crate: {:?})", m, real), case.clone());
            continue;
        }
        if let Some(why) = parse_disagrees(m, &real) {
            rep.disagreements_checked += 1;
            rep.fail("disagreement", None, why, case);
        }
    }
}

fn syntax(rep: &mut Report) {
    let mut rng = Rng::new(rep.seed ^ 0xC16_5E7);
    // development aid: C16_RX_N=<n> runs n syntax cases instead of the tier's budget
    let n = std::env::var("C16_RX_N").ok().and_then(|v| v.parse().ok()).unwrap_or_else(|| rep.budget(2500, 12));
    let mut cases: Vec<SynCase> = vec![];
    for i in 0..n {
        let (p, class) = match i % 10 {
            0..=3 => (gen_pattern(&mut rng).pattern(), "valid".to_string()),
            4 | 5 => {
                let (p, k) = gen_malformed(&mut rng);
                (p, format!("malformed:{}", k))
            }
            6 => (gen_outside(&mut rng), "outside".to_string()),
            _ => (gen_raw(&mut rng), "raw".to_string()),
        };
        cases.push(SynCase { pat: p.into_bytes(), class });
    }
    for bad in [vec![0xffu8], vec![b'a', 0xc3], vec![0xed, 0xa0, 0x80], vec![0xc0, 0xaf], vec![0xf4, 0x90, 0x80, 0x80]] {
        cases.push(SynCase { pat: bad, class: "notutf8".into() });
    }
    // the nest limit, from both sides, for every nesting construct
    for n in [124usize, 125, 249, 250] {
        for (l, m, r) in [("(", "a", ")"), ("(?:", "a", ")"), ("(", "ab", ")"), ("(", "a|b", ")"), ("(", "[ab]", ")"), ("(", "[^a]", ")"), ("(", "a*", ")"), ("(?:", "[a-c\\d]+", ")")] {
            let p = format!("{}{}{}", l.repeat(n), m, r.repeat(n));
            cases.push(SynCase { pat: p.into_bytes(), class: "raw".into() });
        }
        cases.push(SynCase { pat: format!("a{}", "*".repeat(n)).into_bytes(), class: "raw".into() });
        cases.push(SynCase { pat: format!("a{}", "{1}".repeat(n + 1)).into_bytes(), class: "raw".into() });
    }
    syntax_eval(rep, &cases, "rx_syntax");

    // the size limit: for every kind of atom the largest count the model still accepts must compile
    let atoms = ["a", "é", "\u{10348}", ".", "[^a]", "[a-z]", "\\d", "\\D", "\\s", "\\S", "\\w", "\\W", "[\\w\\s]", "[^\\d\\s]", "\\b", "^",
                 "(a|b)", "[α-ω]", "[\\-\u{80}-\u{10FFFE}]", "[^\u{81}-\u{7ff}\u{801}-\u{fffe}\u{10001}-\u{10fffe}]", "a*", "(?:ab|c?)", "(a{3}){2}"];
    let probes: Vec<String> = atoms.iter().map(|a| format!("c16.rx.parse {}", xhex(format!("{}{{1}}", a).as_bytes()))).collect();
    let ans = run_model_named(DRV, &probes, &rep.workdir, "rx_cost");
    let mut lim: Vec<SynCase> = vec![];
    let quick_pick = rep.seed as usize;
    for (ai, (a, m)) in atoms.iter().zip(ans.iter()).enumerate() {
        // compiling a pattern close to the limit takes the crate tens of milliseconds: the quick tier
        // takes every fourth atom (which ones depends on the seed), the thorough tier all
        if !rep.thorough() && (ai + quick_pick) % 4 != 0 {
            continue;
        }
        let cost: u64 = m.split(' ').nth(2).and_then(|c| c.parse().ok()).unwrap_or(0);
        if cost < 200 {
            rep.fail("disagreement", None, format!("the model does not accept {}{{1}}: {}", a, m), json!({"op": "c16.rx.parse", "pattern": format!("{}{{1}}", a)}));
            continue;
        }
        // cost (e{n}) = n * (cost e + 100) + 100, the limit is 4 000 000
        let unit = cost - 100;
        let n = (4_000_000 - 100) / unit;
        for (p, class) in [
            (format!("{}{{{}}}", a, n), "limit-ok"),
            (format!("{}{{0,{}}}", a, n), "limit-ok"),
            (format!("{}{{{},}}", a, n), "limit-ok"),
            (format!("(?:{}{{{}}}){{{}}}", a, n / 8, 7), "limit-ok"),
            (format!("{}{{{}}}", a, n + 1), "limit-over"),
            (format!("{}{{3,{}}}", a, n + 1), "limit-over"),
        ] {
            lim.push(SynCase { pat: p.into_bytes(), class: class.into() });
        }
    }
    syntax_eval(rep, &lim, "rx_limit");
}

// ---------------------------------------------------------------------------------------------
// streams `match` and `six`: FileFilter::create with real compiled patterns

struct MatchCase {
    /// six optional patterns (text), in the order of FileFilter::new
    pats: [Option<String>; 6],
    nodes: [Option<Node>; 6],
    text: Vec<u8>,
    op: &'static str,
}

impl MatchCase {
    fn json(&self) -> Value {
        json!({"op": self.op, "patterns": self.pats.iter().map(|p| p.clone()).collect::<Vec<_>>(), "text_hex": hex(&self.text),
               "text": String::from_utf8_lossy(&self.text)})
    }
    fn request(&self) -> String {
        let mut r = String::from("c16.rx.create");
        for p in &self.pats {
            r.push(' ');
            match p {
                Some(p) => r.push_str(&xhex(p.as_bytes())),
                None => r.push('-'),
            }
        }
        r.push(' ');
        r.push_str(&xhex(&self.text));
        r
    }
}

fn match_eval(rep: &mut Report, dir: &Path, cases: &[MatchCase], tag: &str) {
    let reqs: Vec<String> = cases.iter().map(|c| c.request()).collect();
    let ans = run_model_named(DRV, &reqs, &rep.workdir, tag);
    let file = dir.join("line.src");
    let (mut t_compile, mut t_create, mut t_oracle) = (0u128, 0u128, 0u128);
    for (c, m) in cases.iter().zip(ans.iter()) {
        let t0 = std::time::Instant::now();
        let compiled: Vec<Option<Result<Regex, Out>>> = c
            .pats
            .iter()
            .map(|p| p.as_ref().map(|p| match crate_new(p) { (_, Some(r)) => Ok(r), (o, None) => Err(o) }))
            .collect();
        if let Some(bad) = compiled.iter().flatten().find_map(|r| r.as_ref().err()) {
            // only reached in replays of edited cases: generated patterns compile
            rep.case(&format!("{} {:?}", c.op, c.pats), false);
            if !m.starts_with("usage ") {
                rep.fail("disagreement", None, format!("a pattern does not compile ({:?}) but the model answers {}", bad, m), c.json());
            }
            continue;
        }
        let re = |i: usize| compiled[i].as_ref().map(|r| r.as_ref().unwrap().clone());
        let ff = FileFilter::new(re(0), re(1), re(2), re(3), re(4), re(5));
        t_compile += t0.elapsed().as_micros();
        let t0 = std::time::Instant::now();
        std::fs::write(&file, &c.text).unwrap();
        let obs = crate::observe_create(&ff, &file);
        t_create += t0.elapsed().as_micros();
        let t0 = std::time::Instant::now();
        // the property, on the independent matcher's bits
        let lines = crate::split_lines(&c.text);
        let readable = std::str::from_utf8(&c.text).is_ok();
        let mut opts = [false; 6];
        for i in 0..6 {
            opts[i] = c.pats[i].is_some();
        }
        let bits: Vec<[bool; 6]> = if readable {
            lines
                .iter()
                .map(|l| {
                    let s = std::str::from_utf8(l).unwrap();
                    let mut b = [false; 6];
                    for i in 0..6 {
                        if let Some(n) = &c.nodes[i] {
                            b[i] = n.is_match(s);
                        }
                    }
                    b
                })
                .collect()
        } else {
            vec![]
        };
        let spec = crate::spec_of(&opts, &bits, readable);
        t_oracle += t0.elapsed().as_micros();
        let want_l: BTreeSet<u32> = (1..=bits.len()).filter(|&n| spec.line[n]).map(|n| n as u32).collect();
        let want_b: BTreeSet<u32> = (1..=bits.len()).filter(|&n| spec.branch[n]).map(|n| n as u32).collect();
        let nontrivial = !want_l.is_empty() || !want_b.is_empty();
        rep.case(&format!("{} {:?} {}", c.op, c.pats, hex(&c.text)), nontrivial);
        rep.count(if nontrivial { "rx.create.some-line-excluded" } else { "rx.create.nothing-excluded" });
        if obs.panicked || obs.lines != want_l || obs.branches != want_b {
            rep.fail(
                "oracle",
                None,
                format!("FileFilter::create removes lines {:?} branches {:?}; the independent matcher and the marker rule say lines {:?} branches {:?}", obs.lines, obs.branches, want_l, want_b),
                c.json(),
            );
            continue;
        }
        if &obs.text != m {
            rep.disagreements_checked += 1;
            rep.fail("disagreement", None, format!("FileFilter::create: {} ; model createPat: {}", obs.text, m), c.json());
        }
    }
    rep.notes.push(format!("{}: {} cases; Regex::new {} ms, FileFilter::create {} ms, independent matcher {} ms", tag, cases.len(), t_compile / 1000, t_create / 1000, t_oracle / 1000));
}

fn none6<X>() -> [Option<X>; 6] {
    [None, None, None, None, None, None]
}

fn gen_match_case(rng: &mut Rng) -> MatchCase {
    let node = gen_pattern(rng);
    let k = 1 + rng.below(7);
    let lines: Vec<String> = (0..k).map(|_| gen_line(rng, &node)).collect();
    let text = if rng.chance(1, 40) { vec![] } else { gen_text(rng, &lines) };
    let mut pats = none6();
    let mut nodes = none6();
    // mostly the line marker; sometimes the branch-line marker, to see `B` entries
    let slot = if rng.chance(1, 6) { 3 } else { 0 };
    pats[slot] = Some(node.pattern());
    nodes[slot] = Some(node);
    MatchCase { pats, nodes, text, op: "c16.rx.create.one" }
}

/// simple patterns for markers: a literal word, optionally anchored / with a class or a repetition
fn gen_marker(rng: &mut Rng, word: &str) -> (Node, String) {
    let lits: Vec<Node> = word.chars().map(|c| Lit(c, 0)).collect();
    let core = Cat(lits);
    let n = match rng.below(8) {
        0 | 1 | 2 => core,
        3 => Cat(vec![Look(4), core, Look(4)]),
        4 => Cat(vec![Look(0), Rep(Box::new(Perl(1, false)), 0, None, 0, false), Lit('/', 0), Lit('/', 1), Rep(Box::new(Lit(' ', 0)), 0, Some(1), 0, false), core]),
        5 => Cat(vec![core, Rep(Box::new(Perl(1, false)), 0, None, 0, true), Look(1)]),
        6 => Cat(vec![Group(true, Box::new(Alt(vec![core.clone(), Cat(vec![Lit('#', 1), core])]))), Class(true, 0, false, vec![Item::Perl(2, false)], false)]),
        _ => Cat(vec![core, Rep(Box::new(Class(false, 0, false, vec![Item::Range('0', '7')], false)), 1, Some(2), 1, false)]),
    };
    // a line fragment that (usually) carries the marker
    let mut frag = String::new();
    n.sample(rng, &mut frag);
    (n, frag)
}

fn gen_six_case(rng: &mut Rng) -> MatchCase {
    const WORDS: [&str; 6] = ["NOCOV", "BEGIN", "END", "NOBR", "BRON", "BROFF"];
    let mut pats = none6();
    let mut nodes = none6();
    let mut frags: Vec<Option<String>> = vec![None; 6];
    let shared = rng.chance(1, 6);
    for i in 0..6 {
        if rng.chance(4, 5) {
            let w = if shared && (i == 2 || i == 5) { WORDS[i - 1] } else { WORDS[i] };
            let (n, f) = gen_marker(rng, w);
            pats[i] = Some(n.pattern());
            nodes[i] = Some(n);
            frags[i] = Some(f);
        }
    }
    let k = rng.below(13);
    let mut lines = vec![];
    for _ in 0..k {
        let mut l = String::new();
        let anchored_first = rng.chance(1, 2);
        if !anchored_first {
            l.push_str(["x = 1;", "", "  f(a); ", "\t", "} // é 名"][rng.below(5) as usize]);
        }
        for _ in 0..[0, 0, 0, 1, 1, 2][rng.below(6) as usize] {
            if let Some(Some(f)) = frags.get(rng.below(6) as usize) {
                l.push_str(f);
                if rng.chance(1, 2) {
                    l.push(' ');
                }
            }
        }
        lines.push(l);
    }
    let text = if k == 0 { vec![] } else { gen_text(rng, &lines) };
    MatchCase { pats, nodes, text, op: "c16.rx.create.six" }
}

fn matching(rep: &mut Report) {
    let mut rng = Rng::new(rep.seed ^ 0xC16_3A7);
    let dir = rep.workdir.join("rx");
    std::fs::create_dir_all(&dir).unwrap();
    let n = rep.budget(2500, 12);
    let cases: Vec<MatchCase> = (0..n).map(|_| gen_match_case(&mut rng)).collect();
    match_eval(rep, &dir, &cases, "rx_match");
    let n = rep.budget(800, 12);
    let mut cases: Vec<MatchCase> = (0..n).map(|_| gen_six_case(&mut rng)).collect();
    // the default lcov markers, written as patterns
    let lcov = ["LCOV_EXCL_LINE", "LCOV_EXCL_START", "LCOV_EXCL_STOP", "LCOV_EXCL_BR_LINE", "LCOV_EXCL_BR_START", "LCOV_EXCL_BR_STOP"];
    let mut pats = none6();
    let mut nodes = none6();
    for i in 0..6 {
        pats[i] = Some(lcov[i].to_string());
        nodes[i] = Some(Cat(lcov[i].chars().map(|c| Lit(c, 0)).collect()));
    }
    let text = b"a(); // LCOV_EXCL_LINE\r\nb();\n// LCOV_EXCL_START\nc();\n// LCOV_EXCL_STOP\nif (d) // LCOV_EXCL_BR_LINE\n/* LCOV_EXCL_BR_START */\nif (e)\n/* LCOV_EXCL_BR_STOP */ // LCOV_EXCL_LINE_NOT\n\xc3\xa9 LCOV_EXCL_STAR\n".to_vec();
    cases.push(MatchCase { pats, nodes, text, op: "c16.rx.create.six" });
    // a file that is not UTF-8: read_to_string fails, nothing is excluded
    let mut pats = none6();
    let mut nodes = none6();
    pats[0] = Some("a".into());
    nodes[0] = Some(Lit('a', 0));
    cases.push(MatchCase { pats, nodes, text: vec![b'a', b'\n', 0xff, b'a', b'\n'], op: "c16.rx.create.six" });
    match_eval(rep, &dir, &cases, "rx_six");
}

// ---------------------------------------------------------------------------------------------
// stream `cli`: the real binary

const EXCL_OPTS: [&str; 6] = ["--excl-line", "--excl-start", "--excl-stop", "--excl-br-line", "--excl-br-start", "--excl-br-stop"];

struct CliCase {
    /// option values as BYTES (a value may be invalid UTF-8)
    vals: [Option<Vec<u8>>; 6],
    text: Vec<u8>,
}

impl CliCase {
    fn json(&self) -> Value {
        json!({"op": "c16.rx.cli", "values_hex": self.vals.iter().map(|v| v.as_ref().map(|v| hex(v))).collect::<Vec<_>>(),
               "values": self.vals.iter().map(|v| v.as_ref().map(|v| String::from_utf8_lossy(v).to_string())).collect::<Vec<_>>(),
               "text_hex": hex(&self.text)})
    }
    fn request(&self) -> String {
        let mut r = String::from("c16.rx.create");
        for v in &self.vals {
            r.push(' ');
            match v {
                Some(v) => r.push_str(&xhex(v)),
                None => r.push('-'),
            }
        }
        r.push(' ');
        r.push_str(&xhex(&self.text));
        r
    }
}

fn cli_eval(rep: &mut Report, root: &Path, cases: &[CliCase], tag: &str) {
    use std::os::unix::ffi::OsStringExt;
    let reqs: Vec<String> = cases.iter().map(|c| c.request()).collect();
    let ans = run_model_named(DRV, &reqs, &rep.workdir, tag);
    for (idx, (c, m)) in cases.iter().zip(ans.iter()).enumerate() {
        let dir = root.join(format!("c{}", idx));
        let _ = std::fs::remove_dir_all(&dir);
        std::fs::create_dir_all(dir.join("src")).unwrap();
        std::fs::write(dir.join("src/a.c"), &c.text).unwrap();
        let nlines = crate::split_lines(&c.text).len() as u32;
        // every line (and two beyond the text) has a count; every line has a branch
        let mut info = String::from("TN:\nSF:a.c\n");
        for n in 1..=nlines + 2 {
            info.push_str(&format!("DA:{},{}\n", n, n % 3));
        }
        for n in 1..=nlines + 2 {
            info.push_str(&format!("BRDA:{},0,0,1\nBRDA:{},0,1,-\n", n, n));
        }
        info.push_str("end_of_record\n");
        std::fs::write(dir.join("in.info"), info).unwrap();
        let mut cmd = std::process::Command::new(corrlib::pipe::grcov_bin());
        cmd.current_dir(&dir).args(["in.info", "-t", "lcov", "-s", "src", "--branch", "--no-demangle", "--threads", "1"]);
        for i in 0..6 {
            if let Some(v) = &c.vals[i] {
                cmd.arg(EXCL_OPTS[i]);
                cmd.arg(std::ffi::OsString::from_vec(v.clone()));
            }
        }
        let out = match cmd.output() {
            Ok(o) => o,
            Err(e) => {
                rep.notes.push(format!("rx cli stream: the grcov binary cannot be started: {}", e));
                return;
            }
        };
        let code = out.status.code().unwrap_or(-1);
        let stdout = String::from_utf8_lossy(&out.stdout).to_string();
        // what the crate itself says about the values (the oracle of the exit status)
        let all_compile = c.vals.iter().flatten().all(|v| std::str::from_utf8(v).map(|s| Regex::new(s).is_ok()).unwrap_or(false));
        rep.case(&format!("rx.cli {}", c.request()), true);
        rep.count(if all_compile { "rx.cli.run" } else { "rx.cli.usage-error" });
        if !all_compile {
            if code != 2 || !stdout.is_empty() {
                rep.fail("oracle", None, format!("an --excl-* value does not compile: expected exit status 2 and no report, got status {} and {} bytes", code, stdout.len()), c.json());
                continue;
            }
            if !(m.starts_with("usage ")) {
                rep.disagreements_checked += 1;
                rep.fail("disagreement", None, format!("the binary refuses the command line (status 2), the model answers {}", m), c.json());
            }
            continue;
        }
        if m == "usage Unsupported" {
            rep.count("rx.cli.unsupported");
            continue;
        }
        if code != 0 {
            rep.fail("oracle", None, format!("all --excl-* values compile but the run ends with status {}: {}", code, String::from_utf8_lossy(&out.stderr)), c.json());
            continue;
        }
        let decoded = match corrlib::pipe::decode_lcov_report(&stdout) {
            Ok(d) => d,
            Err(e) => {
                rep.fail("oracle", None, format!("the lcov report does not decode: {}", e), c.json());
                continue;
            }
        };
        let cov = decoded.values().next();
        let mut parts = vec![];
        for n in 1..=nlines + 2 {
            let l = cov.map(|c| !c.lines.contains_key(&n)).unwrap_or(true);
            let b = cov.map(|c| !c.branches.contains_key(&n)).unwrap_or(true);
            match (l, b) {
                (true, true) => parts.push(format!("X{}", n)),
                (true, false) => parts.push(format!("L{}", n)),
                (false, true) => parts.push(format!("B{}", n)),
                _ => {}
            }
        }
        let real = if parts.is_empty() { "-".to_string() } else { parts.join(",") };
        if &real != m {
            rep.disagreements_checked += 1;
            rep.fail("disagreement", None, format!("lines / branches missing from the report: {} ; model createPat: {}", real, m), c.json());
        }
        let _ = std::fs::remove_dir_all(&dir);
    }
}

fn cli(rep: &mut Report) {
    if !corrlib::pipe::grcov_bin().exists() {
        rep.notes.push("rx cli stream skipped: no grcov binary".into());
        return;
    }
    let mut rng = Rng::new(rep.seed ^ 0xC16_C11);
    let root = std::fs::canonicalize(&rep.workdir).unwrap().join("rxcli");
    let _ = std::fs::remove_dir_all(&root);
    std::fs::create_dir_all(&root).unwrap();
    let n = rep.budget(36, 8);
    let mut cases = vec![];
    for i in 0..n {
        let base = if i % 3 == 0 { gen_match_case(&mut rng) } else { gen_six_case(&mut rng) };
        let mut vals: [Option<Vec<u8>>; 6] = none6();
        for k in 0..6 {
            vals[k] = base.pats[k].as_ref().map(|p| p.clone().into_bytes());
        }
        // a value that starts with `-` would be taken for an option by clap: not what this stream is about
        if vals.iter().flatten().any(|v| v.first() == Some(&b'-')) {
            continue;
        }
        if i % 4 == 3 {
            // one value replaced by something that does not compile (or is outside the subset)
            let k = rng.below(6) as usize;
            vals[k] = Some(match rng.below(6) {
                0 => gen_malformed(&mut rng).0.into_bytes(),
                1 => b"a(".to_vec(),
                2 => vec![b'a', 0xff],
                3 => b"\\w{1000}".to_vec(),
                4 => gen_outside(&mut rng).into_bytes(),
                _ => b"[z-a]".to_vec(),
            });
            if vals[k].as_ref().unwrap().first() == Some(&b'-') || vals[k].as_ref().unwrap().contains(&0) {
                continue;
            }
        }
        if vals.iter().flatten().any(|v| v.contains(&0)) {
            continue;
        }
        cases.push(CliCase { vals, text: base.text });
    }
    cli_eval(rep, &root, &cases, "rx_cli");
    let _ = std::fs::remove_dir_all(&root);
}

// ---------------------------------------------------------------------------------------------

pub fn run(rep: &mut Report) {
    rep.rule.push_str(
        "; regex streams: patterns printed from generated trees of the modelled subset of the regex crate's syntax (literals incl. \
         non-ASCII and escaped, `.`, classes with ranges / negation / leading `]` `-` / Perl and POSIX classes, `\\d\\s\\w` and negations, groups, \
         alternation, `? * + {n} {n,} {n,m}` lazy or not and with white space, every assertion `^ $ \\A \\z \\b \\B \\< \\> \\b{start|end|start-half|end-half}`, hex escapes), malformed patterns of every error \
         kind, constructs outside the subset, raw glued pieces, patterns at the nest and size limits; lines sampled from the pattern \
         plus noise (ASCII, non-ASCII, empty, CR inside and at the end), LF/CRLF texts: Regex::new outcome and FileFilter::create vs \
         the model, an independent matcher and the marker rule; the real binary with pattern options",
    );
    let t0 = std::time::Instant::now();
    tables(rep);
    let t1 = t0.elapsed().as_millis();
    syntax(rep);
    let t2 = t0.elapsed().as_millis();
    matching(rep);
    let t3 = t0.elapsed().as_millis();
    cli(rep);
    rep.notes.push(format!("regex streams: tables {} ms, syntax {} ms, match+six {} ms, cli {} ms", t1, t2 - t1, t3 - t2, t0.elapsed().as_millis() - t3));
}

pub fn replay(rep: &mut Report, case: &Value) -> bool {
    let op = case["op"].as_str().unwrap_or("");
    if !op.starts_with("c16.rx.") {
        return false;
    }
    let dir = rep.workdir.join("rx");
    std::fs::create_dir_all(&dir).unwrap();
    if op == "c16.rx.parse" {
        let pat = unhex(case["pattern_hex"].as_str().unwrap_or(""));
        syntax_eval(rep, &[SynCase { pat, class: case["class"].as_str().unwrap_or("raw").to_string() }], "rx_replay");
    } else if op == "c16.rx.table" {
        tables(rep);
    } else if op == "c16.rx.cli" {
        let mut vals: [Option<Vec<u8>>; 6] = none6();
        for i in 0..6 {
            vals[i] = case["values_hex"][i].as_str().map(unhex);
        }
        let root = std::fs::canonicalize(&rep.workdir).unwrap().join("rxcli");
        cli_eval(rep, &root, &[CliCase { vals, text: unhex(case["text_hex"].as_str().unwrap_or("")) }], "rx_replay");
    } else {
        // a create case: the patterns are replayed as text; the independent matcher has no tree for
        // them, so the replay compares the real code with the model only
        let mut pats: [Option<String>; 6] = none6();
        for i in 0..6 {
            pats[i] = case["patterns"][i].as_str().map(|s| s.to_string());
        }
        let text = unhex(case["text_hex"].as_str().unwrap_or(""));
        let c = MatchCase { pats, nodes: none6(), text, op: "c16.rx.create.replay" };
        let ans = run_model_named(DRV, &[c.request()], &rep.workdir, "rx_replay");
        let compiled: Vec<Option<Regex>> = c.pats.iter().map(|p| p.as_ref().and_then(|p| Regex::new(p).ok())).collect();
        if c.pats.iter().zip(compiled.iter()).any(|(p, r)| p.is_some() && r.is_none()) {
            rep.notes.push("replay: a pattern of the case does not compile".into());
            return true;
        }
        let ff = FileFilter::new(compiled[0].clone(), compiled[1].clone(), compiled[2].clone(), compiled[3].clone(), compiled[4].clone(), compiled[5].clone());
        let file = dir.join("line.src");
        std::fs::write(&file, &c.text).unwrap();
        let obs = crate::observe_create(&ff, &file);
        rep.case(&c.request(), true);
        if obs.text != ans[0] {
            rep.fail("disagreement", None, format!("FileFilter::create: {} ; model createPat: {}", obs.text, ans[0]), c.json());
        }
    }
    true
}
