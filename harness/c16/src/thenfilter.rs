//! C16, part Select — exclusion markers THEN `--filter covered|uncovered` (review 2, item 7, C16 half).
//!
//! `rewrite_paths` applies the marker loop first and evaluates `is_covered` on the reduced record
//! (path_rewriting.rs 377-404). Stream `thenfilter`: the REAL `rewrite_paths` with
//! `filter_option ∈ {None, Some(true), Some(false)}` and a `FileFilter` over generated sources; the
//! records are shaped so that the decision depends on the order of the two steps: every executed
//! line excluded (raw record covered, reduced record uncovered), executed lines partly excluded,
//! executed lines only outside the exclusions, 0 / 1 / several functions (with `top-level`).
//!  * oracle (independent of the model and of grcov): the record the property predicts (marked
//!    lines / branches removed, by the quantifier-form spec of main.rs) is reported iff a plain
//!    re-statement of "covered" (some line count non-zero, and at most one function or some executed
//!    function other than `top-level`) of THAT record agrees with the filter; what is reported is
//!    exactly that record;
//!  * tie: driver op `ffselect` (`FileFilter.rewriteThenFilter`, Props/C16Filter.lean
//!    `C16_then_filter*`).
//! Also here: the documentation observation of review item 36 (stop line "part of this section").
use super::*;

#[derive(Clone)]
struct TfCase {
    base: Case,
    filter: Option<bool>,
    shape: &'static str,
}

fn filter_tag(f: Option<bool>) -> &'static str {
    match f {
        None => "n",
        Some(true) => "c",
        Some(false) => "u",
    }
}

/// "covered", written from the documentation of `--filter` and filter.rs' comments, on a record
fn covered(c: &CovResult) -> bool {
    let any_line = c.lines.values().any(|&n| n != 0);
    let nf = c.functions.len();
    let any_fn = c.functions.iter().any(|(n, f)| f.executed && n != "top-level");
    any_line && (nf <= 1 || any_fn)
}

fn tf_json(c: &TfCase) -> Value {
    let mut cj = case_json(&c.base);
    cj["op"] = json!("c16.thenfilter");
    cj["filter"] = json!(filter_tag(c.filter));
    cj["shape"] = json!(c.shape);
    cj
}

fn tf_from_json(v: &Value) -> Option<TfCase> {
    let base = case_from_json(v)?;
    let filter = match v["filter"].as_str()? {
        "c" => Some(true),
        "u" => Some(false),
        _ => None,
    };
    Some(TfCase { base, filter, shape: "replay" })
}

/// shape the record of a generated case
fn shape_case(rng: &mut Rng, ctx: &Ctx, mut base: Case) -> TfCase {
    let readable = base.kind == SrcKind::Text;
    let bs = ctx.re.bits(&base);
    let spec = spec_of(&base.opts, &bs, readable);
    let len = bs.len();
    let excluded: Vec<u32> = (1..=len).filter(|&n| spec.line[n]).map(|n| n as u32).collect();
    let kept: Vec<u32> = (1..=len).filter(|&n| !spec.line[n]).map(|n| n as u32).collect();
    let mut cov = CovResult::default();
    // branch data everywhere now and then: must never influence the decision
    for k in 1..=(len as u32 + 1) {
        if rng.chance(1, 3) {
            cov.branches.insert(k, vec![rng.chance(1, 2), rng.chance(1, 2)]);
        }
    }
    let hit = |rng: &mut Rng| *rng.pick(&[1u64, 2, 7, 1000, u64::MAX]);
    let shape = match rng.below(10) {
        // every executed line is excluded: covered before, uncovered after
        0..=3 if !excluded.is_empty() => {
            for &n in &excluded {
                if rng.chance(2, 3) {
                    cov.lines.insert(n, hit(rng));
                }
            }
            if cov.lines.is_empty() {
                cov.lines.insert(excluded[0], hit(rng));
            }
            for &n in &kept {
                if rng.chance(1, 2) {
                    cov.lines.insert(n, 0);
                }
            }
            // a key beyond the file with count 0
            if rng.chance(1, 4) {
                cov.lines.insert(len as u32 + 2, 0);
            }
            "all_hits_excluded"
        }
        // one executed line survives
        4 | 5 if !kept.is_empty() => {
            for &n in &excluded {
                if rng.chance(1, 2) {
                    cov.lines.insert(n, hit(rng));
                }
            }
            let k = *rng.pick(&kept);
            cov.lines.insert(k, hit(rng));
            for &n in &kept {
                if n != k && rng.chance(1, 3) {
                    cov.lines.insert(n, 0);
                }
            }
            "a_hit_survives"
        }
        // the only executed line lies beyond the text (a key the markers cannot reach)
        6 => {
            for &n in &excluded {
                cov.lines.insert(n, if rng.chance(1, 2) { 0 } else { hit(rng) });
            }
            cov.lines.insert(len as u32 + 1, hit(rng));
            "hit_beyond_the_text"
        }
        // nothing executed at all
        7 => {
            for n in 1..=(len as u32) {
                if rng.chance(1, 2) {
                    cov.lines.insert(n, 0);
                }
            }
            "no_hit"
        }
        _ => {
            cov = gen_cov(rng, len);
            "random_record"
        }
    };
    // functions: the second clause of `is_covered`
    cov.functions.clear();
    let pool = ["main", "f", "top-level", "é∀", "g"];
    let nf = *rng.pick(&[0usize, 0, 1, 1, 2, 3]);
    for i in 0..nf {
        let name = pool[(rng.below(pool.len() as u64) as usize + i) % pool.len()];
        cov.functions.insert(name.to_string(), Function { start: rng.range(1, len as u64 + 1) as u32, executed: rng.chance(1, 2) });
    }
    base.cov = cov;
    base.via_rewrite = true;
    base.origin = "thenfilter";
    let filter = match rng.below(5) {
        0 => None,
        1 | 2 => Some(true),
        _ => Some(false),
    };
    TfCase { base, filter, shape }
}

/// the real `rewrite_paths` on a group of cases that share options, pattern set and filter
fn rewrite_group_f(ctx: &Ctx, cases: &[TfCase], idxs: &[usize], names: &[String]) -> Vec<String> {
    let first = &cases[idxs[0]];
    let ff = ctx.re.filter(&first.base);
    let filter = first.filter;
    let mut map: grcov::CovResultMap = fxmap();
    for (&i, name) in idxs.iter().zip(names) {
        map.insert(name.clone(), cases[i].base.cov.clone());
    }
    let none: Vec<String> = vec![];
    let src = ctx.src_dir.clone();
    let r = guarded(AssertUnwindSafe(|| grcov::rewrite_paths(map, None, Some(src.as_path()), None, false, &none, &none, filter, ff)));
    match r {
        Err(p) => idxs.iter().map(|_| format!("panic {}", p)).collect(),
        Ok(v) => {
            let mut by_rel: BTreeMap<String, String> = BTreeMap::new();
            for (_abs, rel, cov) in v {
                by_rel.insert(rel.to_string_lossy().to_string(), show_cov(&cov));
            }
            names.iter().map(|n| by_rel.get(n).cloned().unwrap_or_else(|| "absent".into())).collect()
        }
    }
}

fn evaluate_tf(rep: &mut Report, ctx: &Ctx, cases: &[TfCase], tag: &str) {
    let mut groups: BTreeMap<(String, usize, &'static str), (Vec<usize>, Vec<String>)> = BTreeMap::new();
    let mut all_bits: Vec<Vec<[bool; 6]>> = vec![];
    for (i, c) in cases.iter().enumerate() {
        let name = format!("{}{}_{}.c", tag, i, c.base.kind.name());
        let path = ctx.src_dir.join(&name);
        place(&c.base, &path);
        all_bits.push(ctx.re.bits(&c.base));
        let g = groups.entry((optstr(&c.base.opts), c.base.patset, filter_tag(c.filter))).or_insert_with(|| (vec![], vec![]));
        g.0.push(i);
        g.1.push(name);
    }
    let mut got: Vec<String> = vec![String::new(); cases.len()];
    for (_k, (idxs, names)) in &groups {
        for (ci, cn) in idxs.chunks(64).zip(names.chunks(64)) {
            let outs = rewrite_group_f(ctx, cases, ci, cn);
            for (&i, o) in ci.iter().zip(outs) {
                got[i] = o;
            }
        }
    }
    let reqs: Vec<String> = cases
        .iter()
        .enumerate()
        .map(|(i, c)| {
            format!(
                "ffselect {} {} {} {} {}",
                optstr(&c.base.opts),
                if c.base.kind == SrcKind::Text { 1 } else { 0 },
                bits_str(&all_bits[i]),
                filter_tag(c.filter),
                show_cov(&c.base.cov)
            )
        })
        .collect();
    let model = run_model_named("gm_c16", &reqs, &rep.workdir, tag);
    let mut sampled = false;
    for (i, c) in cases.iter().enumerate() {
        let readable = c.base.kind == SrcKind::Text;
        let spec = spec_of(&c.base.opts, &all_bits[i], readable);
        let want_cov = expected_cov(&c.base, &spec);
        let raw_cov = covered(&c.base.cov);
        let red_cov = covered(&want_cov);
        let want_present = match c.filter {
            None => true,
            Some(true) => red_cov,
            Some(false) => !red_cov,
        };
        let want = if want_present { show_cov(&want_cov) } else { "absent".to_string() };
        let excluded_any = (1..spec.line.len()).any(|n| spec.line[n] || spec.branch[n]);
        rep.case(&format!("thenfilter {} {} {} {} {}", optstr(&c.base.opts), c.base.kind.name(), bits_str(&all_bits[i]), filter_tag(c.filter), show_cov(&c.base.cov)),
                 c.filter.is_some() && excluded_any);
        rep.count(&format!("thenfilter.filter.{}", match c.filter { None => "none", Some(true) => "covered", Some(false) => "uncovered" }));
        rep.count(&format!("thenfilter.shape.{}", c.shape));
        rep.count(match (raw_cov, red_cov) {
            (true, false) => "thenfilter.status.covered_becomes_uncovered",
            (true, true) => "thenfilter.status.stays_covered",
            (false, false) => "thenfilter.status.stays_uncovered",
            (false, true) => "thenfilter.status.uncovered_becomes_covered(impossible)",
        });
        rep.count(&format!("thenfilter.functions={}", c.base.cov.functions.len().min(3)));
        rep.count(if want_present { "thenfilter.reported" } else { "thenfilter.dropped" });
        if c.filter.is_some() && raw_cov != red_cov {
            rep.count("thenfilter.decision_depends_on_the_order");
        }
        if !sampled && c.filter == Some(true) && raw_cov && !red_cov {
            sampled = true;
            rep.sample(json!({"request": reqs[i], "impl": got[i], "model": model[i], "source": String::from_utf8_lossy(&c.base.text)}));
        }
        let oracle_ok = got[i] == want;
        if !oracle_ok {
            let what = if got[i].starts_with("panic") {
                format!("rewrite_paths with --filter and markers: {}", got[i])
            } else if (got[i] == "absent") != (want == "absent") {
                format!(
                    "--filter {}: the file is {} although its record AFTER the exclusion markers is {} (before them: {}); the decision must be taken on the data after exclusion",
                    match c.filter { Some(true) => "covered", Some(false) => "uncovered", None => "(none)" },
                    if got[i] == "absent" { "dropped" } else { "reported" },
                    if red_cov { "covered" } else { "uncovered" },
                    if raw_cov { "covered" } else { "uncovered" }
                )
            } else {
                "the reported record is not the record with exactly the marked lines / branches removed".to_string()
            };
            let mut cj = tf_json(c);
            cj["impl"] = json!(got[i]);
            cj["expected"] = json!(want);
            rep.fail("oracle", None, what, cj);
        }
        if got[i] != model[i] {
            rep.disagreements_checked += 1;
            if oracle_ok {
                let mut cj = tf_json(c);
                cj["request"] = json!(reqs[i]);
                cj["impl"] = json!(got[i]);
                cj["model"] = json!(model[i]);
                rep.fail("disagreement", None, "rewrite_paths (markers, then --filter) differs from FileFilter.rewriteThenFilter (C16_then_filter* no longer transfer)".into(), cj);
            }
        }
    }
}

/// the witness of review item 7 and the stop-line case of the documentation observation
fn corpus_cases() -> Vec<TfCase> {
    let l = |bits: &[usize], eol: u8| {
        let mut w = [false; 6];
        for &b in bits {
            w[b] = true;
        }
        LineSpec { want: w, filler: 0, eol }
    };
    let mut out = vec![];
    // a.c: DA:1,5 DA:2,0, line 1 carries the line marker
    let mut cov = CovResult::default();
    cov.lines.insert(1, 5);
    cov.lines.insert(2, 0);
    for f in [None, Some(true), Some(false)] {
        let base = text_case(opts_of(0b000001), 0, vec![l(&[0], 0), l(&[], 0)], cov.clone(), true, "thenfilter");
        out.push(TfCase { base, filter: f, shape: "witness_item7" });
    }
    // start / plain / stop: the stop line (3) keeps its data – it is NOT part of the section
    let mut cov = CovResult::default();
    cov.lines.insert(1, 1);
    cov.lines.insert(2, 1);
    cov.lines.insert(3, 9);
    cov.branches.insert(3, vec![true]);
    for f in [None, Some(true)] {
        let base = text_case([true; 6], 0, vec![l(&[1, 4], 0), l(&[], 0), l(&[2, 5], 0)], cov.clone(), true, "thenfilter");
        out.push(TfCase { base, filter: f, shape: "stop_line_keeps_its_data" });
    }
    out
}

/// review 2, item 36: `--help` / README say the stop line is part of the section
fn doc_observation(rep: &mut Report) {
    let main = std::fs::read_to_string("/repo/src/main.rs").unwrap_or_default();
    let lines: Vec<&str> = main.lines().collect();
    let mut hits = vec![];
    for (i, l) in lines.iter().enumerate() {
        let t = l.trim();
        if t.starts_with("excl_stop:") || t.starts_with("excl_br_stop:") {
            // the doc comment above the field (skipping the #[arg] line)
            let mut j = i;
            let mut doc = vec![];
            while j > 0 {
                j -= 1;
                let u = lines[j].trim();
                if u.starts_with("#[") {
                    continue;
                }
                if let Some(d) = u.strip_prefix("///") {
                    doc.insert(0, d.trim().to_string());
                } else {
                    break;
                }
            }
            let text = doc.join(" ");
            if text.contains("The current line is part of this section") {
                hits.push(format!("main.rs {} ({}): \"{}\"", j + 2, t.split(':').next().unwrap_or(""), text));
            }
        }
    }
    if !hits.is_empty() {
        rep.count("observation.doc_stop_line_part_of_section");
        rep.notes.push(format!(
            "observation C16 (documentation, not a violation): --help / README say the STOP line is part of the excluded section; code, property text and lcov make it exclusive (C16_region_step; corpus case stop_line_keeps_its_data passes): {}",
            hits.join("; ")
        ));
    }
}

pub fn run(rep: &mut Report) {
    rep.rule.push_str("; thenfilter stream: generated sources and option subsets as in the main stream, records shaped around the exclusions (all executed lines excluded / one survives / only beyond the text / none / random; 0-3 functions incl. top-level), filter_option in {None, covered, uncovered} through the real rewrite_paths: reported iff the record AFTER exclusion is covered / uncovered, and it is that record (non-trivial = a filter and at least one excluded line or branch)");
    let ctx = ctx_new(rep);
    let t0 = std::time::Instant::now();
    evaluate_tf(rep, &ctx, &corpus_cases(), "tfc");
    let mut rng = Rng::new(rep.seed ^ 0xC16_F117);
    let n = rep.budget(4000, 20);
    let mut done = 0;
    while done < n && !rep.verdict_clear() {
        let k = (n - done).min(10_000);
        let cases: Vec<TfCase> = (0..k)
            .map(|_| {
                let b = random_case(&mut rng);
                shape_case(&mut rng, &ctx, b)
            })
            .collect();
        evaluate_tf(rep, &ctx, &cases, "tf");
        let _ = std::fs::remove_dir_all(&ctx.src_dir);
        std::fs::create_dir_all(&ctx.src_dir).unwrap();
        done += k;
    }
    rep.notes.push(format!("thenfilter stream: {} records through rewrite_paths with markers and --filter, {} ms", done, t0.elapsed().as_millis()));
    doc_observation(rep);
}

pub fn replay(rep: &mut Report, case: &Value) -> bool {
    if case["op"].as_str() != Some("c16.thenfilter") {
        return false;
    }
    let ctx = ctx_new(rep);
    match tf_from_json(case) {
        Some(c) => evaluate_tf(rep, &ctx, &[c], "tfreplay"),
        None => rep.notes.push("replay: not a thenfilter case".into()),
    }
    true
}
