//! C16, part RunAll — whole runs of the real binary with `--excl-*` options, every report type,
//! tied byte for byte to the Lean model `Cli.RunAll.run`. The machinery (case generator, decoders of
//! the seven report formats, independent marker rule, request builder) is the module of C02's part
//! (harness/c02/src/runall.rs), compiled into this crate as well.
#[path = "../../c02/src/runall.rs"]
mod core;
use corrlib::*;

/// `./check C16` does not build the hooked binary (it is not one of the CLI-level properties of the
/// check script): bring it up to date with /repo's working tree here, the way the build gate does.
fn ensure_binary() -> Result<(), String> {
    let out = std::process::Command::new("cargo")
        .args(["build", "--offline", "--manifest-path", "/repo/Cargo.toml", "--bin", "grcov", "--target-dir", "/verif/harness/target-grcov"])
        .env("RUSTFLAGS", "--cfg mozilla_grcov_verif")
        .env("CARGO_NET_OFFLINE", "true")
        .output()
        .map_err(|e| format!("cargo cannot be started: {}", e))?;
    if out.status.success() {
        Ok(())
    } else {
        Err(String::from_utf8_lossy(&out.stderr).chars().rev().take(1500).collect::<String>().chars().rev().collect())
    }
}

pub fn run(rep: &mut Report) {
    if let Err(e) = ensure_binary() {
        rep.notes.push(format!("runall stream skipped: /repo's grcov binary does not build with the hooks on: {}", e));
        return;
    }
    core::run_c16(rep);
    run_brcli(rep);
}

// ---- stream brcli: JaCoCo reports, branch markers, with and without `--branch` -----------------------
//
// main.rs 355-362 hands the three `--excl-br-*` regexes to `FileFilter::new` whether or not `--branch`
// is given, and the JaCoCo reader fills `branches` with or without `--branch`: the branch markers must
// remove the branch data of marked lines of a JaCoCo report in both cases (Props/C16Filter.lean
// `C16_main_branch_flag_irrelevant`, `C16_run_jacoco_branch_flag_irrelevant`). Every case has a JaCoCo
// input whose `<line>`s with branch counters sit on lines that carry a branch marker or lie in a branch
// region; half of the cases run WITHOUT `--branch`.
//  * tie: stdout == `Cli.RunAll.run` byte for byte (the model passes the six options whatever `--branch`);
//  * oracle (core::eval_case): the decoded report is the aggregate of what the real parsers return
//    in-process, with exactly the lines / branches removed that the independent marker rule names;
//  * oracle: for JaCoCo-only inputs the run with the `--branch` flag flipped writes the same bytes.

/// the literal markers `core` passes with the six options (core::MARKERS, same order)
const MK: [&str; 6] = ["NOCOV", "BEGINX", "ENDX", "NOBR", "BRBEGIN", "BREND"];

fn gen_java_text(rng: &mut Rng, n: usize) -> (Vec<u8>, Vec<usize>) {
    // returns the text and the 1-based lines that carry a branch marker or lie in a branch region
    let crlf = rng.chance(1, 3);
    let mut lines: Vec<String> = vec![];
    let mut hot = vec![];
    let mut in_br = false;
    for i in 0..n {
        let mut l = format!("    stmt{}();", i + 1);
        let k = rng.below(12);
        let mut marks: Vec<usize> = vec![];
        match k {
            0 | 1 | 2 => marks.push(3),
            3 | 4 => marks.push(4),
            5 => marks.push(5),
            6 => marks.push(0),
            7 => marks.push(1),
            8 => marks.push(2),
            9 => { marks.push(5); marks.push(4); }
            _ => {}
        }
        for &m in &marks {
            l.push_str(" // ");
            l.push_str(MK[m]);
        }
        // the state machine of the property text, for the generator's bias only (the oracle has its own)
        if in_br && marks.contains(&5) { in_br = false; }
        if marks.contains(&4) { in_br = true; }
        if in_br || marks.contains(&3) { hot.push(i + 1); }
        lines.push(l);
    }
    let eol = if crlf { "\r\n" } else { "\n" };
    let mut s = lines.join(eol);
    if rng.chance(5, 6) { s.push_str(eol); }
    (s.into_bytes(), hot)
}

fn gen_jacoco_br(rng: &mut Rng, files: &[(&str, usize, Vec<usize>)], tag: usize) -> Vec<u8> {
    let mut s = String::from("<?xml version=\"1.0\" encoding=\"UTF-8\" standalone=\"yes\"?><!DOCTYPE report PUBLIC \"-//JACOCO//DTD Report 1.0//EN\" \"report.dtd\">\n<report name=\"r\"><sessioninfo id=\"s\" start=\"1\" dump=\"2\"/>\n<package name=\"pkg\">\n");
    for (f, _, _) in files {
        let cls = f.trim_end_matches(".java");
        s.push_str(&format!("<class name=\"pkg/{}\" sourcefilename=\"{}\"><method name=\"m\" desc=\"()V\" line=\"1\"><counter type=\"METHOD\" missed=\"0\" covered=\"1\"/></method></class>\n", cls, f));
    }
    for (f, n, hot) in files {
        s.push_str(&format!("<sourcefile name=\"{}\">", f));
        for nr in 1..=(*n + 1) {
            let is_hot = hot.contains(&nr);
            if is_hot && rng.chance(4, 5) || !is_hot && rng.chance(1, 4) {
                s.push_str(&format!("<line nr=\"{}\" mi=\"0\" ci=\"2\" mb=\"{}\" cb=\"{}\"/>", nr, rng.range(0, 2), rng.range(1, 2)));
            } else if rng.chance(2, 3) {
                s.push_str(&format!("<line nr=\"{}\" mi=\"{}\" ci=\"{}\" mb=\"0\" cb=\"0\"/>", nr, rng.below(3), rng.below(3)));
            }
        }
        s.push_str("</sourcefile>\n");
    }
    s.push_str(&format!("</package></report>\n<!-- {} -->\n", tag));
    while s.len() < 300 { s.push_str("<!-- pad -->\n"); }
    s.into_bytes()
}

fn gen_brcli_case(rng: &mut Rng, i: u64) -> core::Case {
    let mut tree: Vec<(String, Vec<u8>)> = vec![];
    let mut files: Vec<(&str, usize, Vec<usize>)> = vec![];
    for f in ["A.java", "B.java"] {
        let n = rng.range(3, 12) as usize;
        let (text, hot) = gen_java_text(rng, n);
        tree.push((format!("src/pkg/{}", f), text));
        files.push((f, n, hot));
    }
    let mut inputs: Vec<(String, bool)> = vec![];
    let n_in = rng.range(1, 2) as usize;
    for k in 0..n_in {
        let sel: Vec<(&str, usize, Vec<usize>)> = if k == 0 || rng.chance(1, 2) { files.clone() } else { files[..1].to_vec() };
        tree.push((format!("in/in{}.xml", k), gen_jacoco_br(rng, &sel, k)));
        inputs.push((format!("in/in{}.xml", k), true));
    }
    // now and then a tracefile beside the reports (C sources without text: nothing to exclude there)
    let jacoco_only = !rng.chance(1, 4);
    if !jacoco_only {
        tree.push(("in/t.info".into(), b"TN:t\nSF:a.c\nFN:1,main\nFNDA:1,main\nDA:1,4\nDA:2,0\nBRDA:2,0,0,1\nBRDA:2,0,1,-\nend_of_record\n".to_vec()));
        tree.push(("src/a.c".into(), b"int main() { // NOBR\n  return 0; // BRBEGIN\n}\n".to_vec()));
        inputs.push(("in/t.info".into(), false));
    }
    rng.shuffle(&mut inputs);
    let mut excl = [false; 6];
    for (k, e) in excl.iter_mut().enumerate() {
        *e = if k >= 3 { rng.chance(3, 4) } else { rng.chance(1, 3) };
    }
    if !(excl[3] || excl[4]) {
        excl[*rng.pick(&[3usize, 4])] = true;
    }
    let ty = *rng.pick(&["lcov", "lcov", "lcov", "coveralls", "coveralls+", "covdir", "cobertura", "ade"]);
    core::Case {
        tree,
        cwd: ".".into(),
        source_dir: true,
        inputs,
        ty: ty.to_string(),
        sorted: rng.chance(1, 2),
        branch: i % 2 == 1,
        ignore: vec![],
        keep: vec![],
        filter: None,
        ignore_not_existing: false,
        excl,
        threads: rng.range(1, 2) as usize,
    }
}

fn brcli_flip_oracle(rep: &mut Report, dir: &std::path::Path, c: &core::Case, case: &serde_json::Value) {
    // JaCoCo-only inputs, a type without a time stamp: `--branch` must not matter
    if c.inputs.iter().any(|i| !i.1) || !["lcov", "covdir", "ade"].contains(&c.ty.as_str()) {
        return;
    }
    let args: Vec<String> = c.inputs.iter().map(|i| i.0.clone()).collect();
    let a = core::run_real(dir, c, &args, 1, true);
    let mut c2 = c.clone();
    c2.branch = !c.branch;
    let b = core::run_real(dir, &c2, &args, 1, true);
    rep.count("brcli.oracle.branch_flag_flipped");
    if a.exit != b.exit || a.stdout != b.stdout {
        // unsorted lcov / ade may list the records in another order: compare decoded
        let same = match (core::decode(&c.ty, &a.stdout), core::decode(&c.ty, &b.stdout)) {
            (Ok((x, _)), Ok((y, _))) => x == y && a.exit == b.exit,
            _ => false,
        };
        if !same {
            rep.fail("oracle", None,
                format!("JaCoCo inputs with --excl-br-*: the {} report with --branch differs from the report without --branch (a JaCoCo report carries its branch data in both cases, and the branch markers must act in both)", c.ty),
                serde_json::json!({"case": case, "with_branch": if c.branch { &a.stdout } else { &b.stdout }, "without_branch": if c.branch { &b.stdout } else { &a.stdout }}));
        }
    }
}

pub fn run_brcli(rep: &mut Report) {
    rep.rule.push_str("; brcli stream: the real binary on 1-2 JaCoCo reports (branch counters on lines that carry a branch marker or lie in a branch region) with --excl-br-line/-start/-stop (and line markers), alternately with and without --branch, types lcov / coveralls(+) / covdir / cobertura / ade: stdout == RunAll.run byte for byte, decoded report == aggregate with exactly the marked lines / branches removed, --branch flipped gives the same report");
    let n = rep.budget(24, 12);
    let mut rng = Rng::new(rep.seed ^ 0xC16B12);
    let root = std::fs::canonicalize(&rep.workdir).unwrap().join("brcli16");
    let _ = std::fs::remove_dir_all(&root);
    std::fs::create_dir_all(&root).unwrap();
    let t0 = std::time::Instant::now();
    let mut pend = vec![];
    for i in 0..n {
        if rep.verdict_clear() {
            break;
        }
        let c = gen_brcli_case(&mut rng, i);
        let dir = root.join(format!("case{}", i));
        rep.case(&c.canonical(), true);
        rep.count(if c.branch { "brcli.with_--branch" } else { "brcli.without_--branch" });
        rep.count(&format!("brcli.type.{}", c.ty));
        if let Some(p) = core::eval_case(rep, &dir, &c, "runall.c16br", true) {
            let case = p.case.clone();
            pend.push(p);
            brcli_flip_oracle(rep, &dir, &c, &case);
        }
        let _ = std::fs::remove_dir_all(&dir);
    }
    core::compare(rep, &pend, "brcli16");
    rep.notes.push(format!("brcli stream: {} runs on JaCoCo reports with branch markers (half without --branch) tied byte for byte with RunAll.run, {} ms", pend.len(), t0.elapsed().as_millis()));
}

pub fn replay(rep: &mut Report, case: &serde_json::Value) -> bool {
    let c0 = if case.get("case").is_some() { &case["case"] } else { case };
    if !c0["op"].as_str().unwrap_or("").starts_with("runall.") {
        return false;
    }
    if let Err(e) = ensure_binary() {
        rep.notes.push(format!("runall replay skipped: the grcov binary does not build: {}", e));
        return true;
    }
    core::replay(rep, case)
}
