//! C16, part RunAll — whole runs of the real binary with `--excl-*` options, every report type,
//! tied byte for byte to the Lean model `Cli.RunAll.run`. The machinery (case generator, decoders of
//! the seven report formats, independent marker rule, request builder) is the module of C02's part
//! (harness/c02/src/runall.rs), compiled into this crate as well.
#[path = "../../c02/src/runall.rs"]
mod core;
use corrlib::*;

/// `./check C16` does not build the hooked binary (it is not one of the CLI-level properties of the
/// check script): bring it up to date with /repo's working tree here, the way the build gate does.
fn ensure_binary() -> Result<(), String> {
    let out = std::process::Command::new("cargo")
        .args(["build", "--offline", "--manifest-path", "/repo/Cargo.toml", "--bin", "grcov", "--target-dir", "/verif/harness/target-grcov"])
        .env("RUSTFLAGS", "--cfg mozilla_grcov_verif")
        .env("CARGO_NET_OFFLINE", "true")
        .output()
        .map_err(|e| format!("cargo cannot be started: {}", e))?;
    if out.status.success() {
        Ok(())
    } else {
        Err(String::from_utf8_lossy(&out.stderr).chars().rev().take(1500).collect::<String>().chars().rev().collect())
    }
}

pub fn run(rep: &mut Report) {
    if let Err(e) = ensure_binary() {
        rep.notes.push(format!("runall stream skipped: /repo's grcov binary does not build with the hooks on: {}", e));
        return;
    }
    core::run_c16(rep);
}

pub fn replay(rep: &mut Report, case: &serde_json::Value) -> bool {
    let c0 = if case.get("case").is_some() { &case["case"] } else { case };
    if !c0["op"].as_str().unwrap_or("").starts_with("runall.") {
        return false;
    }
    if let Err(e) = ensure_binary() {
        rep.notes.push(format!("runall replay skipped: the grcov binary does not build: {}", e));
        return true;
    }
    core::replay(rep, case)
}
