//! C16 — exclusion markers: tie `FileFilter::create` and the removal loop of `rewrite_paths` to the
//! Lean model (driver `gm_c16`, component FileFilter) and evaluate an independent re-statement of
//! the property on the implementation's own output.
//!
//! What is trusted here: the `regex` crate (`is_match` per line; the six match bits sent to the
//! model are computed by this harness with its own compiled regexes) and this file's line
//! splitter (`split_lines`: one final LF dropped, split at LF, drop one trailing CR – tied to the
//! model's `splitSrc` by the `fflines` op).
use corrlib::*;
use grcov::{CovResult, FileFilter, FilterType, Function};
use regex::Regex;
use serde_json::{json, Value};
use std::collections::{BTreeMap, BTreeSet};
use std::panic::AssertUnwindSafe;
use std::path::{Path, PathBuf};

// History: before /repo commit c7806a2 a single-line marker of one dimension was ignored on a
// line lying only in a region of the other dimension (finding C16-marker-inside-other-region,
// fixed). Its minimal witnesses are the first three corpus cases of `witnesses()`: they must
// pass, and a recurrence is an ordinary violation (no matcher, no finding tag).

#[derive(Clone, Copy, PartialEq)]
enum Place {
    Front,
    Mid,
    End,
}
use Place::*;
mod runall;
mod thenfilter;
mod regexsyn;

/// order everywhere: excl_line, excl_start, excl_stop, excl_br_line, excl_br_start, excl_br_stop
struct PatSet {
    name: &'static str,
    pats: [&'static str; 6],
    toks: [(&'static str, Place); 6],
}

static PATSETS: [PatSet; 4] = [
    // the conventional literal markers
    PatSet {
        name: "lcov",
        pats: [
            "LCOV_EXCL_LINE",
            "LCOV_EXCL_START",
            "LCOV_EXCL_STOP",
            "LCOV_EXCL_BR_LINE",
            "LCOV_EXCL_BR_START",
            "LCOV_EXCL_BR_STOP",
        ],
        toks: [
            ("// LCOV_EXCL_LINE", Mid),
            ("// LCOV_EXCL_START", Mid),
            ("/* LCOV_EXCL_STOP */", Mid),
            ("// LCOV_EXCL_BR_LINE", Mid),
            ("// LCOV_EXCL_BR_START", Mid),
            ("// LCOV_EXCL_BR_STOP", Mid),
        ],
    },
    // anchored patterns: `$` only matches when the CR of a CRLF ending has been removed
    PatSet {
        name: "anchored",
        pats: [
            r"#L\b",
            r"^\s*//<<",
            r">>//$",
            r"#B\b",
            r"\[br-off\]",
            r"\[br-on\]",
        ],
        toks: [
            ("#L", Mid),
            ("  //<<", Front),
            (">>//", End),
            ("#B", Mid),
            ("[br-off]", Mid),
            ("[br-on]", Mid),
        ],
    },
    // the same regex for start and stop (every marker line matches both)
    PatSet {
        name: "shared",
        pats: ["SKIP", "TOGGLE", "TOGGLE", "NOBR", "BRFLIP", "BRFLIP"],
        toks: [
            ("SKIP", Mid),
            ("TOGGLE", Mid),
            ("TOGGLE", Mid),
            ("NOBR", Mid),
            ("BRFLIP", Mid),
            ("BRFLIP", Mid),
        ],
    },
    // non-ASCII markers; the line marker matches empty lines (also the empty piece after a
    // final newline and the blank line of a CRLF file)
    PatSet {
        name: "unicode",
        pats: ["^$", "début", r"\bfin\b", "∀", "分岐開始", "分岐終了"],
        toks: [
            ("", Mid),
            ("// début", Mid),
            ("// fin", Mid),
            ("/* ∀ */", Mid),
            ("// 分岐開始", Mid),
            ("// 分岐終了", Mid),
        ],
    },
];

const FILLERS: &[&str] = &[
    "x = 1;",
    "",
    "  return f(a, b); // ünïcödé 名前",
    "\t",
    "y(); // LCOV_EXCL",
    "a\rb",
    "}",
    "if (p && q) {",
];

/// one generated source line: the markers the generator places, a filler, a terminator
/// eol: 0 "\n", 1 "\r\n", 2 "\r\r\n", 3 nothing (last line only), 4 "\r" (last line only)
#[derive(Clone, Debug, PartialEq)]
struct LineSpec {
    want: [bool; 6],
    filler: usize,
    eol: u8,
}

fn render_line(ps: &PatSet, l: &LineSpec) -> String {
    let mut parts: Vec<&str> = vec![];
    for i in 0..6 {
        if l.want[i] && ps.toks[i].1 == Front {
            parts.push(ps.toks[i].0);
        }
    }
    let f = FILLERS[l.filler % FILLERS.len()];
    if !f.is_empty() {
        parts.push(f);
    }
    for i in 0..6 {
        if l.want[i] && ps.toks[i].1 == Mid && !ps.toks[i].0.is_empty() {
            // the two toggles of the "shared" set are one token
            if !parts.contains(&ps.toks[i].0) {
                parts.push(ps.toks[i].0);
            }
        }
    }
    for i in 0..6 {
        if l.want[i] && ps.toks[i].1 == End {
            parts.push(ps.toks[i].0);
        }
    }
    parts.join(" ")
}

fn render(ps: &PatSet, ls: &[LineSpec]) -> Vec<u8> {
    let mut s = String::new();
    for (i, l) in ls.iter().enumerate() {
        s.push_str(&render_line(ps, l));
        let last = i + 1 == ls.len();
        s.push_str(match l.eol {
            0 => "\n",
            1 => "\r\n",
            2 => "\r\r\n",
            3 if last => "",
            4 if last => "\r",
            _ => "\n",
        });
    }
    s.into_bytes()
}

/// the harness' own notion of "source line": exactly one final LF dropped, then the bytes between
/// LFs, one trailing CR removed (since /repo f854858; the empty text still has one empty piece)
fn split_lines(bytes: &[u8]) -> Vec<&[u8]> {
    fn strip_cr(b: &[u8]) -> &[u8] {
        if b.last() == Some(&b'\r') {
            &b[..b.len() - 1]
        } else {
            b
        }
    }
    let bytes = if bytes.last() == Some(&b'\n') { &bytes[..bytes.len() - 1] } else { bytes };
    let mut v = vec![];
    let mut st = 0;
    for i in 0..bytes.len() {
        if bytes[i] == b'\n' {
            v.push(strip_cr(&bytes[st..i]));
            st = i + 1;
        }
    }
    v.push(strip_cr(&bytes[st..]));
    v
}

#[derive(Clone, Copy, PartialEq, Debug)]
enum SrcKind {
    Text,
    NonUtf8,
    Missing,
    Dir,
}
impl SrcKind {
    fn name(self) -> &'static str {
        match self {
            SrcKind::Text => "text",
            SrcKind::NonUtf8 => "nonutf8",
            SrcKind::Missing => "missing",
            SrcKind::Dir => "dir",
        }
    }
    fn parse(s: &str) -> SrcKind {
        match s {
            "nonutf8" => SrcKind::NonUtf8,
            "missing" => SrcKind::Missing,
            "dir" => SrcKind::Dir,
            _ => SrcKind::Text,
        }
    }
}

#[derive(Clone)]
struct Case {
    opts: [bool; 6],
    patset: usize,
    kind: SrcKind,
    /// the valid UTF-8 text the match bits are computed from
    text: Vec<u8>,
    /// what is written to the file (differs from `text` for NonUtf8)
    file_bytes: Vec<u8>,
    /// structured form, when the case came from the generator (for shrinking)
    spec: Option<Vec<LineSpec>>,
    cov: CovResult,
    via_rewrite: bool,
    origin: &'static str,
}

fn optstr(o: &[bool; 6]) -> String {
    bits(o)
}

struct Regexes {
    /// the harness' own instances (match bits)
    mine: Vec<Vec<Regex>>,
    /// separately compiled instances handed to grcov::FileFilter
    theirs: Vec<Vec<Regex>>,
}
impl Regexes {
    fn new() -> Regexes {
        let comp = || {
            PATSETS
                .iter()
                .map(|p| p.pats.iter().map(|s| Regex::new(s).unwrap()).collect())
                .collect()
        };
        Regexes {
            mine: comp(),
            theirs: comp(),
        }
    }
    fn filter(&self, c: &Case) -> FileFilter {
        let r = &self.theirs[c.patset];
        let o = |i: usize| if c.opts[i] { Some(r[i].clone()) } else { None };
        FileFilter::new(o(0), o(1), o(2), o(3), o(4), o(5))
    }
    fn bits(&self, c: &Case) -> Vec<[bool; 6]> {
        split_lines(&c.text)
            .iter()
            .map(|l| {
                let s = std::str::from_utf8(l).expect("generator text is UTF-8");
                let mut b = [false; 6];
                for i in 0..6 {
                    b[i] = self.mine[c.patset][i].is_match(s);
                }
                b
            })
            .collect()
    }
}

fn bits_str(bs: &[[bool; 6]]) -> String {
    if bs.is_empty() {
        "-".into()
    } else {
        bs.iter().map(|b| bits(b)).collect::<Vec<_>>().join(",")
    }
}

// ---------------------------------------------------------------------------------------------
// The property, re-stated (quantifier form, no state machine, no grcov)

struct Spec {
    /// index 1..=len; index 0 unused
    line: Vec<bool>,
    branch: Vec<bool>,
    line_marker: Vec<bool>,
    br_marker: Vec<bool>,
    in_line_region: Vec<bool>,
    in_br_region: Vec<bool>,
}

fn in_region(start: &dyn Fn(usize) -> bool, stop: &dyn Fn(usize) -> bool, n: usize) -> bool {
    (1..=n).any(|s| start(s) && ((s + 1)..=n).all(|t| !stop(t)))
}

fn spec_of(opts: &[bool; 6], bs: &[[bool; 6]], readable: bool) -> Spec {
    let len = bs.len();
    let m = |i: usize| move |n: usize| readable && opts[i] && bs[n - 1][i];
    let mut s = Spec {
        line: vec![false; len + 1],
        branch: vec![false; len + 1],
        line_marker: vec![false; len + 1],
        br_marker: vec![false; len + 1],
        in_line_region: vec![false; len + 1],
        in_br_region: vec![false; len + 1],
    };
    for n in 1..=len {
        s.line_marker[n] = m(0)(n);
        s.br_marker[n] = m(3)(n);
        s.in_line_region[n] = in_region(&m(1), &m(2), n);
        s.in_br_region[n] = in_region(&m(4), &m(5), n);
        s.line[n] = s.line_marker[n] || s.in_line_region[n];
        s.branch[n] = s.br_marker[n] || s.in_br_region[n];
    }
    s
}

#[derive(PartialEq, Clone, Debug)]
enum Verdict {
    Holds,
    Fails(String),
}

/// compare what the implementation removed with what the property says; `impl_line(n)` /
/// `impl_branch(n)`: did the implementation remove the data of line n
fn judge(
    spec: &Spec,
    phantom: Option<u32>,
    keys: &mut dyn Iterator<Item = u32>,
    impl_line: &dyn Fn(u32) -> bool,
    impl_branch: &dyn Fn(u32) -> bool,
) -> Verdict {
    let len = spec.line.len() - 1;
    // `phantom` (the one piece of an empty text) is judged like every other piece (C16_empty_file)
    let _ = phantom;
    for k in keys {
        let n = k as usize;
        let inside = n >= 1 && n <= len;
        let want_l = inside && spec.line[n];
        let want_b = inside && spec.branch[n];
        let got_l = impl_line(k);
        let got_b = impl_branch(k);
        let why = |marker: bool, region: bool, other: bool| {
            if !inside {
                "it is not a line of the file".to_string()
            } else {
                format!(
                    "own single-line marker: {}, inside own region: {}, inside a region of the other kind: {}",
                    marker, region, other
                )
            }
        };
        if got_l != want_l {
            return Verdict::Fails(format!(
                "line {}: line data {} but the markers say {} ({})",
                k,
                if got_l { "removed" } else { "kept" },
                if want_l { "removed" } else { "kept" },
                if inside {
                    why(spec.line_marker[n], spec.in_line_region[n], spec.in_br_region[n])
                } else {
                    why(false, false, false)
                }
            ));
        }
        if got_b != want_b {
            return Verdict::Fails(format!(
                "line {}: branch data {} but the markers say {} ({})",
                k,
                if got_b { "removed" } else { "kept" },
                if want_b { "removed" } else { "kept" },
                if inside {
                    why(spec.br_marker[n], spec.in_br_region[n], spec.in_line_region[n])
                } else {
                    why(false, false, false)
                }
            ));
        }
    }
    Verdict::Holds
}

/// Since /repo f854858 there is no piece after a final newline (Props/C16.lean `C16_phantom_line`,
/// `C16_only_real_lines`): the pieces of every non-empty text are its lines, and the oracle – which
/// judges every key 0..=pieces+2 – demands that key lines+1 is NOT removed. Only the empty text
/// still has one empty piece without being a line (`C16_empty_file`): that piece is judged as an
/// empty source line, as the theorem says.
fn phantom_line(text: &[u8]) -> Option<u32> {
    if text.is_empty() {
        Some(1)
    } else {
        None
    }
}

// ---------------------------------------------------------------------------------------------
// Observations of the real code

#[derive(Clone)]
struct CreateObs {
    text: String,
    lines: BTreeSet<u32>,
    branches: BTreeSet<u32>,
    sorted: bool,
    panicked: bool,
}

fn observe_create(ff: &FileFilter, path: &Path) -> CreateObs {
    let r = guarded(AssertUnwindSafe(|| ff.create(path)));
    match r {
        Err(p) => CreateObs {
            text: format!("panic {}", p),
            lines: BTreeSet::new(),
            branches: BTreeSet::new(),
            sorted: true,
            panicked: true,
        },
        Ok(v) => {
            let mut parts = vec![];
            let mut lines = BTreeSet::new();
            let mut branches = BTreeSet::new();
            let mut sorted = true;
            let mut last: Option<u32> = None;
            for f in &v {
                let n = match f {
                    FilterType::Line(n) => {
                        parts.push(format!("L{}", n));
                        lines.insert(*n);
                        *n
                    }
                    FilterType::Branch(n) => {
                        parts.push(format!("B{}", n));
                        branches.insert(*n);
                        *n
                    }
                    FilterType::Both(n) => {
                        parts.push(format!("X{}", n));
                        lines.insert(*n);
                        branches.insert(*n);
                        *n
                    }
                };
                if let Some(l) = last {
                    if l >= n {
                        sorted = false;
                    }
                }
                last = Some(n);
            }
            CreateObs {
                text: if parts.is_empty() {
                    "-".into()
                } else {
                    parts.join(",")
                },
                lines,
                branches,
                sorted,
                panicked: false,
            }
        }
    }
}

fn place(c: &Case, path: &Path) {
    match c.kind {
        SrcKind::Text | SrcKind::NonUtf8 => std::fs::write(path, &c.file_bytes).unwrap(),
        SrcKind::Missing => {
            let _ = std::fs::remove_file(path);
        }
        SrcKind::Dir => {
            let _ = std::fs::create_dir_all(path);
        }
    }
}

fn gen_cov(rng: &mut Rng, len: usize) -> CovResult {
    let mut c = CovResult::default();
    let dense = rng.chance(1, 2);
    for k in 0..=(len as u32 + 2) {
        if rng.chance(if dense { 4 } else { 2 }, 5) {
            c.lines
                .insert(k, *rng.pick(&[0u64, 1, 2, 7, 1000, u64::MAX]));
        }
        if rng.chance(if dense { 3 } else { 1 }, 5) {
            let l = rng.range(1, 3);
            c.branches
                .insert(k, (0..l).map(|_| rng.chance(1, 2)).collect());
        }
    }
    for name in ["main", "f", "é∀"] {
        if rng.chance(1, 3) {
            c.functions.insert(
                name.to_string(),
                Function {
                    start: rng.range(1, len as u64 + 1) as u32,
                    executed: rng.chance(1, 2),
                },
            );
        }
    }
    c
}

fn full_cov(len: usize) -> CovResult {
    let mut c = CovResult::default();
    for k in 0..=(len as u32 + 1) {
        c.lines.insert(k, k as u64);
        c.branches.insert(k, vec![true, false]);
    }
    c.functions.insert(
        "f".into(),
        Function {
            start: 1,
            executed: true,
        },
    );
    c
}

fn case_json(c: &Case) -> Value {
    json!({
        "op": "c16",
        "origin": c.origin,
        "opts": optstr(&c.opts),
        "options_on": (0..6).filter(|&i| c.opts[i]).map(|i| format!("{}={}", OPT_NAMES[i], PATSETS[c.patset].pats[i])).collect::<Vec<_>>(),
        "patset": c.patset,
        "src": c.kind.name(),
        "text_hex": hex(&c.text),
        "file_hex": hex(&c.file_bytes),
        "text": String::from_utf8_lossy(&c.text),
        "cov": show_cov(&c.cov),
        "via_rewrite": c.via_rewrite,
    })
}

const OPT_NAMES: [&str; 6] = [
    "excl_line",
    "excl_start",
    "excl_stop",
    "excl_br_line",
    "excl_br_start",
    "excl_br_stop",
];

fn case_from_json(v: &Value) -> Option<Case> {
    let o = v["opts"].as_str()?;
    if o.len() != 6 {
        return None;
    }
    let mut opts = [false; 6];
    for (i, ch) in o.chars().enumerate() {
        opts[i] = ch == '1';
    }
    let text = unhex(v["text_hex"].as_str()?);
    let file_bytes = v["file_hex"]
        .as_str()
        .map(unhex)
        .unwrap_or_else(|| text.clone());
    Some(Case {
        opts,
        patset: v["patset"].as_u64().unwrap_or(0) as usize % PATSETS.len(),
        kind: SrcKind::parse(v["src"].as_str().unwrap_or("text")),
        text,
        file_bytes,
        spec: None,
        cov: parse_cov(v["cov"].as_str().unwrap_or("L;B;F")),
        via_rewrite: v["via_rewrite"].as_bool().unwrap_or(true),
        origin: "replay",
    })
}

// ---------------------------------------------------------------------------------------------
// Evaluation of a batch of cases: implementation, oracle, model

struct Ctx {
    re: Regexes,
    src_dir: PathBuf,
}

fn rewrite_group(ctx: &Ctx, cases: &[Case], idxs: &[usize], names: &[String]) -> Vec<String> {
    // all cases of a group share options and pattern set
    let ff = ctx.re.filter(&cases[idxs[0]]);
    let mut map: grcov::CovResultMap = fxmap();
    for (&i, name) in idxs.iter().zip(names) {
        map.insert(name.clone(), cases[i].cov.clone());
    }
    let none: Vec<String> = vec![];
    let src = ctx.src_dir.clone();
    let r = guarded(AssertUnwindSafe(|| {
        grcov::rewrite_paths(map, None, Some(src.as_path()), None, false, &none, &none, None, ff)
    }));
    match r {
        Err(p) => idxs.iter().map(|_| format!("panic {}", p)).collect(),
        Ok(v) => {
            let mut by_rel: BTreeMap<String, String> = BTreeMap::new();
            for (_abs, rel, cov) in v {
                by_rel.insert(rel.to_string_lossy().to_string(), show_cov(&cov));
            }
            names
                .iter()
                .map(|n| by_rel.get(n).cloned().unwrap_or_else(|| "absent".into()))
                .collect()
        }
    }
}

/// expected record according to the property, computed from the spec alone
fn expected_cov(c: &Case, spec: &Spec) -> CovResult {
    let len = spec.line.len() - 1;
    let mut e = c.cov.clone();
    for n in 1..=len {
        if spec.line[n] {
            e.lines.remove(&(n as u32));
        }
        if spec.branch[n] {
            e.branches.remove(&(n as u32));
        }
    }
    e
}

fn evaluate(rep: &mut Report, ctx: &Ctx, cases: &[Case], tag: &str) {
    let scratch = ctx.src_dir.join("scratch.c");
    let mut reqs: Vec<String> = vec![];
    let mut impl_out: Vec<String> = vec![];
    // (case index, is_apply)
    let mut owner: Vec<(usize, bool)> = vec![];
    let mut all_bits: Vec<Vec<[bool; 6]>> = Vec::with_capacity(cases.len());
    let mut create_obs: Vec<CreateObs> = Vec::with_capacity(cases.len());
    let mut groups: BTreeMap<(String, usize), (Vec<usize>, Vec<String>)> = BTreeMap::new();
    let mut apply_obs: BTreeMap<usize, String> = BTreeMap::new();

    for (i, c) in cases.iter().enumerate() {
        let name = format!("{}{}_{}.c", tag, i, c.kind.name());
        let path = if c.via_rewrite {
            ctx.src_dir.join(&name)
        } else {
            scratch.clone()
        };
        if !c.via_rewrite && c.kind != SrcKind::Text {
            let _ = std::fs::remove_file(&path);
            let _ = std::fs::remove_dir(&path);
        }
        place(c, &path);
        let bs = ctx.re.bits(c);
        let ff = ctx.re.filter(c);
        let obs = observe_create(&ff, &path);
        if !c.via_rewrite && c.kind == SrcKind::Dir {
            let _ = std::fs::remove_dir(&path);
        }
        let readable = c.kind == SrcKind::Text;
        reqs.push(format!(
            "ffilter {} {} {}",
            optstr(&c.opts),
            if readable { 1 } else { 0 },
            bits_str(&bs)
        ));
        impl_out.push(obs.text.clone());
        owner.push((i, false));
        if c.via_rewrite {
            let g = groups
                .entry((optstr(&c.opts), c.patset))
                .or_insert_with(|| (vec![], vec![]));
            g.0.push(i);
            g.1.push(name);
        }
        all_bits.push(bs);
        create_obs.push(obs);
    }
    for ((_o, _p), (idxs, names)) in &groups {
        for (chunk_i, chunk_n) in idxs.chunks(64).zip(names.chunks(64)) {
            let outs = rewrite_group(ctx, cases, chunk_i, chunk_n);
            for (&i, o) in chunk_i.iter().zip(outs) {
                apply_obs.insert(i, o);
            }
        }
    }
    for (i, c) in cases.iter().enumerate() {
        if let Some(o) = apply_obs.get(&i) {
            let readable = c.kind == SrcKind::Text;
            reqs.push(format!(
                "ffapply {} {} {} {}",
                optstr(&c.opts),
                if readable { 1 } else { 0 },
                bits_str(&all_bits[i]),
                show_cov(&c.cov)
            ));
            impl_out.push(o.clone());
            owner.push((i, true));
        }
    }
    let model_out = run_model_named("gm_c16", &reqs, &rep.workdir, tag);
    src_tie(rep, cases, &create_obs, tag);

    // ---- property oracle on every case (independent of the model) ----------------------------
    let mut verdicts: Vec<Verdict> = Vec::with_capacity(cases.len());
    for (i, c) in cases.iter().enumerate() {
        let readable = c.kind == SrcKind::Text;
        let bs = &all_bits[i];
        let spec = spec_of(&c.opts, bs, readable);
        let obs = &create_obs[i];
        let len = bs.len() as u32;
        let phantom = if readable { phantom_line(&c.text) } else { None };
        let mut v = if obs.panicked {
            Verdict::Fails(format!("FileFilter::create panicked: {}", obs.text))
        } else if !obs.sorted {
            Verdict::Fails("filter list not strictly increasing (a line named twice or out of order)".into())
        } else {
            // every line of the file, the keys around it, and every number the code named
            let mut keys: BTreeSet<u32> = (0..=len + 2).collect();
            keys.extend(obs.lines.iter());
            keys.extend(obs.branches.iter());
            judge(
                &spec,
                phantom,
                &mut keys.into_iter(),
                &|k| obs.lines.contains(&k),
                &|k| obs.branches.contains(&k),
            )
        };
        if let (Some(got), false) = (apply_obs.get(&i), matches!(v, Verdict::Fails(_))) {
            // the record after rewrite_paths against the record the property predicts
            if got.starts_with("panic") || got == "absent" {
                v = Verdict::Fails(format!("rewrite_paths: {}", got));
            } else {
                let got = parse_cov(got);
                let want = expected_cov(c, &spec);
                if got != want {
                    if got.functions != c.cov.functions {
                        v = Verdict::Fails("rewrite_paths changed the functions of the record".into());
                    } else {
                        let mut keys: BTreeSet<u32> = BTreeSet::new();
                        keys.extend(c.cov.lines.keys());
                        keys.extend(c.cov.branches.keys());
                        keys.extend(got.lines.keys());
                        keys.extend(got.branches.keys());
                        // values of surviving keys must be untouched
                        let touched = got.lines.iter().any(|(k, x)| c.cov.lines.get(k) != Some(x))
                            || got.branches.iter().any(|(k, x)| c.cov.branches.get(k) != Some(x));
                        if touched {
                            v = Verdict::Fails("rewrite_paths changed or invented a surviving entry".into());
                        } else {
                            // "removed" is only observable on keys the record has: keys it lacks
                            // are reported as the property predicts
                            let n_of = |k: u32| k as usize;
                            let slen = spec.line.len() - 1;
                            let v2 = judge(
                                &spec,
                                phantom,
                                &mut keys.into_iter(),
                                &|k| {
                                    if c.cov.lines.contains_key(&k) {
                                        !got.lines.contains_key(&k)
                                    } else {
                                        n_of(k) >= 1 && n_of(k) <= slen && spec.line[n_of(k)]
                                    }
                                },
                                &|k| {
                                    if c.cov.branches.contains_key(&k) {
                                        !got.branches.contains_key(&k)
                                    } else {
                                        n_of(k) >= 1 && n_of(k) <= slen && spec.branch[n_of(k)]
                                    }
                                },
                            );
                            if let Verdict::Fails(w) = v2 {
                                v = Verdict::Fails(format!("rewrite_paths: {}", w));
                            }
                        }
                    }
                }
            }
        }
        // ---- bookkeeping -----------------------------------------------------------------------
        let excluded_any = (1..spec.line.len()).any(|n| spec.line[n] || spec.branch[n]);
        let canon = format!(
            "{} {} {} {} {}",
            optstr(&c.opts),
            c.kind.name(),
            bits_str(bs),
            fnv64(&c.file_bytes),
            show_cov(&c.cov)
        );
        rep.case(&canon, excluded_any);
        rep.count(&format!("origin.{}", c.origin));
        rep.count(&format!("src.{}", c.kind.name()));
        rep.count(&format!("patset.{}", PATSETS[c.patset].name));
        rep.count(&format!("options.on={}", c.opts.iter().filter(|&&b| b).count()));
        if c.via_rewrite {
            rep.count("via.rewrite_paths");
        }
        if c.kind == SrcKind::Text {
            let t = &c.file_bytes;
            let crlf = t.windows(2).any(|w| w == b"\r\n");
            let lf = t
                .iter()
                .enumerate()
                .any(|(j, &b)| b == b'\n' && (j == 0 || t[j - 1] != b'\r'));
            rep.count(match (lf, crlf) {
                (true, true) => "eol.mixed",
                (false, true) => "eol.crlf",
                (true, false) => "eol.lf",
                _ => "eol.single_line",
            });
            rep.count(if t.last() == Some(&b'\n') {
                "final_newline.yes"
            } else {
                "final_newline.no"
            });
            let n = bs.len();
            let eff = |j: usize, k: usize| c.opts[k] && bs[j][k];
            if n > 0 && (spec.in_line_region[n] || spec.in_br_region[n]) {
                rep.count("scenario.unterminated_region");
            }
            if (0..n).any(|j| (eff(j, 1) && eff(j, 2)) || (eff(j, 4) && eff(j, 5))) {
                rep.count("scenario.start_and_stop_on_one_line");
            }
            if (1..=n).any(|j| spec.in_line_region[j] && spec.in_br_region[j]) {
                rep.count("scenario.overlapping_line_and_branch_regions");
            }
            if (2..=n).any(|j| {
                (eff(j - 1, 1) && spec.in_line_region[j - 1]) || (eff(j - 1, 4) && spec.in_br_region[j - 1])
            }) {
                rep.count("scenario.start_inside_open_region");
            }
            if (1..=n).any(|j| {
                (eff(j - 1, 2) && (j == 1 || !spec.in_line_region[j - 1]))
                    || (eff(j - 1, 5) && (j == 1 || !spec.in_br_region[j - 1]))
            }) {
                rep.count("scenario.stop_without_open_region");
            }
            if (1..=n).any(|j| {
                (spec.line_marker[j] && spec.in_br_region[j]) || (spec.br_marker[j] && spec.in_line_region[j])
            }) {
                rep.count("scenario.single_marker_inside_other_region");
            }
            if let Some(p) = phantom {
                if spec.line[p as usize] || spec.branch[p as usize] {
                    rep.count("scenario.empty_file_piece_marked");
                }
            }
            // the last real line, by the way the text ends
            {
                let ending = if t.ends_with(b"\r\n") {
                    "crlf"
                } else if t.ends_with(b"\n") {
                    "lf"
                } else if t.ends_with(b"\r") {
                    "lone_cr"
                } else {
                    "none"
                };
                let last_real = if phantom.is_some() { 0 } else { n };
                if last_real >= 1 {
                    let j = last_real - 1;
                    if (0..6).any(|k| eff(j, k)) {
                        rep.count(&format!("lastline.marker.final_eol_{}", ending));
                    }
                    if spec.in_line_region[last_real] || spec.in_br_region[last_real] {
                        rep.count(&format!("lastline.region_open_at_eof.final_eol_{}", ending));
                    }
                    if spec.line[last_real] || spec.branch[last_real] {
                        rep.count(&format!("lastline.excluded.final_eol_{}", ending));
                    }
                }
            }
            if (1..=n).any(|j| spec.line_marker[j] && spec.br_marker[j]) {
                rep.count("scenario.both_single_markers_on_one_line");
            }
            rep.count_n("result.Line", obs.text.matches('L').count() as u64);
            rep.count_n("result.Branch", obs.text.matches('B').count() as u64);
            rep.count_n("result.Both", obs.text.matches('X').count() as u64);
            rep.count_n("result.None", (n - obs.lines.union(&obs.branches).count().min(n)) as u64);
        }
        verdicts.push(v);
    }

    // ---- report oracle failures (shrinking the first few of each class) ------------------------
    for (i, c) in cases.iter().enumerate() {
        match &verdicts[i] {
            Verdict::Holds => {}
            Verdict::Fails(w) => {
                rep.count("oracle.failures");
                // rep.fail keeps 40 per class: do not spend time shrinking beyond that
                let stored = rep.failures.iter().filter(|f| f.kind == "oracle").count();
                let (mc, mw) = if stored < 40 {
                    shrink(ctx, c, &verdicts[i])
                } else {
                    (c.clone(), w.clone())
                };
                let mut cj = case_json(&mc);
                cj["impl_create"] = json!(create_text(ctx, &mc));
                cj["before_shrinking"] = json!(w);
                rep.fail("oracle", None, format!("property violated (minimised): {}", mw), cj);
            }
        }
    }

    // ---- the tie ---------------------------------------------------------------------------
    let mut sampled = [tag == "ex", tag == "ex"];
    for r in 0..reqs.len() {
        let (i, is_apply) = owner[r];
        let interesting = if is_apply {
            impl_out[r] != show_cov(&cases[i].cov)
        } else {
            tag != "rand" || impl_out[r].contains('X')
        };
        if !sampled[is_apply as usize] && interesting && cases[i].kind == SrcKind::Text {
            sampled[is_apply as usize] = true;
            rep.sample(json!({"request": reqs[r], "impl": impl_out[r], "model": model_out[r],
                              "source": String::from_utf8_lossy(&cases[i].text)}));
        }
        if impl_out[r] != model_out[r] {
            rep.disagreements_checked += 1;
            if matches!(verdicts[i], Verdict::Fails(_)) {
                // already reported as an oracle failure: that is the failing input
                continue;
            }
            let mut cj = case_json(&cases[i]);
            cj["request"] = json!(reqs[r]);
            cj["impl"] = json!(impl_out[r]);
            cj["model"] = json!(model_out[r]);
            rep.fail(
                "disagreement",
                None,
                if is_apply {
                    "rewrite_paths' removal differs from FileFilter.rewrite (C16_coverage_* no longer transfer)".into()
                } else {
                    "FileFilter::create differs from FileFilter.create (theorems C16_* no longer transfer)".into()
                },
                cj,
            );
        }
    }
}

/// Line splitting is part of the model (`splitLF`, `stripCR`, `realLines`, `createSrc`): (a) the
/// model's pieces of every text against this harness' `split_lines` (whose pieces feed the match
/// bits) and `str::lines().count()`; (b) for the two pattern sets whose regexes are plain literals,
/// the model computing the whole filter list from the text (`ffsrc`) against the real
/// `FileFilter::create`.
fn src_tie(rep: &mut Report, cases: &[Case], create_obs: &[CreateObs], tag: &str) {
    let mut reqs = vec![];
    let mut want = vec![];
    let mut owner = vec![];
    for (i, c) in cases.iter().enumerate() {
        if c.kind != SrcKind::Text {
            continue;
        }
        let pieces: Vec<String> = split_lines(&c.text).iter().map(|p| format!("x{}", hex(p))).collect();
        let real = std::str::from_utf8(&c.text).map(|t| t.lines().count()).unwrap_or(0);
        reqs.push(format!("fflines x{}", hex(&c.text)));
        want.push(format!("{} {}", pieces.join(","), real));
        owner.push((i, "fflines"));
        if c.patset == 0 || c.patset == 2 {
            let ps = &PATSETS[c.patset];
            let lits: Vec<String> = ps.pats.iter().map(|p| format!("x{}", hex(p.as_bytes()))).collect();
            reqs.push(format!("ffsrc {} {} x{}", optstr(&c.opts), lits.join(" "), hex(&c.text)));
            want.push(create_obs[i].text.clone());
            owner.push((i, "ffsrc"));
        }
    }
    if reqs.is_empty() {
        return;
    }
    let out = run_model_named("gm_c16", &reqs, &rep.workdir, &format!("{}.src", tag));
    for r in 0..reqs.len() {
        rep.count(&format!("tie.{}", owner[r].1));
        if out[r] != want[r] {
            rep.disagreements_checked += 1;
            let mut cj = case_json(&cases[owner[r].0]);
            cj["request"] = json!(reqs[r]);
            cj["impl"] = json!(want[r]);
            cj["model"] = json!(out[r]);
            rep.fail(
                "disagreement",
                None,
                if owner[r].1 == "ffsrc" {
                    "FileFilter::create on the file differs from FileFilter.createSrc on the text (line splitting / C16_phantom_line no longer transfer)".into()
                } else {
                    "the harness' line splitter differs from FileFilter.splitLF/stripCR/realLines".into()
                },
                cj,
            );
        }
    }
}

/// corpus/C16/*.json: minimised past failures, replayed first. `case` is a replay case of this
/// harness; `expect_create` is what `FileFilter::create` must answer (the full oracle and the tie run
/// on the case as on every other).
fn corpus(rep: &mut Report, ctx: &Ctx) {
    let mut files: Vec<PathBuf> = std::fs::read_dir("/verif/corpus/C16")
        .map(|d| d.filter_map(|e| e.ok().map(|e| e.path())).filter(|p| p.extension().map(|x| x == "json").unwrap_or(false)).collect())
        .unwrap_or_default();
    files.sort();
    let mut cases = vec![];
    for p in &files {
        let v: Value = match std::fs::read_to_string(p).ok().and_then(|t| serde_json::from_str(&t).ok()) {
            Some(v) => v,
            None => {
                rep.notes.push(format!("corpus file {} is not JSON", p.display()));
                continue;
            }
        };
        let mut c = match case_from_json(&v["case"]) {
            Some(c) => c,
            None => {
                rep.notes.push(format!("corpus file {} is not a C16 case", p.display()));
                continue;
            }
        };
        c.origin = "corpus";
        rep.count("corpus.cases");
        if let Some(want) = v["expect_create"].as_str() {
            let got = create_text(ctx, &c);
            if got != want {
                rep.fail(
                    "oracle",
                    None,
                    format!("corpus case {}: FileFilter::create = {}, recorded {} ({})", p.display(), got, want, v["origin"].as_str().unwrap_or("")),
                    case_json(&c),
                );
            }
        }
        cases.push(c);
    }
    if !cases.is_empty() {
        evaluate(rep, ctx, &cases, "corpus");
    }
}

fn create_text(ctx: &Ctx, c: &Case) -> String {
    let path = ctx.src_dir.join("shrink.c");
    let _ = std::fs::remove_file(&path);
    let _ = std::fs::remove_dir(&path);
    place(c, &path);
    let o = observe_create(&ctx.re.filter(c), &path);
    if c.kind == SrcKind::Dir {
        let _ = std::fs::remove_dir(&path);
    }
    o.text
}

/// verdict of one case through `create` only (used while shrinking)
fn quick_verdict(ctx: &Ctx, c: &Case) -> Verdict {
    let path = ctx.src_dir.join("shrink.c");
    let _ = std::fs::remove_file(&path);
    let _ = std::fs::remove_dir(&path);
    place(c, &path);
    let obs = observe_create(&ctx.re.filter(c), &path);
    if c.kind == SrcKind::Dir {
        let _ = std::fs::remove_dir(&path);
    }
    let bs = ctx.re.bits(c);
    let spec = spec_of(&c.opts, &bs, c.kind == SrcKind::Text);
    if obs.panicked {
        return Verdict::Fails(obs.text);
    }
    if !obs.sorted {
        return Verdict::Fails("filter list not strictly increasing".into());
    }
    let mut keys: BTreeSet<u32> = (0..=bs.len() as u32 + 2).collect();
    keys.extend(obs.lines.iter());
    keys.extend(obs.branches.iter());
    judge(
        &spec,
        if c.kind == SrcKind::Text {
            phantom_line(&c.text)
        } else {
            None
        },
        &mut keys.into_iter(),
        &|k| obs.lines.contains(&k),
        &|k| obs.branches.contains(&k),
    )
}

fn same_class(a: &Verdict, b: &Verdict) -> bool {
    matches!((a, b), (Verdict::Fails(_), Verdict::Fails(_)))
}

/// greedy shrinking on the structured form: drop lines, clear markers, switch options off,
/// simplify fillers and line endings, while the verdict stays in the same class
fn shrink(ctx: &Ctx, c: &Case, v: &Verdict) -> (Case, String) {
    let text_of = |v: &Verdict| match v {
        Verdict::Fails(w) => w.clone(),
        Verdict::Holds => String::new(),
    };
    let spec = match (&c.spec, c.kind) {
        (Some(s), SrcKind::Text) => s.clone(),
        _ => return (c.clone(), text_of(v)),
    };
    // the failure must be visible through create alone, otherwise keep the case as it is
    let v0 = quick_verdict(ctx, c);
    if !same_class(&v0, v) {
        return (c.clone(), text_of(v));
    }
    let mut cur = c.clone();
    let mut cur_spec = spec;
    let mut cur_v = v0;
    let rebuild = |base: &Case, s: &Vec<LineSpec>, opts: [bool; 6]| {
        let mut n = base.clone();
        n.opts = opts;
        n.text = render(&PATSETS[base.patset], s);
        n.file_bytes = n.text.clone();
        n.spec = Some(s.clone());
        n
    };
    loop {
        let mut changed = false;
        // drop a line
        let mut j = 0;
        while j < cur_spec.len() && cur_spec.len() > 1 {
            let mut s = cur_spec.clone();
            s.remove(j);
            let n = rebuild(&cur, &s, cur.opts);
            let nv = quick_verdict(ctx, &n);
            if same_class(&nv, &cur_v) {
                cur = n;
                cur_spec = s;
                cur_v = nv;
                changed = true;
            } else {
                j += 1;
            }
        }
        // clear a marker, simplify filler / eol
        for j in 0..cur_spec.len() {
            for k in 0..8 {
                let mut s = cur_spec.clone();
                if k < 6 {
                    if !s[j].want[k] {
                        continue;
                    }
                    s[j].want[k] = false;
                } else if k == 6 {
                    if s[j].filler == 0 {
                        continue;
                    }
                    s[j].filler = 0;
                } else {
                    let want = if j + 1 == s.len() { 3 } else { 0 };
                    if s[j].eol == want {
                        continue;
                    }
                    s[j].eol = want;
                }
                let n = rebuild(&cur, &s, cur.opts);
                let nv = quick_verdict(ctx, &n);
                if same_class(&nv, &cur_v) {
                    cur = n;
                    cur_spec = s;
                    cur_v = nv;
                    changed = true;
                }
            }
        }
        // switch an option off
        for k in 0..6 {
            if cur.opts[k] {
                let mut o = cur.opts;
                o[k] = false;
                let n = rebuild(&cur, &cur_spec, o);
                let nv = quick_verdict(ctx, &n);
                if same_class(&nv, &cur_v) {
                    cur = n;
                    cur_v = nv;
                    changed = true;
                }
            }
        }
        if !changed {
            break;
        }
    }
    cur.cov = full_cov(cur_spec.len());
    (cur, text_of(&cur_v))
}

// ---------------------------------------------------------------------------------------------
// Generators

fn text_case(
    opts: [bool; 6],
    patset: usize,
    spec: Vec<LineSpec>,
    cov: CovResult,
    via_rewrite: bool,
    origin: &'static str,
) -> Case {
    let text = render(&PATSETS[patset], &spec);
    Case {
        opts,
        patset,
        kind: SrcKind::Text,
        file_bytes: text.clone(),
        text,
        spec: Some(spec),
        cov,
        via_rewrite,
        origin,
    }
}

fn opts_of(mask: u32) -> [bool; 6] {
    let mut o = [false; 6];
    for i in 0..6 {
        o[i] = mask & (1 << i) != 0;
    }
    o
}

/// corpus, run first: the minimal witnesses of the fixed defect (they must pass: regression test
/// of /repo c7806a2) and the fixture shape of the repository's own test
fn witnesses() -> Vec<Case> {
    let l = |bits: &[usize]| {
        let mut w = [false; 6];
        for &b in bits {
            w[b] = true;
        }
        LineSpec {
            want: w,
            filler: 0,
            eol: 0,
        }
    };
    // last line without terminator
    let nl = |mut x: LineSpec| {
        x.eol = 3;
        x
    };
    let all = [true; 6];
    vec![
        // A: branch region start, then a line marker (= witnessA of Props/C16.lean)
        text_case(all, 0, vec![l(&[4]), nl(l(&[0]))], full_cov(3), true, "witness"),
        // B: line region start, then a branch-line marker (= witnessB)
        text_case(all, 0, vec![l(&[1]), nl(l(&[3]))], full_cov(3), true, "witness"),
        // C: start marker and branch-line marker on one line (= witnessC)
        text_case(all, 0, vec![nl(l(&[1, 3]))], full_cov(2), true, "witness"),
        // the same three with only the two options involved switched on
        text_case(opts_of(0b010001), 0, vec![l(&[4]), nl(l(&[0]))], full_cov(3), true, "witness"),
        text_case(opts_of(0b001010), 0, vec![l(&[1]), nl(l(&[3]))], full_cov(3), true, "witness"),
        text_case(opts_of(0b001010), 0, vec![nl(l(&[1, 3]))], full_cov(2), true, "witness"),
        // start and stop on one line of an open region; unterminated at the end
        text_case(
            all,
            0,
            vec![l(&[1]), l(&[]), l(&[1, 2]), l(&[2]), l(&[]), l(&[4]), l(&[4, 5]), l(&[])],
            full_cov(9),
            true,
            "witness",
        ),
        // the shape of test_rewrite_paths_filter_lines_and_branches: disjoint regions
        text_case(
            all,
            0,
            vec![
                l(&[]),
                l(&[0]),
                l(&[]),
                l(&[1]),
                l(&[]),
                l(&[2]),
                l(&[3]),
                l(&[4]),
                l(&[]),
                l(&[5]),
                l(&[0, 3]),
                l(&[]),
            ],
            full_cov(13),
            true,
            "witness",
        ),
    ]
}

/// every option subset × every text of `len` lines whose lines range over all combinations of
/// the markers of the configured options (a marker of an unconfigured option cannot matter;
/// that itself is checked by the random stream)
fn exhaustive(len: usize, via_rewrite: bool, sink: &mut dyn FnMut(Case)) {
    let mut counter = 0usize;
    for mask in 0..64u32 {
        let opts = opts_of(mask);
        let on: Vec<usize> = (0..6).filter(|&i| opts[i]).collect();
        let kinds = 1usize << on.len();
        let total = kinds.pow(len as u32);
        for t in 0..total {
            let mut spec = vec![];
            let mut x = t;
            for _ in 0..len {
                let k = x % kinds;
                x /= kinds;
                let mut w = [false; 6];
                for (b, &i) in on.iter().enumerate() {
                    w[i] = k & (1 << b) != 0;
                }
                spec.push(LineSpec {
                    want: w,
                    filler: 0,
                    eol: 0,
                });
            }
            // vary the line endings with the case number: LF, CRLF, no final newline
            counter += 1;
            // LF, CRLF, LF without final newline, CRLF without final newline, lone CR at the end
            let mode = counter % 5;
            for (j, l) in spec.iter_mut().enumerate() {
                let last = j + 1 == len;
                l.eol = match mode {
                    0 => 0,
                    1 => 1,
                    2 => if last { 3 } else { 0 },
                    3 => if last { 3 } else { 1 },
                    _ => if last { 4 } else { 1 },
                };
            }
            let cov = if via_rewrite {
                full_cov(len + 1)
            } else {
                CovResult::default()
            };
            sink(text_case(opts, 0, spec, cov, via_rewrite, "exhaustive"));
        }
    }
}

/// all texts of `len` lines over a reduced alphabet of ten line kinds, all options on
fn exhaustive_reduced(len: usize, sink: &mut dyn FnMut(Case)) {
    const KINDS: [&[usize]; 10] = [
        &[],
        &[0],
        &[1],
        &[2],
        &[1, 2],
        &[3],
        &[4],
        &[5],
        &[4, 5],
        &[0, 3],
    ];
    let total = 10usize.pow(len as u32);
    for t in 0..total {
        let mut spec = vec![];
        let mut x = t;
        for j in 0..len {
            let k = x % 10;
            x /= 10;
            let mut w = [false; 6];
            for &b in KINDS[k] {
                w[b] = true;
            }
            spec.push(LineSpec {
                want: w,
                filler: 0,
                eol: if j + 1 == len { [3u8, 0, 1, 4][(t / 2) % 4] } else { (t % 2) as u8 },
            });
        }
        sink(text_case(
            [true; 6],
            0,
            spec,
            CovResult::default(),
            false,
            "exhaustive_reduced",
        ));
    }
}

fn random_case(rng: &mut Rng) -> Case {
    let opts = match rng.below(8) {
        0 | 1 => [true; 6],
        2 => {
            // one to three options
            let mut o = [false; 6];
            for _ in 0..rng.range(1, 3) {
                o[rng.below(6) as usize] = true;
            }
            o
        }
        _ => opts_of(rng.below(64) as u32),
    };
    let patset = match rng.below(10) {
        0..=3 => 0,
        4 | 5 => 1,
        6 | 7 => 2,
        _ => 3,
    };
    let len = if rng.chance(1, 6) {
        rng.range(1, 2)
    } else {
        rng.range(2, 12)
    } as usize;
    // marker density and a bias towards the configured options
    let dens = *rng.pick(&[2u64, 3, 5]);
    let eol_mode = rng.below(4); // 0 LF, 1 CRLF, 2 mixed, 3 mixed with CRCRLF
    let mut spec = vec![];
    for j in 0..len {
        let mut w = [false; 6];
        if rng.chance(dens, 6) {
            for k in 0..6 {
                // stops a little rarer than starts so that regions have some length
                let p = if k == 2 || k == 5 { 1 } else { 2 };
                w[k] = rng.chance(p, 8);
            }
            if !w.iter().any(|&b| b) {
                w[rng.below(6) as usize] = true;
            }
        }
        let last = j + 1 == len;
        let eol = match eol_mode {
            0 => 0,
            1 => 1,
            2 => rng.below(2) as u8,
            _ => rng.below(3) as u8,
        };
        let eol = if last {
            match rng.below(6) {
                0 | 1 => 3,
                2 => 4,
                _ => eol,
            }
        } else {
            eol
        };
        spec.push(LineSpec {
            want: w,
            filler: if rng.chance(1, 2) {
                0
            } else {
                rng.below(FILLERS.len() as u64) as usize
            },
            eol,
        });
    }
    let nlines = {
        let t = render(&PATSETS[patset], &spec);
        split_lines(&t).len()
    };
    let cov = gen_cov(rng, nlines);
    let mut c = text_case(opts, patset, spec, cov, true, "random");
    // the source cannot be read
    match rng.below(40) {
        0 => {
            c.kind = SrcKind::Missing;
            c.origin = "unreadable";
        }
        1 => {
            c.kind = SrcKind::Dir;
            c.origin = "unreadable";
        }
        2 | 3 => {
            c.kind = SrcKind::NonUtf8;
            c.origin = "unreadable";
            let pos = rng.below(c.file_bytes.len() as u64 + 1) as usize;
            let bad: &[u8] = *rng.pick(&[&[0xffu8][..], &[0xe9][..], &[0xc3][..], &[0xed, 0xa0, 0x80][..]]);
            let mut b = c.file_bytes[..pos].to_vec();
            b.extend_from_slice(bad);
            b.extend_from_slice(&c.file_bytes[pos..]);
            // 0xc3 followed by a continuation byte could be valid: make sure it is not UTF-8
            if std::str::from_utf8(&b).is_ok() {
                b.push(0xff);
            }
            c.file_bytes = b;
        }
        _ => {}
    }
    c
}

fn ctx_new(rep: &Report) -> Ctx {
    let src = rep.workdir.join("src");
    std::fs::create_dir_all(&src).unwrap();
    Ctx {
        re: Regexes::new(),
        src_dir: std::fs::canonicalize(&src).unwrap(),
    }
}

pub fn run(rep: &mut Report) {
    rep.rule = "source texts built line by line from literal markers of four regex sets (lcov literals, \
                ^/$-anchored, one regex shared by start and stop, non-ASCII with an empty-line marker), fillers \
                (UTF-8, embedded CR, tabs), LF / CRLF / mixed / CRCRLF endings, with and without final newline or \
                lone final CR; all 64 option subsets; coverage records with keys 0..=lines+2; plus every text of \
                <=2 lines (quick) / <=3 lines (thorough) over all marker combinations of every option subset, and \
                unreadable sources (missing, directory, not UTF-8). Each case goes through FileFilter::create and \
                (marked via.rewrite_paths) through rewrite_paths. non-trivial = the property excludes at least one \
                line or branch of the file; distinct = distinct (options, source kind, per-line match bits, file \
                bytes, record)"
        .to_string();
    if std::env::var_os("C16_ONLY_RX").is_some() {
        // development aid of part Regex: only its streams
        regexsyn::run(rep);
        return;
    }
    let ctx = ctx_new(rep);
    let mut rng = Rng::new(rep.seed ^ 0xC16);

    // ---- witnesses / corpus first --------------------------------------------------------------
    corpus(rep, &ctx);
    evaluate(rep, &ctx, &witnesses(), "wit");

    // ---- exhaustive small texts ----------------------------------------------------------------
    {
        let mut ex = vec![];
        exhaustive(1, true, &mut |c| ex.push(c));
        exhaustive(2, true, &mut |c| ex.push(c));
        evaluate(rep, &ctx, &ex, "ex");
    }

    // ---- random structured texts ---------------------------------------------------------------
    let n = rep.budget(20_000, 20);
    let mut done = 0;
    while done < n {
        let k = (n - done).min(20_000);
        let cases: Vec<Case> = (0..k).map(|_| random_case(&mut rng)).collect();
        evaluate(rep, &ctx, &cases, "rand");
        // the source files of this chunk are no longer needed
        let _ = std::fs::remove_dir_all(&ctx.src_dir);
        std::fs::create_dir_all(&ctx.src_dir).unwrap();
        done += k;
    }

    if rep.thorough() {
        let mut buf: Vec<Case> = vec![];
        {
            let mut sink = |c: Case| {
                buf.push(c);
                if buf.len() >= 40_000 {
                    evaluate(rep, &ctx, &buf, "exh");
                    buf.clear();
                }
            };
            exhaustive(3, false, &mut sink);
            exhaustive_reduced(4, &mut sink);
            exhaustive_reduced(5, &mut sink);
        }
        if !buf.is_empty() {
            evaluate(rep, &ctx, &buf, "exh");
        }
    }
    runall::run(rep);
    thenfilter::run(rep);
    regexsyn::run(rep);
}

pub fn replay(rep: &mut Report, case: &serde_json::Value) {
    if runall::replay(rep, case) { return; }
    if thenfilter::replay(rep, case) { return; }
    if regexsyn::replay(rep, case) { return; }
    let ctx = ctx_new(rep);
    match case_from_json(case) {
        Some(c) => evaluate(rep, &ctx, &[c], "replay"),
        None => rep
            .notes
            .push("replay: not a C16 case (needs opts, text_hex)".into()),
    }
}

fn main() {
    // rewrite_paths runs on rayon's global pool; hundreds of small calls on a many-core machine
    // spend their time in pool wake-ups, and parallelism is irrelevant to this property
    if std::env::var_os("RAYON_NUM_THREADS").is_none() {
        std::env::set_var("RAYON_NUM_THREADS", "2");
    }
    corrlib::run_main("C16", run, replay);
}
