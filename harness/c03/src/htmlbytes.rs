//! C03 / C18 part Html: the HTML report BYTE FOR BYTE. (This file is a module of both the c03 and
//! the c18 crate: `#[path]` in harness/c18/src/main.rs.)
//!
//! * `site`: the real `grcov::output_html` on generated result sets + source trees (hostile names,
//!   invalid UTF-8 / CR LF / control characters in the sources, counts up to 2^64-1, `--branch`,
//!   `--precision`, `--abs-link-prefix`, bundled / cdn resources, date, a configuration file with
//!   other limits); EVERY `.html` file below the output directory is compared with the bytes of the
//!   Lean model `Writers.HtmlBytes.site` (length + FNV-64 of the model's bytes for every file, the
//!   bytes themselves for the first cases and on any difference).
//! * `gindex`: the real `grcov::html::gen_index` on arbitrary `HtmlGlobalStats` (statistics up to
//!   2^64-1, covered > total, hostile names, arbitrary per-entry prefixes) against
//!   `HtmlBytes.indexWrites`.
//! * `fig`: the real `percent` / `round` / `severity` through Tera on arbitrary (covered, total,
//!   precision) against the bit-exact float model `Writers.HtmlF64`.
//! * readers: the model's strict readers `parseFilePage` / `parseIndexPage` applied to the REAL
//!   pages must return what the inputs say (every line number, count, source text, name, link and
//!   figure; figures recomputed here with native `f64`); Python's html.parser (tools/c18_decode.py)
//!   as independent reader: its tag stream must equal the model's `skeleton` of the real page and
//!   the one of a benign twin site (same structure, harmless names and text); its decoded ids /
//!   aria-labels / `<pre>` / `<a>` texts must be the inputs.
use corrlib::*;
use grcov::html::HtmlResources;
use grcov::{CovResult, Function, HtmlDirStats, HtmlFileStats, HtmlGlobalStats, HtmlStats};
use serde_json::{json, Value};
use std::collections::BTreeMap;
use std::panic::AssertUnwindSafe;
use std::path::{Path, PathBuf};

const TAG: u64 = 0x48_74_6d_6c_42; // "HtmlB"

// ---------------------------------------------------------------------------------------------
// configuration

#[derive(Clone, Debug)]
struct Conf {
    branch: bool,
    precision: usize,
    bundled: bool,
    no_date: bool,
    /// (hi, med) for lines, functions, branches; None = no configuration file
    limits: Option<[u64; 6]>,
    prefix: Option<String>,
}

impl Conf {
    fn limits(&self) -> [u64; 6] {
        self.limits.unwrap_or([90, 75, 90, 75, 90, 75])
    }
    fn model(&self, date: &Option<String>) -> String {
        let l = self.limits();
        format!(
            "C{},{},{},{},{}:{}:{}:{}:{}:{}",
            self.branch as u8,
            self.precision,
            self.bundled as u8,
            date.as_ref().map(|d| format!("x{}", hex(d.as_bytes()))).unwrap_or("-".into()),
            l[0], l[1], l[2], l[3], l[4], l[5]
        )
    }
    fn prefix_arg(&self) -> String {
        self.prefix.as_ref().map(|p| format!("x{}", hex(p.as_bytes()))).unwrap_or("-".into())
    }
    fn json(&self) -> Value {
        json!({"branch": self.branch, "precision": self.precision, "bundled": self.bundled, "no_date": self.no_date,
               "limits": self.limits.map(|l| l.to_vec()), "prefix": self.prefix})
    }
    fn from_json(v: &Value) -> Conf {
        Conf {
            branch: v["branch"].as_bool().unwrap_or(false),
            precision: v["precision"].as_u64().unwrap_or(2) as usize,
            bundled: v["bundled"].as_bool().unwrap_or(false),
            no_date: v["no_date"].as_bool().unwrap_or(true),
            limits: v["limits"].as_array().map(|a| {
                let mut l = [90u64, 75, 90, 75, 90, 75];
                for (i, x) in a.iter().take(6).enumerate() {
                    l[i] = x.as_u64().unwrap_or(l[i]);
                }
                l
            }),
            prefix: v["prefix"].as_str().map(|s| s.to_string()),
        }
    }
    /// the configuration file for `limits`
    fn config_file(&self, dir: &Path) -> Option<PathBuf> {
        self.limits.map(|l| {
            let p = dir.join("html_config.json");
            let v = json!({"hi_limit": l[0], "med_limit": l[1], "fn_hi_limit": l[2], "fn_med_limit": l[3],
                           "branch_hi_limit": l[4], "branch_med_limit": l[5]});
            std::fs::write(&p, v.to_string()).unwrap();
            p
        })
    }
    fn resources(&self) -> HtmlResources {
        if self.bundled { HtmlResources::Bundled } else { HtmlResources::Cdn }
    }
}

const PREFIXES: &[&str] = &["http://h/p", "/abs/root", "rel/pre", "", "http://h/", "https://x.y/a\"b<c>&d'"];

fn gen_conf(rng: &mut Rng) -> Conf {
    Conf {
        branch: rng.chance(1, 2),
        precision: match rng.below(10) { 0 => rng.range(5, 9) as usize, 1 => 0, _ => rng.range(0, 4) as usize },
        bundled: rng.chance(1, 3),
        no_date: !rng.chance(1, 6),
        limits: if rng.chance(1, 4) {
            let hi = rng.range(1, 100);
            let med = rng.below(hi + 1);
            let fhi = rng.range(0, 100);
            let fmed = rng.below(101);
            Some([hi, med, fhi, fmed, rng.range(50, 100), rng.range(0, 60)])
        } else {
            None
        },
        prefix: if rng.chance(1, 3) { Some(rng.pick(PREFIXES).to_string()) } else { None },
    }
}

// ---------------------------------------------------------------------------------------------
// generated sites

const DIRS: &[&str] = &["", "src", "src/lib", "a b", "d<&>", "ü/語", "x'y\"z", "deep/er/tree", "./dot", "{{ 7*7 }}", "amp&amp;", "src"];
const NAMES: &[&str] = &[
    "main.c", "util.rs", "a&b.c", "<script>alert(1)<.js", "q\"uote'.rs", "sp ace.c", "ünï.c", "語.c", "index", "Makefile",
    ".hidden", "x.tar.gz", "a.", "semi;colon", "{{ 7*7 }}.c", "{% raw %}", "back\\slash.c", "&lt;.c", "x.html", "=\">.c",
    "tab\there.c", "nl\nname.c", "\u{1}ctl.c", "\u{fffe}.c",
];
const TEXTS: &[&str] = &[
    "int main() {", "  return a < b && c > d ? \"x\" : 'y';", "}", "", "// </pre><script>alert(1)</script>", "\t\tindented /* & */",
    "let s = \"&amp; &lt; &#x27;\";", "{{ item.2 }} {% endfor %}", "日本語 ünï ✓", "a\rb", "x = y / z;", " ", "&", "<", "]]>", "--> <!--",
];
const RAW: &[&[u8]] = &[b"\xff\xfe", b"\xe2\x82", b"\xc0\xaf", b"\xed\xa0\x80", b"\xf0\x9f\x98", b"\x00", b"\x0b", b"\x1b[0m", b"\x7f", b"\xef\xbf\xbd", b"\xf4\x90\x80\x80"];

#[derive(Clone, Debug)]
struct Job {
    rel: String,
    cov: CovResult,
    src: Option<Vec<u8>>,
}

fn gen_source(rng: &mut Rng) -> Vec<u8> {
    let n = rng.below(11);
    let mut out = vec![];
    for i in 0..n {
        let mut line: Vec<u8> = rng.pick(TEXTS).as_bytes().to_vec();
        if rng.chance(1, 6) {
            let at = rng.below(line.len() as u64 + 1) as usize;
            let ins = rng.pick(RAW);
            line.splice(at..at, ins.iter().cloned());
        }
        out.extend_from_slice(&line);
        let last = i + 1 == n;
        match rng.below(if last { 12 } else { 8 }) {
            0 => out.extend_from_slice(b"\r\n"),
            8 | 9 => {}                          // no terminator at the end of the file
            10 => out.push(b'\r'),               // a lone CR at the end of the file
            _ => out.push(b'\n'),
        }
    }
    out
}

const COUNTS: &[u64] = &[u64::MAX, u64::MAX - 1, 1 << 63, (1 << 63) - 1, 1 << 53, (1 << 53) + 1, 1 << 32, 1, 1, 2, 0, 0];

fn gen_cov(rng: &mut Rng, nlines: usize) -> CovResult {
    let mut c = CovResult::default();
    for _ in 0..rng.below(9) {
        // mostly inside the source, sometimes beyond its end (no row can show those)
        let l = if rng.chance(1, 8) { rng.range(1, 40) } else { rng.range(1, nlines.max(1) as u64) } as u32;
        let n = if rng.chance(1, 3) { *rng.pick(COUNTS) } else { rng.below(500) };
        c.lines.insert(l, n);
    }
    for _ in 0..rng.below(4) {
        let len = rng.range(1, 5);
        c.branches.insert(rng.range(1, 12) as u32, (0..len).map(|_| rng.chance(1, 2)).collect());
    }
    for k in 0..rng.below(5) {
        c.functions.insert(format!("f{}", k), Function { start: rng.range(1, 12) as u32, executed: rng.chance(1, 2) });
    }
    c
}

fn gen_jobs(rng: &mut Rng) -> Vec<Job> {
    let k = rng.below(6);
    let mut jobs: Vec<Job> = vec![];
    for _ in 0..k {
        let rel = if rng.chance(1, 12) {
            "/abs/outside/z.c".to_string()
        } else {
            let d = rng.pick(DIRS);
            let n = rng.pick(NAMES);
            if d.is_empty() { n.to_string() } else { format!("{}/{}", d, n) }
        };
        if jobs.iter().any(|j| j.rel == rel) {
            continue;
        }
        let src = if rng.chance(1, 10) { None } else { Some(gen_source(rng)) };
        let nlines = src.as_ref().map(|s| String::from_utf8_lossy(s).lines().count()).unwrap_or(3);
        jobs.push(Job { rel, cov: gen_cov(rng, nlines), src });
    }
    jobs
}

/// same structure, harmless names and text: file k of directory j is `dj/fk.c`, every source line
/// is `x` (line structure kept), prefix kept
fn twin_of(jobs: &[Job]) -> Vec<Job> {
    let mut dirs: Vec<String> = vec![];
    jobs.iter()
        .enumerate()
        .map(|(k, j)| {
            if j.rel.starts_with('/') {
                return j.clone();
            }
            let p = Path::new(&j.rel);
            let parent = p.parent().map(|q| q.to_str().unwrap().to_string()).unwrap_or_default();
            let di = match dirs.iter().position(|d| *d == parent) {
                Some(i) => i,
                None => {
                    dirs.push(parent.clone());
                    dirs.len() - 1
                }
            };
            // keep the depth of the directory (it decides the number of `../`, an attribute value,
            // but also nothing else) and whether the file lives at the root
            let depth = Path::new(&parent).components().count();
            let dir = if parent.is_empty() { String::new() } else { (0..depth).map(|i| if i == 0 { format!("d{}", di) } else { "s".into() }).collect::<Vec<_>>().join("/") };
            let rel = if dir.is_empty() { format!("f{}.c", k) } else { format!("{}/f{}.c", dir, k) };
            let src = j.src.as_ref().map(|s| {
                let n = String::from_utf8_lossy(s).lines().count();
                "x\n".repeat(n).into_bytes()
            });
            Job { rel, cov: j.cov.clone(), src }
        })
        .collect()
}

// ---------------------------------------------------------------------------------------------
// running the real writer

fn fixture_root(rep: &Report) -> PathBuf {
    PathBuf::from(format!("/verif/work/{}.htmlb.{}", rep.prop, std::process::id()))
}

fn collect_html(dir: &Path, base: &Path, out: &mut BTreeMap<String, Vec<u8>>) {
    let rd = match std::fs::read_dir(dir) {
        Ok(r) => r,
        Err(_) => return,
    };
    for e in rd.flatten() {
        let p = e.path();
        let ft = match e.file_type() {
            Ok(t) => t,
            Err(_) => continue,
        };
        if ft.is_dir() {
            collect_html(&p, base, out);
        } else if p.extension().map(|x| x == "html").unwrap_or(false) {
            let rel = p.strip_prefix(base).unwrap().to_str().unwrap().to_string();
            out.insert(rel, std::fs::read(&p).unwrap_or_default());
        }
    }
}

struct RealSite {
    /// path below the output directory ↦ bytes
    files: BTreeMap<String, Vec<u8>>,
    /// the text of the footer's date, if any page shows one
    date: Option<String>,
    abs: Vec<PathBuf>,
}

fn abs_of(root: &Path, k: usize, rel: &str) -> PathBuf {
    root.join(format!("s{}", k)).join(rel.trim_start_matches('/'))
}

fn run_real(root: &Path, tag: &str, conf: &Conf, jobs: &[Job]) -> Result<RealSite, String> {
    let base = root.join(tag);
    let _ = std::fs::remove_dir_all(&base);
    let srcd = base.join("src");
    let outd = base.join("out");
    std::fs::create_dir_all(&srcd).unwrap();
    let mut set: Vec<(PathBuf, PathBuf, CovResult)> = vec![];
    let mut abs = vec![];
    for (k, j) in jobs.iter().enumerate() {
        let a = abs_of(&srcd, k, &j.rel);
        if let Some(b) = &j.src {
            std::fs::create_dir_all(a.parent().unwrap()).unwrap();
            std::fs::write(&a, b).unwrap();
        }
        abs.push(a.clone());
        set.push((a, PathBuf::from(&j.rel), j.cov.clone()));
    }
    let cfg = conf.config_file(&base);
    let prefix = conf.prefix.clone();
    let (branch, precision, no_date, res) = (conf.branch, conf.precision, conf.no_date, conf.resources());
    let outd2 = outd.clone();
    guarded(AssertUnwindSafe(move || {
        grcov::output_html(&set, Some(&outd2), 1, branch, cfg.as_deref(), precision, &prefix, no_date, res)
    }))?;
    let mut files = BTreeMap::new();
    collect_html(&outd, &outd, &mut files);
    let mut date = None;
    for b in files.values() {
        if let Some(i) = find(b, b"<p class=\"heading\">Date: ") {
            let rest = &b[i + 25..];
            if let Some(j) = find(rest, b"</p>") {
                date = Some(String::from_utf8_lossy(&rest[..j]).to_string());
            }
        }
    }
    Ok(RealSite { files, date, abs })
}

fn find(h: &[u8], n: &[u8]) -> Option<usize> {
    if n.is_empty() || h.len() < n.len() {
        return None;
    }
    (0..=h.len() - n.len()).find(|&i| &h[i..i + n.len()] == n)
}

fn date_ok(d: &str) -> bool {
    let b = d.as_bytes();
    b.len() == 16
        && b.iter().enumerate().all(|(i, c)| match i {
            4 | 7 => *c == b'-',
            10 => *c == b' ',
            13 => *c == b':',
            _ => c.is_ascii_digit(),
        })
}

fn fnv_hex(b: &[u8]) -> String {
    format!("{:016x}", fnv64(b))
}

fn site_request(op: &str, conf: &Conf, date: &Option<String>, jobs: &[Job], abs: &[PathBuf]) -> String {
    let mut s = format!("c03.htmlb {} {} {}", op, conf.model(date), conf.prefix_arg());
    for (j, a) in jobs.iter().zip(abs.iter()) {
        s.push_str(&format!(
            " R{}={}={}={}",
            hex(a.to_str().unwrap().as_bytes()),
            hex(j.rel.as_bytes()),
            show_cov(&j.cov),
            j.src.as_ref().map(|b| format!("h{}", hex(b))).unwrap_or("x".into())
        ));
    }
    s
}

fn jobs_json(jobs: &[Job]) -> Value {
    Value::Array(jobs.iter().map(|j| json!({"rel": j.rel, "cov": show_cov(&j.cov), "src": j.src.as_ref().map(|b| hex(b))})).collect())
}

fn jobs_from_json(v: &Value) -> Vec<Job> {
    v.as_array()
        .map(|a| {
            a.iter()
                .map(|j| Job {
                    rel: j["rel"].as_str().unwrap_or("").to_string(),
                    cov: parse_cov(j["cov"].as_str().unwrap_or("L;B;F")),
                    src: j["src"].as_str().map(unhex),
                })
                .collect()
        })
        .unwrap_or_default()
}

/// `<path hex>:<len>:<hash>` or `<path hex>=<bytes hex>` entries of an `ok …` answer
fn parse_listing(ans: &str) -> Option<Vec<(String, String)>> {
    let mut it = ans.split(' ');
    if it.next() != Some("ok") {
        return None;
    }
    Some(
        it.filter(|t| !t.is_empty())
            .map(|t| {
                let i = t.find(|c| c == ':' || c == '=').unwrap_or(t.len());
                (String::from_utf8_lossy(&unhex(&t[..i])).to_string(), t[i..].to_string())
            })
            .collect(),
    )
}

fn first_diff(a: &[u8], b: &[u8]) -> String {
    let i = a.iter().zip(b.iter()).take_while(|(x, y)| x == y).count();
    let lo = i.saturating_sub(60);
    format!(
        "first difference at byte {} (real {} bytes, model {} bytes): real …{:?}… model …{:?}…",
        i,
        a.len(),
        b.len(),
        String::from_utf8_lossy(&a[lo..(i + 40).min(a.len())]),
        String::from_utf8_lossy(&b[lo..(i + 40).min(b.len())])
    )
}

/// compare a real file set with the model's answer (`full` = the answer carries the bytes)
fn compare_listing(real: &BTreeMap<String, Vec<u8>>, ans: &str, full: bool) -> Option<String> {
    let listing = match parse_listing(ans) {
        Some(l) => l,
        None => return Some(format!("the model answers {:?}, the real writer wrote {} html files", &ans[..ans.len().min(40)], real.len())),
    };
    let mp: Vec<&String> = listing.iter().map(|x| &x.0).collect();
    let rp: Vec<&String> = real.keys().collect();
    if mp != rp {
        return Some(format!("file sets differ: real {:?}, model {:?}", rp, mp));
    }
    for (p, tail) in &listing {
        let r = &real[p];
        if full {
            let m = unhex(&tail[1..]);
            if m != *r {
                return Some(format!("{}: {}", p, first_diff(r, &m)));
            }
        } else if *tail != format!(":{}:{}", r.len(), fnv_hex(r)) {
            return Some(format!("{}: real {} bytes fnv {}, model {}", p, r.len(), fnv_hex(r), tail));
        }
    }
    None
}

// ---------------------------------------------------------------------------------------------
// what the readers must return (independent of the model: native f64, std::path, str::lines)

fn pct(c: u64, t: u64) -> f64 {
    if t != 0 { c as f64 / t as f64 * 100.0 } else { 100.0 }
}
fn rounded(p: usize, x: f64) -> String {
    let m = if p == 0 { 1.0 } else { 10.0_f64.powi(p as i32) };
    format!("{}", (m * x).round() / m)
}
fn sev(hi: u64, med: u64, r: f64) -> &'static str {
    let (hi, med) = (hi as f64, med as f64);
    if hi <= r && r <= 100.0 { "success" } else if med <= r && r < hi { "warning" } else { "danger" }
}

fn stats_of(c: &CovResult) -> [u64; 6] {
    [
        c.lines.len() as u64,
        c.lines.values().filter(|v| **v > 0).count() as u64,
        c.functions.len() as u64,
        c.functions.values().filter(|f| f.executed).count() as u64,
        c.branches.values().map(|v| v.len() as u64).sum(),
        c.branches.values().map(|v| v.iter().filter(|x| **x).count() as u64).sum(),
    ]
}

fn add_stats(a: &mut [u64; 6], b: &[u64; 6]) {
    for i in 0..6 {
        a[i] += b[i];
    }
}

fn figures(conf: &Conf, s: &[u64; 6]) -> String {
    let l = conf.limits();
    let mut v = vec![];
    for (k, name) in ["Lines", "Functions", "Branches"].iter().enumerate() {
        if k == 2 && !conf.branch {
            break;
        }
        let (t, c) = (s[2 * k], s[2 * k + 1]);
        let r = pct(c, t);
        v.push(format!("{}:{}:{}:{}:{}", name, sev(l[2 * k], l[2 * k + 1], r), c, t, rounded(conf.precision, r)));
    }
    v.join(",")
}

fn bulma(conf: &Conf, root: &str) -> String {
    if conf.bundled {
        format!("{}/bulma.min.css", root.trim_end_matches('/'))
    } else {
        "https://cdn.jsdelivr.net/npm/bulma@0.9.1/css/bulma.min.css".to_string()
    }
}

fn hx(s: &str) -> String {
    hex(s.as_bytes())
}

/// the view `parseFilePage` must return for the page of `j`
fn expect_file_view(conf: &Conf, date: &Option<String>, j: &Job) -> String {
    let rel = Path::new(&j.rel);
    let fname = rel.file_name().unwrap().to_str().unwrap();
    let parent = rel.parent().unwrap().to_str().unwrap();
    let depth = rel.components().count() - 1;
    let base = "../".repeat(depth);
    let (top, par) = match &conf.prefix {
        Some(p) => (
            PathBuf::from(p).join("index.html").display().to_string(),
            PathBuf::from(p).join(parent).join("index.html").display().to_string(),
        ),
        None => (format!("{}index.html", base), "./index.html".to_string()),
    };
    let text = String::from_utf8_lossy(j.src.as_ref().unwrap()).to_string();
    let rows: Vec<String> = text
        .lines()
        .enumerate()
        .map(|(i, l)| {
            let c = j.cov.lines.get(&((i + 1) as u32));
            format!("{}:{}:{}", i + 1, c.map(|c| c.to_string()).unwrap_or("n".into()), hx(l))
        })
        .collect();
    format!(
        "T{};S{};C{}={},{}={};U{};F{};D{};R{}",
        hx(fname),
        hx(&bulma(conf, &base)),
        hx(&top),
        hx("top_level"),
        hx(&par),
        hx(parent),
        hx(fname),
        figures(conf, &stats_of(&j.cov)),
        date.as_ref().map(|d| format!("x{}", hx(d))).unwrap_or("-".into()),
        rows.join(",")
    )
}

/// one row of an index view
fn idx_row(conf: &Conf, url: &str, name: &str, s: &[u64; 6]) -> String {
    let l = conf.limits();
    let mut cells = vec![];
    for k in 0..3 {
        if k == 2 && !conf.branch {
            break;
        }
        let (t, c) = (s[2 * k], s[2 * k + 1]);
        let r = pct(c, t);
        cells.push(format!("{}/{}/{}/{}", sev(l[2 * k], l[2 * k + 1], r), rounded(conf.precision, r), c, t));
    }
    format!("{}:{}:{}:{}", hx(url), hx(name), format!("{}", pct(s[1], s[0])), cells.join("+"))
}

// ---------------------------------------------------------------------------------------------
// html.parser

fn run_py(rep: &Report, root: &Path, tag: &str, pages: &[(String, PathBuf)]) -> Value {
    let man: Vec<Value> = pages.iter().map(|(id, p)| json!({"id": id, "kind": "html", "path": p.to_str().unwrap()})).collect();
    let mp = root.join(format!("{}.manifest.json", tag));
    let op = root.join(format!("{}.decoded.json", tag));
    std::fs::write(&mp, serde_json::to_string(&man).unwrap()).unwrap();
    let st = std::process::Command::new("/usr/bin/python3").arg("/verif/tools/c18_decode.py").arg(&mp).arg(&op).status();
    let _ = rep;
    match st {
        Ok(s) if s.success() => serde_json::from_str(&std::fs::read_to_string(&op).unwrap_or_default()).unwrap_or(Value::Null),
        _ => {
            eprintln!("htmlbytes: tools/c18_decode.py failed");
            std::process::exit(2);
        }
    }
}

/// the tag stream an HTML tokenizer reports for a skeleton (`<tag a="" b="">`, `</tag>`, `<!-- -->`,
/// `<!DOCTYPE html>`), in the notation of tools/c18_decode.py
fn skeleton_tags(sk: &[u8]) -> Vec<String> {
    let s = String::from_utf8_lossy(sk).to_string();
    let mut out = vec![];
    for part in s.split('<').skip(1) {
        let body = part.trim_end_matches('>');
        if let Some(r) = body.strip_prefix("!--") {
            let _ = r;
            out.push("C".to_string());
        } else if let Some(r) = body.strip_prefix('!') {
            out.push(format!("D {}", r));
        } else if let Some(r) = body.strip_prefix('/') {
            out.push(format!("E {}", r.trim()));
        } else {
            let mut it = body.split_whitespace();
            let tag = it.next().unwrap_or("");
            let keys: Vec<String> = it.map(|a| a.trim_end_matches("=\"\"").to_string()).collect();
            out.push(format!("S {} {}", tag, keys.join(",")));
        }
    }
    out
}

fn printable(s: &str) -> bool {
    s.chars().all(|c| (c as u32) >= 0x20 && c != '\u{7f}')
}

// ---------------------------------------------------------------------------------------------
// the site stream

struct SiteCase {
    conf: Conf,
    jobs: Vec<Job>,
    twin: bool,
}

fn site_case_json(c: &SiteCase) -> Value {
    json!({"op": "c03.htmlb.site", "conf": c.conf.json(), "jobs": jobs_json(&c.jobs), "twin": c.twin})
}

fn dest_of(rel: &str) -> String {
    let d: PathBuf = Path::new(rel).components().filter(|x| matches!(x, std::path::Component::Normal(_))).collect();
    format!("{}.html", d.to_str().unwrap())
}

/// a case whose real pages have been written; the readers and the model come later, in one batch
struct SitePending {
    tag: String,
    full: bool,
    real: RealSite,
    twin: Option<(Vec<Job>, RealSite)>,
    date: Option<String>,
    /// (path, view the strict reader must return, is a file page)
    views: Vec<(String, String, bool)>,
    /// first request of this case in the batch
    at: usize,
}

/// phase 1: the real writer (and the benign twin)
fn site_prepare(rep: &mut Report, root: &Path, tag: &str, c: &SiteCase, full: bool) -> Option<SitePending> {
    let cj = site_case_json(c);
    let real = match run_real(root, tag, &c.conf, &c.jobs) {
        Ok(r) => r,
        Err(p) => {
            // the model must predict the panic
            let abs: Vec<PathBuf> = c.jobs.iter().enumerate().map(|(k, j)| abs_of(&root.join(tag).join("src"), k, &j.rel)).collect();
            let req = site_request("site", &c.conf, &None, &c.jobs, &abs);
            let ans = run_model(&[req], &rep.workdir, "htmlb.panic");
            rep.count("htmlb.site.real_panic");
            if ans[0] != "panic" {
                rep.fail("oracle", None, format!("c03.htmlb.site: output_html panicked: {}", p), cj);
            }
            return None;
        }
    };
    if c.conf.no_date && real.date.is_some() {
        rep.fail("oracle", None, "c03.htmlb.site: a date is shown with --no-date".into(), cj);
        return None;
    }
    if let Some(d) = &real.date {
        if !date_ok(d) {
            rep.fail("oracle", None, format!("c03.htmlb.site: the date {:?} is not %Y-%m-%d %H:%M", d), cj);
            return None;
        }
        rep.count("htmlb.site.with_date");
    }
    let date = if c.conf.no_date { None } else { real.date.clone() };
    rep.count_n("htmlb.site.html_files", real.files.len() as u64);
    rep.count_n("htmlb.site.bytes", real.files.values().map(|b| b.len() as u64).sum());
    let twin = if c.twin {
        let tj = twin_of(&c.jobs);
        let tconf = Conf { prefix: c.conf.prefix.as_ref().map(|_| "http://h/p".to_string()), ..c.conf.clone() };
        match run_real(root, &format!("{}t", tag), &tconf, &tj) {
            Err(p) => {
                rep.fail("oracle", None, format!("c03.htmlb.site: output_html panicked on the benign twin: {}", p), cj);
                return None;
            }
            Ok(tw) => Some((tj, tw)),
        }
    } else {
        None
    };
    Some(SitePending { tag: tag.to_string(), full, real, twin, date, views: vec![], at: 0 })
}

/// the pages html.parser has to read for a prepared case: (id, path on disk)
fn site_manifest(root: &Path, p: &SitePending) -> Vec<(String, PathBuf)> {
    let outd = root.join(&p.tag).join("out");
    let mut v: Vec<(String, PathBuf)> = p.real.files.keys().map(|f| (format!("{}|{}", p.tag, f), outd.join(f))).collect();
    if let Some((_, tw)) = &p.twin {
        let toutd = root.join(format!("{}t", p.tag)).join("out");
        v.extend(tw.files.keys().map(|f| (format!("{}t|{}", p.tag, f), toutd.join(f))));
    }
    v
}

/// phase 2: the property oracles on the implementation's own pages (html.parser), what the strict
/// reader must return, and the requests for the model. `None` = a failure has been recorded.
fn site_oracles(rep: &mut Report, c: &SiteCase, p: &mut SitePending, dec: &Value, reqs: &mut Vec<String>) -> Option<()> {
    let cj = site_case_json(c);
    let real = &p.real;
    let date = &p.date;
    let d_of = |path: &str| &dec[format!("{}|{}", p.tag, path)];
    let mut expected_views: Vec<(String, String, bool)> = vec![];
    // which job owns which page: the last readable relative job written to that destination,
    // unless an index replaces it
    let mut dirs: BTreeMap<String, (BTreeMap<String, (Option<String>, [u64; 6])>, [u64; 6])> = BTreeMap::new();
    let mut global = [0u64; 6];
    let mut page_owner: BTreeMap<String, usize> = BTreeMap::new();
    for (k, j) in c.jobs.iter().enumerate() {
        if j.rel.starts_with('/') || j.src.is_none() {
            continue;
        }
        let rel = Path::new(&j.rel);
        let parent = rel.parent().unwrap().to_str().unwrap().to_string();
        let fname = rel.file_name().unwrap().to_str().unwrap().to_string();
        let st = stats_of(&j.cov);
        add_stats(&mut global, &st);
        let e = dirs.entry(parent.clone()).or_insert((BTreeMap::new(), [0; 6]));
        add_stats(&mut e.1, &st);
        e.0.insert(fname, (c.conf.prefix.as_ref().map(|pre| Path::new(pre).join(&parent).to_str().unwrap().to_string()), st));
        page_owner.insert(dest_of(&j.rel), k);
    }
    let mut index_at: BTreeMap<String, Option<String>> = BTreeMap::new(); // location ↦ directory key (None = global)
    index_at.insert("index.html".into(), None);
    for d in dirs.keys() {
        let loc: PathBuf = Path::new(d).components().filter(|x| matches!(x, std::path::Component::Normal(_))).collect();
        let loc = loc.join("index.html").to_str().unwrap().to_string();
        index_at.insert(loc, Some(d.clone()));
    }
    for path in real.files.keys() {
        if let Some(dk) = index_at.get(path) {
            // an index page
            let (kind, current, crumbs, st, rows, root_txt) = match dk {
                None => {
                    let rows: Vec<String> = dirs
                        .iter()
                        .map(|(d, (_, st))| {
                            let url = match &c.conf.prefix {
                                Some(pre) if !pre.is_empty() => format!("{}{}/index.html", pre, d),
                                _ => format!("./{}/index.html", d),
                            };
                            idx_row(&c.conf, &url, d, st)
                        })
                        .collect();
                    ("Directory", "top_level".to_string(), String::new(), global, rows, ".".to_string())
                }
                Some(d) => {
                    let (files, st) = &dirs[d];
                    let layers = Path::new(d).join("index.html").components().count() - 1;
                    let link = match &c.conf.prefix {
                        Some(pre) => Path::new(pre).join("index.html").to_str().unwrap().to_string(),
                        None => format!("{}index.html", "../".repeat(layers)),
                    };
                    let rows: Vec<String> = files
                        .iter()
                        .map(|(n, (pre, st))| {
                            let url = match pre {
                                Some(q) if !q.is_empty() => format!("{}/{}.html", q, n),
                                _ => format!("./{}.html", n),
                            };
                            idx_row(&c.conf, &url, n, st)
                        })
                        .collect();
                    ("File", d.clone(), format!("{}={}", hx(&link), hx("top_level")), *st, rows, "../".repeat(layers))
                }
            };
            let view = format!(
                "T{};S{};C{};U{};F{};D{};K{};B{};R{}",
                hx(&current),
                hx(&bulma(&c.conf, &root_txt)),
                crumbs,
                hx(&current),
                figures(&c.conf, &st),
                date.as_ref().map(|d| format!("x{}", hx(d))).unwrap_or("-".into()),
                kind,
                c.conf.branch as u8,
                rows.join(",")
            );
            expected_views.push((path.clone(), view, false));
        } else if let Some(&k) = page_owner.get(path) {
            expected_views.push((path.clone(), expect_file_view(&c.conf, date, &c.jobs[k]), true));
            // html.parser: ids, aria-labels and <pre> texts are the rows
            let j = &c.jobs[k];
            let text = String::from_utf8_lossy(j.src.as_ref().unwrap()).to_string();
            let lines: Vec<&str> = text.lines().collect();
            let d = d_of(path);
            let ids: Vec<String> = d["values"].as_array().map(|a| a.iter().filter(|v| v[1] == "id").map(|v| v[2].as_str().unwrap_or("").to_string()).collect()).unwrap_or_default();
            let arias: Vec<String> = d["values"].as_array().map(|a| a.iter().filter(|v| v[0] == "div" && v[1] == "aria-label" && v[2] != "Coverage report").map(|v| v[2].as_str().unwrap_or("").to_string()).collect()).unwrap_or_default();
            let pres: Vec<String> = d["elems"].as_array().map(|a| a.iter().filter(|v| v[0] == "pre").map(|v| v[2].as_str().unwrap_or("").to_string()).collect()).unwrap_or_default();
            let want_ids: Vec<String> = (1..=lines.len()).map(|i| i.to_string()).collect();
            let want_arias: Vec<String> = (1..=lines.len())
                .map(|i| match j.cov.lines.get(&(i as u32)) {
                    Some(0) => "0".to_string(),
                    Some(n) => n.to_string(),
                    None => "no coverage".to_string(),
                })
                .collect();
            if ids != want_ids || arias != want_arias {
                rep.fail("oracle", None, format!("c03.htmlb.site: html.parser reads the rows of {:?} as ids {:?} / labels {:?}; the inputs say {:?} / {:?}", path, ids, arias, want_ids, want_arias), cj.clone());
                return None;
            }
            if lines.iter().all(|l| printable(l)) {
                rep.count("htmlb.site.pages_text_checked_by_html_parser");
                if pres != lines.iter().map(|l| l.to_string()).collect::<Vec<_>>() {
                    rep.fail("oracle", None, format!("c03.htmlb.site: html.parser reads the source text of {:?} as {:?}; the source says {:?}", path, pres, lines), cj.clone());
                    return None;
                }
            }
        } else {
            rep.fail("oracle", None, format!("c03.htmlb.site: {:?} belongs to no readable relative result and is no index", path), cj.clone());
            return None;
        }
    }
    if c.jobs.iter().any(|j| j.cov.lines.values().any(|v| *v >= 1 << 63)) {
        rep.count("htmlb.site.count_ge_2^63");
    }
    if c.jobs.iter().any(|j| j.src.as_ref().map(|s| std::str::from_utf8(s).is_err()).unwrap_or(false)) {
        rep.count("htmlb.site.source_invalid_utf8");
    }
    // the benign twin (C18): pages correspond job by job
    if let Some((tj, _)) = &p.twin {
        let mut a: Vec<Vec<Value>> = vec![];
        let mut b: Vec<Vec<Value>> = vec![];
        for (k, j) in c.jobs.iter().enumerate() {
            if j.rel.starts_with('/') || j.src.is_none() {
                continue;
            }
            let (p1, p2) = (dest_of(&j.rel), dest_of(&tj[k].rel));
            // a page replaced by an index (a source named `index`) has no twin page
            if page_owner.get(&p1) == Some(&k) && !index_at.contains_key(&p1) {
                a.push(dec[format!("{}|{}", p.tag, p1)]["tags"].as_array().cloned().unwrap_or_default());
                b.push(dec[format!("{}t|{}", p.tag, p2)]["tags"].as_array().cloned().unwrap_or_default());
            }
        }
        if a != b {
            rep.fail("oracle", None, "c03.htmlb.site: the tag stream (html.parser) of a page differs from the one of its benign twin: a name or a source line has changed the markup".into(), cj);
            return None;
        }
        rep.count_n("htmlb.site.pages_equal_to_twin", a.len() as u64);
    }
    // the requests
    p.at = reqs.len();
    reqs.push(site_request(if p.full { "sitefull" } else { "site" }, &c.conf, date, &c.jobs, &real.abs));
    for (path, _, is_file) in &expected_views {
        reqs.push(format!("c03.htmlb {} x{}", if *is_file { "parsefile" } else { "parseindex" }, hex(&real.files[path])));
        reqs.push(format!("c03.htmlb skeleton x{}", hex(&real.files[path])));
    }
    p.views = expected_views;
    Some(())
}

/// phase 3: the model's answers
fn site_judge(rep: &mut Report, c: &SiteCase, p: &SitePending, dec: &Value, reqs: &[String], ans: &[String]) {
    let cj = site_case_json(c);
    let real = &p.real;
    let a0 = &ans[p.at];
    rep.sample(json!({"request": reqs[p.at].chars().take(300).collect::<String>(), "model": a0.chars().take(200).collect::<String>(), "real_files": real.files.keys().collect::<Vec<_>>()}));
    let mut diff = compare_listing(&real.files, a0, p.full);
    if diff.is_some() && !p.full {
        // fetch the bytes for the diagnosis
        let a2 = run_model(&[site_request("sitefull", &c.conf, &p.date, &c.jobs, &real.abs)], &rep.workdir, "htmlb.sitefull");
        diff = compare_listing(&real.files, &a2[0], true).or(diff);
    }
    if let Some(d) = diff {
        rep.disagreements_checked += 1;
        rep.fail("disagreement", None, format!("c03.htmlb.site: the pages written by output_html differ from HtmlBytes.site: {}", d), cj);
        return;
    }
    for (i, (path, view, is_file)) in p.views.iter().enumerate() {
        let got = &ans[p.at + 1 + 2 * i];
        rep.count(if *is_file { "htmlb.site.file_pages_read" } else { "htmlb.site.index_pages_read" });
        if *got != format!("ok {}", view) {
            // the reader is proved to invert the model's pages, and the page equals the model's:
            // a difference is between the inputs and what the page shows
            rep.fail("oracle", None, format!("c03.htmlb.site: the strict reader returns {:?} for the real page {:?}; the inputs say {:?}", got.chars().take(400).collect::<String>(), path, view.chars().take(400).collect::<String>()), cj.clone());
            return;
        }
        // html.parser's tag stream = the model's skeleton of the same real page
        let sk = unhex(&ans[p.at + 2 + 2 * i][1..]);
        let tags: Vec<String> = dec[format!("{}|{}", p.tag, path)]["tags"].as_array().map(|a| a.iter().map(|t| t.as_str().unwrap_or("").trim_end().to_string()).collect()).unwrap_or_default();
        let mine: Vec<String> = skeleton_tags(&sk).iter().map(|t| t.trim_end().to_string()).collect();
        if tags != mine {
            let k = tags.iter().zip(mine.iter()).take_while(|(a, b)| a == b).count();
            rep.disagreements_checked += 1;
            rep.fail("disagreement", None, format!("c03.htmlb.site: html.parser's tag stream of {:?} differs from HtmlBytes.skeleton at tag {}: {:?} vs {:?}", path, k, tags.get(k), mine.get(k)), cj.clone());
            return;
        }
        rep.count("htmlb.site.skeletons_agree_with_html_parser");
    }
}

/// all three phases for a batch of cases: one html.parser run, one model run
fn eval_sites(rep: &mut Report, root: &Path, cases: &[SiteCase], tags: &[String], full_upto: usize) {
    let mut pend: Vec<(usize, SitePending)> = vec![];
    for (i, c) in cases.iter().enumerate() {
        if rep.verdict_clear() {
            break;
        }
        if let Some(p) = site_prepare(rep, root, &tags[i], c, i < full_upto) {
            pend.push((i, p));
        }
    }
    let manifest: Vec<(String, PathBuf)> = pend.iter().flat_map(|(_, p)| site_manifest(root, p)).collect();
    let dec = run_py(rep, root, "sites", &manifest);
    let mut reqs: Vec<String> = vec![];
    let mut live: Vec<(usize, SitePending)> = vec![];
    for (i, mut p) in pend {
        if site_oracles(rep, &cases[i], &mut p, &dec, &mut reqs).is_some() {
            live.push((i, p));
        }
    }
    if reqs.is_empty() {
        return;
    }
    let ans = run_model(&reqs, &rep.workdir, "htmlb.site");
    for (i, p) in &live {
        site_judge(rep, &cases[*i], p, &dec, &reqs, &ans);
    }
}

fn gen_site_case(rng: &mut Rng, i: u64) -> SiteCase {
    let conf = gen_conf(rng);
    let jobs = gen_jobs(rng);
    SiteCase { conf, jobs, twin: i % 3 == 0 }
}

fn site_stream(rep: &mut Report, rng: &mut Rng, root: &Path) {
    let n = rep.budget(90, 8);
    let mut cases: Vec<SiteCase> = vec![];
    // fixed cases first: the big counts, the root-level page with bundled resources, a source
    // named `index`, a prefix without and with separator
    let mk = |rel: &str, cov: &str, src: &[u8]| Job { rel: rel.into(), cov: parse_cov(cov), src: Some(src.to_vec()) };
    cases.push(SiteCase {
        conf: Conf { branch: true, precision: 2, bundled: true, no_date: true, limits: None, prefix: None },
        jobs: vec![
            mk("big.c", "L1:18446744073709551615,2:9223372036854775808,3:0;B2:101;F66:1:1", b"a<b\r\nc&d\n\n\xffx"),
            mk("src/lib/u.rs", "L1:1,2:0,4:7;B;F", b"one\ntwo\nthree\nfour"),
        ],
        twin: true,
    });
    cases.push(SiteCase {
        conf: Conf { branch: false, precision: 0, bundled: false, no_date: false, limits: Some([50, 20, 100, 0, 90, 75]), prefix: Some("http://h".into()) },
        jobs: vec![mk("src/index", "L1:1;B;F", b"x\n"), mk("src/x.c", "L1:1,2:0,3:0;B1:10;F61:1:0,62:2:1", b"1\n2\n3\n")],
        twin: false,
    });
    while (cases.len() as u64) < n {
        let i = cases.len() as u64;
        cases.push(gen_site_case(rng, i));
    }
    for c in cases.iter() {
        let canon = site_case_json(c).to_string();
        let hostile = c.jobs.iter().any(|j| j.rel.chars().any(|ch| "<>&\"'".contains(ch)) || j.src.as_ref().map(|s| s.iter().any(|b| b"<>&\"'".contains(b))).unwrap_or(false));
        rep.case(&canon, hostile || c.jobs.len() >= 2);
        rep.count(&format!("htmlb.site.jobs={}", c.jobs.len()));
        rep.count(if c.conf.branch { "htmlb.site.branch" } else { "htmlb.site.no_branch" });
        rep.count(&format!("htmlb.site.precision={}", c.conf.precision.min(5)));
        if c.conf.prefix.is_some() {
            rep.count("htmlb.site.abs_link_prefix");
        }
        if c.conf.limits.is_some() {
            rep.count("htmlb.site.config_file_limits");
        }
        if c.conf.bundled {
            rep.count("htmlb.site.bundled");
        }
    }
    // batches of 45 cases keep the fixture tree small
    let tags: Vec<String> = (0..cases.len()).map(|i| format!("s{}", i)).collect();
    let mut at = 0;
    while at < cases.len() {
        let to = (at + 45).min(cases.len());
        eval_sites(rep, root, &cases[at..to], &tags[at..to], if at == 0 { 12 } else { 0 });
        for t in &tags[at..to] {
            let _ = std::fs::remove_dir_all(root.join(t));
            let _ = std::fs::remove_dir_all(root.join(format!("{}t", t)));
        }
        at = to;
    }
}

// ---------------------------------------------------------------------------------------------
// gen_index on arbitrary statistics

const BIG: &[u64] = &[u64::MAX, u64::MAX - 1, 1 << 63, (1 << 63) + 1, (1 << 53) + 1, 1 << 53, 9007199254740993, 1 << 32, 3, 7, 1000, 0, 1];

fn gen_stat_pair(rng: &mut Rng) -> (u64, u64) {
    // (total, covered)
    match rng.below(8) {
        0 => (0, 0),
        1 => {
            let t = *rng.pick(BIG);
            (t, if t == 0 { 0 } else { rng.next() % t })
        }
        2 => {
            let t = rng.next() >> rng.below(64);
            (t, if t == 0 { 0 } else { rng.next() % t.max(1) })
        }
        3 => {
            let t = rng.range(1, 2000);
            (t, t)
        }
        4 => (rng.below(50), rng.below(5000)), // covered > total (never produced by get_stats; the templates accept it)
        5 => {
            // close to the limits: k% of a round total, plus or minus one
            let t = *rng.pick(&[100u64, 1000, 10000, 200, 400, 3, 7, 9, 11, 1 << 20]);
            let k = *rng.pick(&[90u64, 75, 50, 100, 89, 91, 74, 76]);
            let c = (t * k / 100).saturating_add(rng.below(3)).saturating_sub(1);
            (t, c.min(t))
        }
        _ => {
            let t = rng.range(1, 400);
            (t, rng.below(t + 1))
        }
    }
}

fn gen_stats(rng: &mut Rng) -> [u64; 6] {
    let (tl, cl) = gen_stat_pair(rng);
    let (tf, cf) = gen_stat_pair(rng);
    let (tb, cb) = gen_stat_pair(rng);
    [tl, cl, tf, cf, tb, cb]
}

fn to_html_stats(s: &[u64; 6]) -> HtmlStats {
    HtmlStats {
        total_lines: s[0] as usize,
        covered_lines: s[1] as usize,
        total_funs: s[2] as usize,
        covered_funs: s[3] as usize,
        total_branches: s[4] as usize,
        covered_branches: s[5] as usize,
    }
}

fn show_stats(s: &[u64; 6]) -> String {
    format!("{}:{}:{}:{}:{}:{}", s[0], s[1], s[2], s[3], s[4], s[5])
}

#[derive(Clone, Debug)]
struct GDir {
    name: String,
    prefix: Option<String>,
    stats: [u64; 6],
    files: Vec<(String, Option<String>, [u64; 6])>,
}

#[derive(Clone, Debug)]
struct GCase {
    conf: Conf,
    prefix: Option<String>,
    stats: [u64; 6],
    dirs: Vec<GDir>,
}

const GDIRS: &[&str] = &["", "src", "src/lib", "a b", "d<&>", "ü", "x'y\"z", "deep/er/tree", "{{ 7*7 }}", "./dot", "amp&amp;"];

fn gen_gcase(rng: &mut Rng) -> GCase {
    let conf = Conf { no_date: true, ..gen_conf(rng) };
    let opt_prefix = |rng: &mut Rng| if rng.chance(1, 3) { Some(rng.pick(PREFIXES).to_string()) } else { None };
    let mut dirs: BTreeMap<String, GDir> = BTreeMap::new();
    for _ in 0..rng.below(4) {
        let name = rng.pick(GDIRS).to_string();
        let mut files: BTreeMap<String, (Option<String>, [u64; 6])> = BTreeMap::new();
        for _ in 0..rng.below(4) {
            files.insert(rng.pick(NAMES).to_string(), (opt_prefix(rng), gen_stats(rng)));
        }
        let d = GDir { name: name.clone(), prefix: opt_prefix(rng), stats: gen_stats(rng), files: files.into_iter().map(|(n, (p, s))| (n, p, s)).collect() };
        dirs.insert(name, d);
    }
    GCase { conf, prefix: opt_prefix(rng), stats: gen_stats(rng), dirs: dirs.into_values().collect() }
}

fn opt_x(p: &Option<String>) -> String {
    p.as_ref().map(|p| format!("x{}", hx(p))).unwrap_or("-".into())
}

fn gcase_request(op: &str, c: &GCase) -> String {
    let dirs: Vec<String> = c
        .dirs
        .iter()
        .map(|d| {
            let files: Vec<String> = d.files.iter().map(|(n, p, s)| format!("x{}~{}~{}", hx(n), opt_x(p), show_stats(s))).collect();
            format!("x{};{};{};{}", hx(&d.name), opt_x(&d.prefix), show_stats(&d.stats), files.join(","))
        })
        .collect();
    format!("c03.htmlb {} {} {}/{}/{}", op, c.conf.model(&None), opt_x(&c.prefix), show_stats(&c.stats), dirs.join("|"))
}

fn gcase_json(c: &GCase) -> Value {
    json!({"op": "c03.htmlb.gindex", "conf": c.conf.json(), "prefix": c.prefix, "stats": c.stats.to_vec(),
           "dirs": c.dirs.iter().map(|d| json!({"name": d.name, "prefix": d.prefix, "stats": d.stats.to_vec(),
               "files": d.files.iter().map(|(n, p, s)| json!({"name": n, "prefix": p, "stats": s.to_vec()})).collect::<Vec<_>>()})).collect::<Vec<_>>()})
}

fn stats_from_json(v: &Value) -> [u64; 6] {
    let mut s = [0u64; 6];
    if let Some(a) = v.as_array() {
        for (i, x) in a.iter().take(6).enumerate() {
            s[i] = x.as_u64().unwrap_or(0);
        }
    }
    s
}

fn gcase_from_json(v: &Value) -> GCase {
    GCase {
        conf: Conf::from_json(&v["conf"]),
        prefix: v["prefix"].as_str().map(|s| s.to_string()),
        stats: stats_from_json(&v["stats"]),
        dirs: v["dirs"]
            .as_array()
            .map(|a| {
                a.iter()
                    .map(|d| GDir {
                        name: d["name"].as_str().unwrap_or("").to_string(),
                        prefix: d["prefix"].as_str().map(|s| s.to_string()),
                        stats: stats_from_json(&d["stats"]),
                        files: d["files"].as_array().map(|f| f.iter().map(|x| (x["name"].as_str().unwrap_or("").to_string(), x["prefix"].as_str().map(|s| s.to_string()), stats_from_json(&x["stats"]))).collect()).unwrap_or_default(),
                    })
                    .collect()
            })
            .unwrap_or_default(),
    }
}

/// the real `gen_index` for one case: the files it wrote
fn gindex_real(root: &Path, tag: &str, c: &GCase) -> Result<BTreeMap<String, Vec<u8>>, String> {
    let base = root.join(tag);
    let _ = std::fs::remove_dir_all(&base);
    let outd = base.join("out");
    std::fs::create_dir_all(&outd).unwrap();
    let cfg = c.conf.config_file(&base);
    let global = HtmlGlobalStats {
        dirs: c
            .dirs
            .iter()
            .map(|d| {
                (
                    d.name.clone(),
                    HtmlDirStats {
                        files: d.files.iter().map(|(n, p, s)| (n.clone(), HtmlFileStats { stats: to_html_stats(s), abs_prefix: p.as_ref().map(PathBuf::from) })).collect(),
                        stats: to_html_stats(&d.stats),
                        abs_prefix: d.prefix.as_ref().map(PathBuf::from),
                    },
                )
            })
            .collect(),
        stats: to_html_stats(&c.stats),
        abs_prefix: c.prefix.as_ref().map(PathBuf::from),
    };
    let (branch, precision, res) = (c.conf.branch, c.conf.precision, c.conf.resources());
    let outd2 = outd.clone();
    guarded(AssertUnwindSafe(move || {
        let (tera, conf) = grcov::html::get_config(cfg.as_deref(), branch, precision, true, res);
        grcov::html::gen_index(&tera, &global, &conf, &outd2);
    }))?;
    let mut files = BTreeMap::new();
    collect_html(&outd, &outd, &mut files);
    let _ = std::fs::remove_dir_all(&base);
    Ok(files)
}

/// a batch of `gen_index` cases: real pages, one model run, comparison; the first `full_upto`
/// cases carry the bytes
fn eval_gindexes(rep: &mut Report, root: &Path, cases: &[GCase], full_upto: usize) {
    let mut reqs: Vec<String> = vec![];
    let mut live: Vec<(usize, BTreeMap<String, Vec<u8>>, usize, bool)> = vec![]; // case, files, first request, has a parse request
    for (i, c) in cases.iter().enumerate() {
        if rep.verdict_clear() {
            break;
        }
        let files = match gindex_real(root, &format!("g{}", i), c) {
            Ok(f) => f,
            Err(p) => {
                rep.fail("oracle", None, format!("c03.htmlb.gindex: gen_index panicked: {}", p), gcase_json(c));
                continue;
            }
        };
        rep.count_n("htmlb.gindex.html_files", files.len() as u64);
        if c.stats.iter().chain(c.dirs.iter().flat_map(|d| d.stats.iter())).any(|x| *x > 1 << 53) {
            rep.count("htmlb.gindex.stat_above_2^53");
        }
        let at = reqs.len();
        reqs.push(gcase_request(if i < full_upto { "gindexfull" } else { "gindex" }, c));
        // the global index is replaced by the index of directory "" (or ".") when there is one
        let top_is_global = !c.dirs.iter().any(|d| Path::new(&d.name).components().all(|x| !matches!(x, std::path::Component::Normal(_))));
        let parse = top_is_global && files.contains_key("index.html");
        if parse {
            reqs.push(format!("c03.htmlb parseindex x{}", hex(&files["index.html"])));
        }
        live.push((i, files, at, parse));
    }
    if reqs.is_empty() {
        return;
    }
    let ans = run_model(&reqs, &rep.workdir, "htmlb.gindex");
    for (i, files, at, parse) in &live {
        let c = &cases[*i];
        let cj = gcase_json(c);
        let full = *i < full_upto;
        let mut diff = compare_listing(files, &ans[*at], full);
        if diff.is_some() && !full {
            let a2 = run_model(&[gcase_request("gindexfull", c)], &rep.workdir, "htmlb.gindexfull");
            diff = compare_listing(files, &a2[0], true).or(diff);
        }
        if let Some(d) = diff {
            rep.disagreements_checked += 1;
            rep.fail("disagreement", None, format!("c03.htmlb.gindex: the pages written by gen_index differ from HtmlBytes.indexWrites: {}", d), cj);
            continue;
        }
        if *parse {
            // the strict reader on the real global index: every figure is the one native f64 gives
            let rows: Vec<String> = c
                .dirs
                .iter()
                .map(|d| {
                    let url = match &d.prefix {
                        Some(pre) if !pre.is_empty() => format!("{}{}/index.html", pre, d.name),
                        _ => format!("./{}/index.html", d.name),
                    };
                    idx_row(&c.conf, &url, &d.name, &d.stats)
                })
                .collect();
            let view = format!(
                "ok T{};S{};C;U{};F{};D-;KDirectory;B{};R{}",
                hx("top_level"),
                hx(&bulma(&c.conf, ".")),
                hx("top_level"),
                figures(&c.conf, &c.stats),
                c.conf.branch as u8,
                rows.join(",")
            );
            rep.count("htmlb.gindex.global_index_read");
            if ans[*at + 1] != view {
                rep.fail("oracle", None, format!("c03.htmlb.gindex: the strict reader returns {:?} for the real global index; the statistics say {:?}", ans[*at + 1].chars().take(500).collect::<String>(), view.chars().take(500).collect::<String>()), cj);
            }
        }
    }
}

fn gindex_stream(rep: &mut Report, rng: &mut Rng, root: &Path) {
    let n = rep.budget(110, 10);
    let cases: Vec<GCase> = (0..n).map(|_| gen_gcase(rng)).collect();
    for c in &cases {
        rep.case(&gcase_json(c).to_string(), !c.dirs.is_empty());
        rep.count(&format!("htmlb.gindex.dirs={}", c.dirs.len()));
    }
    eval_gindexes(rep, root, &cases, 10);
}

// ---------------------------------------------------------------------------------------------
// the figures: dense index pages through the real templates, and the float model against native f64

/// a global index with 40 directory rows: 40 unrounded and 123 rounded figures per page, all
/// through the real `percent` / `round` / `severity`
fn gen_dense(rng: &mut Rng) -> GCase {
    let limits = if rng.chance(1, 2) { Some([rng.range(1, 100), rng.below(100), rng.range(1, 100), rng.below(100), rng.range(1, 100), rng.below(100)]) } else { None };
    let precision = match rng.below(6) { 0 => rng.range(5, 22) as usize, _ => rng.range(0, 4) as usize };
    let conf = Conf { branch: true, precision, bundled: false, no_date: true, limits, prefix: None };
    let dirs = (0..40).map(|k| GDir { name: format!("d{:02}", k), prefix: None, stats: gen_stats(rng), files: vec![] }).collect();
    GCase { conf, prefix: None, stats: gen_stats(rng), dirs }
}

fn fig_stream(rep: &mut Report, rng: &mut Rng, root: &Path) {
    let pages = rep.budget(24, 10);
    let cases: Vec<GCase> = (0..pages).map(|_| gen_dense(rng)).collect();
    for c in &cases {
        rep.case(&gcase_json(c).to_string(), true);
        rep.count_n("htmlb.fig.real_figures", 40 * 4 + 3);
        rep.count(&format!("htmlb.fig.precision={}", if c.conf.precision > 4 { "5..22".to_string() } else { c.conf.precision.to_string() }));
        // C13 on the figures: eval_gindexes demands that the strict reader's figures of the real page
        // are the ones native f64 arithmetic gives; those are judged here against the exact value
        for d in &c.dirs {
            for k in 0..3 {
                let (t, cv) = (d.stats[2 * k], d.stats[2 * k + 1]);
                if t != 0 && cv <= t && c.conf.precision <= 9 {
                    let exact = cv as f64 / t as f64 * 100.0;
                    let shown: f64 = rounded(c.conf.precision, pct(cv, t)).parse().unwrap_or(f64::NAN);
                    if !((shown - exact).abs() <= 0.5 * 10f64.powi(-(c.conf.precision as i32)) + 1e-9) || !(0.0..=100.0).contains(&shown) {
                        rep.fail("oracle", None, format!("c03.htmlb.fig: {} / {} at precision {} is shown as {}", cv, t, c.conf.precision, shown), gcase_json(c));
                    }
                }
            }
        }
    }
    eval_gindexes(rep, root, &cases, 0);
    // supplementary: the float model against native f64 arithmetic and `Display` (not the real code path)
    let n = rep.budget(3000, 10) as usize;
    let mut reqs = vec![];
    let mut want = vec![];
    for _ in 0..n {
        let (t, c) = gen_stat_pair(rng);
        let p = match rng.below(6) { 0 => rng.range(5, 22) as usize, _ => rng.range(0, 4) as usize };
        let (hi, med) = (rng.range(1, 100), rng.below(100));
        reqs.push(format!("c03.htmlb fig {} {} {} {} {}", c, t, p, hi, med));
        let r = pct(c, t);
        want.push(format!("{} {} {}", r, rounded(p, r), sev(hi, med, r)));
    }
    let ans = run_model(&reqs, &rep.workdir, "htmlb.fig");
    for i in 0..n {
        rep.count("htmlb.fig.native_compared");
        if ans[i] != want[i] {
            rep.disagreements_checked += 1;
            rep.fail("disagreement", None, format!("c03.htmlb.fig: native f64 gives {:?}, the float model {:?}", want[i], ans[i]), json!({"op": "c03.htmlb.fig", "request": reqs[i]}));
        }
    }
    rep.sample(json!({"request": reqs[0], "model": ans[0], "native": want[0]}));
}

// ---------------------------------------------------------------------------------------------

pub fn run(rep: &mut Report) {
    std::env::remove_var("BULMA_VERSION");
    let root = fixture_root(rep);
    let _ = std::fs::remove_dir_all(&root);
    std::fs::create_dir_all(&root).unwrap();
    // C03 and C18 both run this module: different streams
    let mut rng = Rng::new(rep.seed ^ TAG ^ fnv64(rep.prop.as_bytes()));
    let mut r1 = rng.fork();
    let mut r2 = rng.fork();
    let mut r3 = rng.fork();
    site_stream(rep, &mut r1, &root);
    gindex_stream(rep, &mut r2, &root);
    fig_stream(rep, &mut r3, &root);
    let _ = std::fs::remove_dir_all(&root);
    rep.rule.push_str(" | htmlb: site = 0-5 jobs over hostile directory / file names (metacharacters, template syntax, non-ASCII, control characters, `index`, no extension), sources of 0-10 lines with invalid UTF-8, CR LF, lone CR, NUL and metacharacters, counts incl. 2^63 and 2^64-1, lines beyond the source, --branch, --precision 0-9, --abs-link-prefix (6 shapes), bundled/cdn, date, configuration file with other limits; every .html file byte for byte against HtmlBytes.site (non-trivial = a hostile name or source byte, or >= 2 jobs); gindex = gen_index on arbitrary HtmlGlobalStats (statistics up to 2^64-1, covered > total, per-entry prefixes; non-trivial = at least one directory); fig = index pages with 40 rows of arbitrary statistics, precision 0-22, other limits");
    rep.notes.push("htmlbytes: every .html file written by output_html / gen_index is compared with the Lean model's bytes (HtmlBytes.site / indexWrites); figures through the bit-exact float model (HtmlF64); html.parser and the model's strict readers read the real pages back".into());
}

pub fn replay(rep: &mut Report, case: &Value) {
    std::env::remove_var("BULMA_VERSION");
    if case["op"].as_str() == Some("c03.htmlb.all") {
        // the three streams alone (development aid): ./check C03 --replay with {"op": "c03.htmlb.all"}
        return run(rep);
    }
    let root = fixture_root(rep);
    let _ = std::fs::remove_dir_all(&root);
    std::fs::create_dir_all(&root).unwrap();
    match case["op"].as_str().unwrap_or("") {
        "c03.htmlb.site" => {
            let c = SiteCase { conf: Conf::from_json(&case["conf"]), jobs: jobs_from_json(&case["jobs"]), twin: case["twin"].as_bool().unwrap_or(false) };
            rep.case(&case.to_string(), true);
            eval_sites(rep, &root, std::slice::from_ref(&c), &["replay".to_string()], 1);
        }
        "c03.htmlb.gindex" => {
            let c = gcase_from_json(case);
            rep.case(&case.to_string(), true);
            eval_gindexes(rep, &root, std::slice::from_ref(&c), 1);
        }
        "c03.htmlb.fig" => {
            let req = case["request"].as_str().unwrap_or("").to_string();
            let parts: Vec<u64> = req.split(' ').skip(2).filter_map(|x| x.parse().ok()).collect();
            if parts.len() == 5 {
                let r = pct(parts[0], parts[1]);
                let want = format!("{} {} {}", r, rounded(parts[2] as usize, r), sev(parts[3], parts[4], r));
                let ans = run_model(&[req.clone()], &rep.workdir, "htmlb.replay");
                rep.case(&req, true);
                if ans[0] != want {
                    rep.disagreements_checked += 1;
                    rep.fail("disagreement", None, format!("c03.htmlb.fig: native f64 gives {:?}, the float model {:?}", want, ans[0]), case.clone());
                }
            }
        }
        _ => rep.notes.push("htmlbytes: unknown op in replay case".into()),
    }
    let _ = std::fs::remove_dir_all(&root);
}
