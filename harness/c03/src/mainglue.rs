//! C03 / C11 part Main — the CLI glue of src/main.rs tied to the REAL BINARY.
//!
//! For generated command lines the hooked `grcov` binary is run on a small fixture (sources on
//! disk, two lcov tracefiles). The same command line, encoded abstractly, goes to the Lean model
//! (`main.plan`): usage error / panic with exit status / plan. A plan is then EXECUTED in-process
//! through the library — `producer` + `consumer`s with the plan's thread count, queue capacity
//! and consumer arguments, `rewrite_paths` and `FileFilter::new` with the plan's arguments in the
//! plan's positions, each writer the plan names with the plan's parameters and destination — and
//! the files (and standard output) of the two runs are compared byte for byte
//! (binary output = library(plan(options))). Independent oracles: every requested type has its own
//! report at the place the documentation promises (none lost or overwritten), several types with
//! a non-directory `-o` write nothing, sorted types list files by absolute path, no hang.
//!
//! Stream E puts the rest of the glue under the same comparison: directory and zip inputs, the
//! producer's `linked-files-map.json` against `--path-mapping`, a clang `--coverage` pair and a
//! GCC-format pair with `--llvm` on and off (the gcov tool is a recording stub named by `GCOV`),
//! `--guess-directory-when-missing`, profiles through recording stubs of llvm-profdata / llvm-cov
//! found through `--llvm-path`, through the sysroot that a stub `$RUSTC` answers, or not at all —
//! with the ENVIRONMENT variable `LLVM_PATH` naming a third stub directory that must never run —
//! with and without `--binary-path`, and the log target (file / not creatable / stdout / stderr)
//! seen through the error line of a rejected tracefile. The stubs that ran must be exactly the
//! ones the plan resolves.
use corrlib::pipe::grcov_bin;
use corrlib::*;
use grcov::*;
use serde_json::{json, Value};
use std::collections::BTreeMap;
use std::io::Read;
use std::path::{Path, PathBuf};
use std::process::{Command, Stdio};
use std::sync::{Arc, Mutex};
use std::time::{Duration, Instant};

const TYPES: [&str; 10] = ["ade", "lcov", "coveralls", "coveralls+", "files", "covdir", "html", "cobertura", "cobertura-pretty", "markdown"];

/// independent re-statement of the documented layout of an output directory
fn fixed_name(ty: &str) -> &'static str {
    match ty {
        "ade" => "activedata",
        "lcov" => "lcov",
        "coveralls" => "coveralls",
        "coveralls+" => "coveralls+",
        "files" => "files",
        "covdir" => "covdir",
        "html" => "html",
        "cobertura" | "cobertura-pretty" => "cobertura.xml",
        "markdown" => "markdown.md",
        _ => "?",
    }
}

#[derive(Clone, Debug, PartialEq)]
enum OutKind {
    None,
    NewFile,      // `-o outB`, nothing there
    Dir,          // `-o outB`, an existing directory
    ExistingFile, // `-o outB`, an existing regular file
}

#[derive(Clone, Debug)]
struct Case {
    types: Vec<Vec<String>>, // occurrences of -t, each a comma list
    t_spelling: u8,          // 0: -t, 1: --output-types, 2: --output-type
    sort: Vec<Vec<String>>,
    out: OutKind,
    o_spelling: u8, // 0: -o, 1: --output-path, 2: --output-file
    filter: Option<String>,
    s: Option<String>,
    p: Option<String>,
    ignore: Vec<String>,
    keep: Vec<String>,
    ine: bool,
    precision: Option<u64>,
    nodem: bool,
    excl: [Option<String>; 6],
    threads: Option<u64>,
    branch: bool,
    pm: Option<String>,
    token: Option<String>,
    sha: Option<String>,
    sname: Option<String>,
    snum: Option<String>,
    sjob: Option<String>,
    spr: Option<String>,
    sflag: Option<String>,
    parallel: bool,
    vcs: Option<String>,
    log: Option<String>,
    lvl: Option<String>,
    nodate: bool,
    cdn: bool,
    inputs: Vec<String>,
    // external tools
    llvm: bool,
    llvm_path: Option<String>,
    bin_path: Option<String>,
    guess: bool,
    /// environment of the run: "stub" = `RUSTC` names the stub rustc (its sysroot holds stub tools),
    /// "missing" = `RUSTC` names nothing runnable, None = environment untouched
    rustc: Option<String>,
    /// the decoy: environment variable `LLVM_PATH` names a third stub directory
    env_llvm: bool,
}

impl Default for Case {
    fn default() -> Self {
        Case {
            types: vec![], t_spelling: 0, sort: vec![], out: OutKind::None, o_spelling: 0, filter: None, s: None, p: None,
            ignore: vec![], keep: vec![], ine: false, precision: None, nodem: false, excl: Default::default(), threads: Some(2),
            branch: false, pm: None, token: None, sha: None, sname: None, snum: None, sjob: None, spr: None, sflag: None,
            parallel: false, vcs: None, log: None, lvl: None, nodate: true, cdn: false,
            inputs: vec!["in0.info".into(), "in1.info".into()],
            llvm: false, llvm_path: None, bin_path: None, guess: false, rustc: None, env_llvm: false,
        }
    }
}

const EXCL_FLAGS: [&str; 6] = ["--excl-line", "--excl-start", "--excl-stop", "--excl-br-line", "--excl-br-start", "--excl-br-stop"];
const EXCL_KEYS: [&str; 6] = ["el", "es", "ep", "bl", "bs", "bp"];

impl Case {
    fn flat_types(&self) -> Vec<String> {
        let f: Vec<String> = self.types.iter().flatten().cloned().collect();
        if f.is_empty() { vec!["lcov".into()] } else { f }
    }
    fn argv(&self) -> Vec<String> {
        let mut a: Vec<String> = self.inputs.clone();
        let tflag = ["-t", "--output-types", "--output-type"][self.t_spelling as usize % 3];
        for occ in &self.types {
            a.push(tflag.into());
            a.push(occ.join(","));
        }
        for occ in &self.sort {
            a.push("--sort-output-types".into());
            a.push(occ.join(","));
        }
        if self.out != OutKind::None {
            a.push(["-o", "--output-path", "--output-file"][self.o_spelling as usize % 3].into());
            a.push("outB".into());
        }
        let mut opt = |flag: &str, v: &Option<String>| {
            if let Some(v) = v {
                a.push(flag.into());
                a.push(v.clone());
            }
        };
        opt("--filter", &self.filter);
        opt("-s", &self.s);
        opt("-p", &self.p);
        opt("--path-mapping", &self.pm);
        opt("--token", &self.token);
        opt("--commit-sha", &self.sha);
        opt("--service-name", &self.sname);
        opt("--service-number", &self.snum);
        opt("--service-job-id", &self.sjob);
        opt("--service-pull-request", &self.spr);
        opt("--service-flag-name", &self.sflag);
        opt("--vcs-branch", &self.vcs);
        opt("--log", &self.log);
        opt("--log-level", &self.lvl);
        opt("--llvm-path", &self.llvm_path);
        opt("--binary-path", &self.bin_path);
        for k in 0..6 {
            opt(EXCL_FLAGS[k], &self.excl[k]);
        }
        for g in &self.ignore {
            a.push("--ignore".into());
            a.push(g.clone());
        }
        for g in &self.keep {
            a.push("--keep-only".into());
            a.push(g.clone());
        }
        if let Some(p) = self.precision {
            a.push("--precision".into());
            a.push(p.to_string());
        }
        if let Some(t) = self.threads {
            a.push("--threads".into());
            a.push(t.to_string());
        }
        for (on, flag) in [(self.ine, "--ignore-not-existing"), (self.nodem, "--no-demangle"), (self.branch, "--branch"),
                           (self.parallel, "--parallel"), (self.nodate, "--no-date"), (self.llvm, "--llvm"),
                           (self.guess, "--guess-directory-when-missing")] {
            if on {
                a.push(flag.into());
            }
        }
        if self.cdn {
            a.push("--html-resources".into());
            a.push("cdn".into());
        }
        a
    }
    /// the abstract encoding for the model; `fx` = the run's working directory
    fn request(&self, fx: &Path, cpus: usize) -> String {
        let h = |s: &str| hex(s.as_bytes());
        let mut t: Vec<String> = vec![format!("cpus={}", cpus)];
        if let Some(s) = &self.s {
            if let Ok(c) = std::fs::canonicalize(fx.join(s)) {
                t.push(format!("scanon={}", h(c.to_str().unwrap())));
            }
        }
        if self.out == OutKind::Dir {
            t.push("odir=1".into());
        }
        if let Some(pm) = &self.pm {
            let ok = std::fs::read(fx.join(pm)).ok().map(|b| serde_json::from_slice::<Value>(&b).is_ok()).unwrap_or(false);
            if ok {
                t.push("pmok=1".into());
            }
        }
        let occs = |v: &Vec<Vec<String>>| v.iter().map(|o| o.iter().map(|n| h(n)).collect::<Vec<_>>().join(",")).collect::<Vec<_>>().join(";");
        if !self.types.is_empty() {
            t.push(format!("t={}", occs(&self.types)));
        }
        if !self.sort.is_empty() {
            t.push(format!("sort={}", occs(&self.sort)));
        }
        if self.out != OutKind::None {
            t.push(format!("o={}", h("outB")));
        }
        let mut opt = |key: &str, v: &Option<String>| {
            if let Some(v) = v {
                t.push(format!("{}={}", key, h(v)));
            }
        };
        opt("f", &self.filter);
        opt("s", &self.s);
        opt("p", &self.p);
        opt("pm", &self.pm);
        opt("tok", &self.token);
        opt("sha", &self.sha);
        opt("sname", &self.sname);
        opt("snum", &self.snum);
        opt("sjob", &self.sjob);
        opt("spr", &self.spr);
        opt("sflag", &self.sflag);
        opt("vcs", &self.vcs);
        opt("log", &self.log);
        opt("lvl", &self.lvl);
        opt("llvmp", &self.llvm_path);
        opt("bin", &self.bin_path);
        for k in 0..6 {
            opt(EXCL_KEYS[k], &self.excl[k]);
        }
        if !self.inputs.is_empty() {
            t.push(format!("in={}", self.inputs.iter().map(|n| h(n)).collect::<Vec<_>>().join(",")));
        }
        if !self.ignore.is_empty() {
            t.push(format!("ign={}", self.ignore.iter().map(|n| h(n)).collect::<Vec<_>>().join(",")));
        }
        if !self.keep.is_empty() {
            t.push(format!("keep={}", self.keep.iter().map(|n| h(n)).collect::<Vec<_>>().join(",")));
        }
        if let Some(p) = self.precision {
            t.push(format!("prec={}", p));
        }
        if let Some(n) = self.threads {
            t.push(format!("th={}", n));
        }
        for (on, key) in [(self.ine, "ine"), (self.nodem, "nodem"), (self.branch, "br"), (self.parallel, "par"), (self.nodate, "nodate"),
                          (self.llvm, "llvm"), (self.guess, "guess")] {
            if on {
                t.push(format!("{}=1", key));
            }
        }
        if self.cdn {
            t.push("res=cdn".into());
        }
        // the world of the external tools, looked at by the harness itself
        if self.rustc.as_deref() == Some("stub") {
            t.push(format!("rustlib={}", h(rustlib_bin(fx).to_str().unwrap())));
        }
        if self.env_llvm {
            t.push(format!("envllvm={}", h(fx.join("toolsC").to_str().unwrap())));
        }
        if self.rustc.is_some() {
            t.push(format!("gcovenv={}", h(fx.join("stubs/gcov").to_str().unwrap())));
            let mut ex = vec![];
            let mut dirs: Vec<PathBuf> = vec![rustlib_bin(fx)];
            if let Some(d) = &self.llvm_path {
                dirs.push(PathBuf::from(d));
            }
            for d in dirs {
                for tool in ["llvm-profdata", "llvm-cov"] {
                    let p = fx.join(&d).join(tool);
                    if p.exists() {
                        // spelled as main joins it: the option value as given
                        ex.push(h(d.join(tool).to_str().unwrap()));
                    }
                }
            }
            if !ex.is_empty() {
                t.push(format!("exists={}", ex.join(",")));
            }
            let heads = gcno_headers(fx, &self.inputs);
            if !heads.is_empty() {
                t.push(format!("gcno={}", heads.iter().map(|b| hex(b)).collect::<Vec<_>>().join(",")));
            }
        }
        if let Some(l) = &self.log {
            if l != "stdout" && l != "stderr" && !fx.join(l).parent().map(|p| p.is_dir()).unwrap_or(false) {
                t.push("lognc=1".into());
            }
        }
        format!("main.plan {}", t.join(" "))
    }
    fn to_json(&self) -> Value {
        json!({"op": "main.plan", "argv": self.argv(), "out": format!("{:?}", self.out),
               "case": {"types": self.types, "t_spelling": self.t_spelling, "sort": self.sort, "out": format!("{:?}", self.out),
                        "o_spelling": self.o_spelling, "filter": self.filter, "s": self.s, "p": self.p, "ignore": self.ignore,
                        "keep": self.keep, "ine": self.ine, "precision": self.precision, "nodem": self.nodem, "excl": self.excl,
                        "threads": self.threads, "branch": self.branch, "pm": self.pm, "token": self.token, "sha": self.sha,
                        "sname": self.sname, "snum": self.snum, "sjob": self.sjob, "spr": self.spr, "sflag": self.sflag,
                        "parallel": self.parallel, "vcs": self.vcs, "log": self.log, "lvl": self.lvl, "nodate": self.nodate,
                        "cdn": self.cdn, "inputs": self.inputs, "llvm": self.llvm, "llvm_path": self.llvm_path,
                        "bin_path": self.bin_path, "guess": self.guess, "rustc": self.rustc, "env_llvm": self.env_llvm}})
    }
    fn from_json(v: &Value) -> Option<Case> {
        let c = &v["case"];
        let s = |k: &str| c[k].as_str().map(|x| x.to_string());
        let vs = |k: &str| -> Vec<String> { c[k].as_array().map(|a| a.iter().filter_map(|x| x.as_str().map(|s| s.to_string())).collect()).unwrap_or_default() };
        let vvs = |k: &str| -> Vec<Vec<String>> {
            c[k].as_array().map(|a| a.iter().map(|o| o.as_array().map(|b| b.iter().filter_map(|x| x.as_str().map(|s| s.to_string())).collect()).unwrap_or_default()).collect()).unwrap_or_default()
        };
        let b = |k: &str| c[k].as_bool().unwrap_or(false);
        let mut excl: [Option<String>; 6] = Default::default();
        for k in 0..6 {
            excl[k] = c["excl"][k].as_str().map(|x| x.to_string());
        }
        Some(Case {
            types: vvs("types"), t_spelling: c["t_spelling"].as_u64()? as u8, sort: vvs("sort"),
            out: match c["out"].as_str()? { "None" => OutKind::None, "NewFile" => OutKind::NewFile, "Dir" => OutKind::Dir, _ => OutKind::ExistingFile },
            o_spelling: c["o_spelling"].as_u64()? as u8, filter: s("filter"), s: s("s"), p: s("p"), ignore: vs("ignore"), keep: vs("keep"),
            ine: b("ine"), precision: c["precision"].as_u64(), nodem: b("nodem"), excl, threads: c["threads"].as_u64(), branch: b("branch"),
            pm: s("pm"), token: s("token"), sha: s("sha"), sname: s("sname"), snum: s("snum"), sjob: s("sjob"), spr: s("spr"), sflag: s("sflag"),
            parallel: b("parallel"), vcs: s("vcs"), log: s("log"), lvl: s("lvl"), nodate: b("nodate"), cdn: b("cdn"), inputs: vs("inputs"),
            llvm: b("llvm"), llvm_path: s("llvm_path"), bin_path: s("bin_path"), guess: b("guess"), rustc: s("rustc"), env_llvm: b("env_llvm"),
        })
    }
}

// ---- fixture -------------------------------------------------------------------------------

const SRC_FILES: [(&str, usize); 6] = [("src/alpha.c", 14), ("src/beta.c", 6), ("lib/gamma.rs", 9), ("delta.cpp", 5), ("lib/epsilon.c", 4), ("src/zeta.c", 7)];

/// sources with marker words on known lines of src/alpha.c (line 3 XL, 5 XS, 7 XP, 9 BL, 10 BS, 12 BP)
fn write_fixture(fx: &Path, rng: &mut Rng) {
    let _ = std::fs::remove_dir_all(fx);
    for (name, n) in SRC_FILES {
        let p = fx.join(name);
        std::fs::create_dir_all(p.parent().unwrap()).unwrap();
        let mut text = String::new();
        for l in 1..=n {
            let mark = if name == "src/alpha.c" {
                match l { 3 => " // XL", 5 => " // XS", 7 => " // XP", 9 => " // BL", 10 => " // BS", 12 => " // BP", _ => "" }
            } else {
                ""
            };
            text.push_str(&format!("int v{} = {};{}\n", l, l, mark));
        }
        std::fs::write(&p, text).unwrap();
    }
    std::fs::write(fx.join("map.json"), "{\"mapped/epsilon.c\": \"lib/epsilon.c\"}").unwrap();
    std::fs::write(fx.join("notjson.json"), "{ this is not json").unwrap();
    let abs_zeta = std::fs::canonicalize(fx).unwrap().join("src/zeta.c");
    // two tracefiles whose records overlap; delta.cpp is never hit; one key only resolves through
    // the mapping file; zeta is spelled absolute (prefix removal); no file is reachable under two keys
    // (two records for one file are C12's subject)
    for (k, name) in ["in0.info", "in1.info"].iter().enumerate() {
        let mut s = String::from("TN:\n");
        let keys: Vec<String> = if k == 0 {
            vec!["src/alpha.c".into(), "src/beta.c".into(), "delta.cpp".into(), "mapped/epsilon.c".into()]
        } else {
            vec!["src/alpha.c".into(), abs_zeta.to_str().unwrap().into(), "lib/gamma.rs".into(), "src/beta.c".into()]
        };
        for key in keys {
            let n = SRC_FILES.iter().find(|(f, _)| key.ends_with(f.rsplit('/').next().unwrap())).map(|x| x.1).unwrap_or(4);
            s.push_str(&format!("SF:{}\n", key));
            let dead = key == "delta.cpp";
            if key.contains("alpha") {
                s.push_str("FN:1,_ZN5alpha3fooEv\nFNDA:3,_ZN5alpha3fooEv\nFN:8,_ZN5alpha3barEi\nFNDA:0,_ZN5alpha3barEi\n");
            }
            if key.contains("gamma") {
                s.push_str("FN:2,_RNvCs1234_5gamma4main\nFNDA:1,_RNvCs1234_5gamma4main\n");
            }
            for l in 1..=n {
                if key.contains("alpha") || rng.chance(3, 4) {
                    let c = if dead { 0 } else if rng.chance(1, 3) { 0 } else { rng.range(1, 9) };
                    if key.contains("alpha") && (l == 4 || l == 9 || l == 11) {
                        s.push_str(&format!("BRDA:{},0,0,{}\nBRDA:{},0,1,{}\n", l, if c > 0 { "1" } else { "-" }, l, if rng.chance(1, 2) { "0" } else { "2" }));
                    }
                    s.push_str(&format!("DA:{},{}\n", l, c));
                }
            }
            s.push_str("end_of_record\n");
        }
        std::fs::write(fx.join(name), s).unwrap();
    }
}

// ---- fixture of the external tools ---------------------------------------------------------------

const STUB_HOST: &str = "x86_64-stub-linux-gnu";

fn rustlib_bin(fx: &Path) -> PathBuf {
    fx.join("sysroot/lib/rustlib").join(STUB_HOST).join("bin")
}

fn write_exec(path: &Path, text: &str) {
    std::fs::create_dir_all(path.parent().unwrap()).unwrap();
    std::fs::write(path, text).unwrap();
    use std::os::unix::fs::PermissionsExt;
    std::fs::set_permissions(path, std::fs::Permissions::from_mode(0o755)).unwrap();
}

/// stand-in for gcov: answers `--version` with 8.3.0 (one `.gcov` text file per notes file),
/// records how it was called, writes a fixed intermediate report into the working directory
const GCOV_STUB: &str = r#"#!/bin/sh
if [ "$1" = "--version" ]; then echo "gcov (GCC) 8.3.0"; exit 0; fi
gcno=""; flags=""
for a in "$@"; do case "$a" in -b|-c|-i) flags="$flags$a";; *) gcno="$a";; esac; done
echo "GCOV $0 $(basename "$gcno") $flags" >> "$TOOL_LOG"
printf 'file:gsrc/gprog.c\nfunction:1,1,gmain\nlcount:1,1\nlcount:2,0\nlcount:3,4\n' > "$(basename "$gcno").gcov"
"#;

const PROFDATA_STUB: &str = r#"#!/bin/sh
out=""; prev=""
for a in "$@"; do if [ "$prev" = "-o" ]; then out="$a"; fi; prev="$a"; done
n=0; while IFS= read -r line; do n=$((n+1)); done
echo "PROFDATA $0 $1 profiles=$n" >> "$TOOL_LOG"
echo merged > "$out"
"#;

const COV_STUB: &str = r#"#!/bin/sh
echo "COV $0 $1 $(basename "$2") $5 $6" >> "$TOOL_LOG"
cat "$(dirname "$0")/export.lcov"
"#;

fn write_tool_dir(dir: &Path, tag: u32, profdata: bool, cov: bool) {
    std::fs::create_dir_all(dir).unwrap();
    if profdata {
        write_exec(&dir.join("llvm-profdata"), PROFDATA_STUB);
    }
    if cov {
        write_exec(&dir.join("llvm-cov"), COV_STUB);
    }
    // what the llvm-cov of THIS directory exports: the counts name the directory
    std::fs::write(dir.join("export.lcov"), format!("SF:src/alpha.c\nFN:1,_ZN5alpha3fooEv\nFNDA:{t},_ZN5alpha3fooEv\nDA:1,{t}\nDA:2,0\nDA:13,{t}\nend_of_record\nSF:prof/only.c\nDA:1,{t}\nend_of_record\n", t = tag)).unwrap();
}

/// zip / directory inputs, a clang `--coverage` pair, a GCC-format pair, a profile, stub tools
fn write_tools_fixture(fx: &Path, rep: &mut Report) {
    // directory input with a linked-files-map.json of its own
    let info0 = std::fs::read(fx.join("in0.info")).unwrap();
    let info1 = std::fs::read(fx.join("in1.info")).unwrap();
    std::fs::create_dir_all(fx.join("indir/sub")).unwrap();
    std::fs::write(fx.join("indir/a.info"), &info0).unwrap();
    std::fs::write(fx.join("indir/sub/b.info"), &info1).unwrap();
    let producer_map = "{\"mapped/epsilon.c\": \"lib/epsilon.c\"}";
    std::fs::write(fx.join("indir/linked-files-map.json"), producer_map).unwrap();
    // the --path-mapping file says something else about the same key
    std::fs::write(fx.join("map2.json"), "{\"mapped/epsilon.c\": \"delta2/eps.c\", \"src/beta.c\": \"src/beta_renamed.c\"}").unwrap();
    // clang --coverage pair: the source is named by its bare file name (guess-directory matters)
    std::fs::create_dir_all(fx.join("csrc")).unwrap();
    std::fs::create_dir_all(fx.join("obj")).unwrap();
    std::fs::write(fx.join("csrc/prog.c"), "int sq(int x) { if (x > 2) return x * x; return x; }\nint main(void) {\n  int s = 0;\n  for (int i = 0; i < 5; i++) s += sq(i);\n  return s == 0;\n}\n").unwrap();
    let sh = |cmd: &str| Command::new("sh").arg("-c").arg(cmd).current_dir(fx.join("csrc")).env_remove("RUSTC").output().map(|o| o.status.success()).unwrap_or(false);
    let compiled = sh("clang-14 --coverage -c prog.c -o ../obj/prog.o 2>/dev/null && clang-14 --coverage ../obj/prog.o -o ../obj/prog 2>/dev/null && ../obj/prog; test -f ../obj/prog.gcda");
    if !compiled {
        rep.notes.push("part Main: clang-14 --coverage not usable; the LLVM pair is /repo/test/llvm/file.gcno".into());
        let _ = std::fs::copy("/repo/test/llvm/file.gcno", fx.join("obj/prog.gcno"));
        let _ = std::fs::copy("/repo/test/llvm/file.gcda", fx.join("obj/prog.gcda"));
    }
    let _ = std::fs::remove_file(fx.join("obj/prog.o"));
    // a binary for --binary-path: the compiled program, or anything with an ELF header
    std::fs::create_dir_all(fx.join("bins")).unwrap();
    if std::fs::rename(fx.join("obj/prog"), fx.join("bins/app")).is_err() {
        let mut elf = vec![0x7f, b'E', b'L', b'F', 2, 1, 1, 0];
        elf.resize(160, 0);
        std::fs::write(fx.join("bins/app"), elf).unwrap();
    }
    std::fs::write(fx.join("bins/readme.txt"), "not a binary\n").unwrap();
    // GCC-format pair (its header is not LLVM's): goes to the gcov tool unless --llvm
    std::fs::create_dir_all(fx.join("gobj")).unwrap();
    let _ = std::fs::copy("/repo/test/reader_gcc-7.gcno", fx.join("gobj/gprog.gcno"));
    let _ = std::fs::copy("/repo/test/reader_gcc-7.gcda", fx.join("gobj/gprog.gcda"));
    // a profile (the stubs never read it)
    std::fs::create_dir_all(fx.join("prof")).unwrap();
    std::fs::write(fx.join("prof/default.profraw"), b"stub profile").unwrap();
    // a tracefile the parser rejects (its error line shows where the log goes)
    std::fs::write(fx.join("bad.info"), "TN:\nSF:src/alpha.c\nDA:notanumber,1\nend_of_record\n").unwrap();
    // zip input: tracefiles, a mapping, and the clang pair
    {
        let f = std::fs::File::create(fx.join("in.zip")).unwrap();
        let mut z = zip::ZipWriter::new(f);
        let o = zip::write::SimpleFileOptions::default().compression_method(zip::CompressionMethod::Stored);
        use std::io::Write;
        for (name, bytes) in [("a.info", info0.clone()), ("sub/b.info", info1.clone()), ("linked-files-map.json", producer_map.as_bytes().to_vec()),
                              ("zobj/prog.gcno", std::fs::read(fx.join("obj/prog.gcno")).unwrap_or_default()),
                              ("zobj/prog.gcda", std::fs::read(fx.join("obj/prog.gcda")).unwrap_or_default())] {
            z.start_file(name, o).unwrap();
            z.write_all(&bytes).unwrap();
        }
        z.finish().unwrap();
    }
    // tools: A named by --llvm-path, B in the stub rustc's sysroot, C named by the environment
    // variable LLVM_PATH (never to be used), A2 empty, A3 without llvm-profdata
    write_tool_dir(&fx.join("toolsA"), 11, true, true);
    write_tool_dir(&rustlib_bin(fx), 22, true, true);
    write_tool_dir(&fx.join("toolsC"), 33, true, true);
    write_tool_dir(&fx.join("toolsA2"), 44, false, false);
    write_tool_dir(&fx.join("toolsA3"), 55, false, true);
    write_exec(&fx.join("stubs/gcov"), GCOV_STUB);
    write_exec(&fx.join("stubs/rustc"), &format!("#!/bin/sh\nif [ \"$1\" = \"--print\" ]; then echo \"{}\"; exit 0; fi\nprintf 'rustc 1.80.0 (051478957 2024-07-21)\\nbinary: rustc\\ncommit-hash: 051478957371ee0084a7c0913941d2a8c4757bb9\\ncommit-date: 2024-07-21\\nhost: {}\\nrelease: 1.80.0\\nLLVM version: 18.1.7\\n'\n",
        fx.join("sysroot").display(), STUB_HOST));
}

/// the first eight bytes of every notes file among the inputs (directories walked, zips listed)
fn gcno_headers(fx: &Path, inputs: &[String]) -> Vec<Vec<u8>> {
    let mut out = vec![];
    let mut head = |b: &[u8]| out.push(b.iter().take(8).cloned().collect::<Vec<u8>>());
    for i in inputs {
        let p = fx.join(i);
        if i.ends_with(".zip") {
            if let Ok(f) = std::fs::File::open(&p) {
                if let Ok(mut z) = zip::ZipArchive::new(f) {
                    for k in 0..z.len() {
                        let mut e = z.by_index(k).unwrap();
                        if e.name().ends_with(".gcno") {
                            let mut b = vec![];
                            let _ = e.read_to_end(&mut b);
                            head(&b);
                        }
                    }
                }
            }
        } else if p.is_dir() {
            let mut m = BTreeMap::new();
            walk(fx, &p, &mut m);
            for (k, v) in m {
                if k.ends_with(".gcno") {
                    head(&v);
                }
            }
        }
    }
    out
}

// ---- running the binary ----------------------------------------------------------------------

struct BinOut {
    exit: Option<i32>,
    stdout: Vec<u8>,
    stderr: String,
    stops: usize,
    consumers: usize,
    /// what the stub tools recorded, sorted
    tool_log: Vec<String>,
}

/// the environment a case asks for: (variable, value) — None = removed
fn tool_env(fx: &Path, c: &Case, tool_log: &Path) -> Vec<(&'static str, Option<String>)> {
    let mut e: Vec<(&'static str, Option<String>)> = vec![("TOOL_LOG", Some(tool_log.display().to_string()))];
    match c.rustc.as_deref() {
        Some("stub") => e.push(("RUSTC", Some(fx.join("stubs/rustc").display().to_string()))),
        Some(_) => e.push(("RUSTC", Some(fx.join("stubs/no-such-rustc").display().to_string()))),
        None => {}
    }
    if c.rustc.is_some() {
        e.push(("GCOV", Some(fx.join("stubs/gcov").display().to_string())));
    }
    e.push(("LLVM_PATH", if c.env_llvm { Some(fx.join("toolsC").display().to_string()) } else { None }));
    e
}

fn read_tool_log(p: &Path) -> Vec<String> {
    let mut v: Vec<String> = std::fs::read_to_string(p).unwrap_or_default().lines().map(|l| l.to_string()).collect();
    v.sort();
    let _ = std::fs::remove_file(p);
    v
}

fn run_bin(fx: &Path, c: &Case, argv: &[String], limit: Duration) -> BinOut {
    let log_path = fx.join("events.log");
    let _ = std::fs::remove_file(&log_path);
    let tool_log = fx.join("tools.bin.log");
    let _ = std::fs::remove_file(&tool_log);
    let mut cmd = Command::new(grcov_bin());
    for (k, v) in tool_env(fx, c, &tool_log) {
        match v {
            Some(v) => cmd.env(k, v),
            None => cmd.env_remove(k),
        };
    }
    let mut child = cmd
        .current_dir(fx)
        .args(argv)
        .env("GRCOV_VERIF_LOG", &log_path)
        .env_remove("GRCOV_VERIF_PERTURB")
        .env_remove("GRCOV_VERIF_FAULT")
        .stdin(Stdio::null())
        .stdout(Stdio::piped())
        .stderr(Stdio::piped())
        .spawn()
        .expect("cannot start the grcov binary");
    let mut so = child.stdout.take().unwrap();
    let mut se = child.stderr.take().unwrap();
    let h1 = std::thread::spawn(move || {
        let mut s = Vec::new();
        let _ = so.read_to_end(&mut s);
        s
    });
    let h2 = std::thread::spawn(move || {
        let mut s = Vec::new();
        let _ = se.read_to_end(&mut s);
        String::from_utf8_lossy(&s).to_string()
    });
    let t0 = Instant::now();
    let mut exit = None;
    loop {
        match child.try_wait() {
            Ok(Some(st)) => {
                exit = Some(st.code().unwrap_or(-1));
                break;
            }
            Ok(None) => {
                if t0.elapsed() > limit {
                    let _ = child.kill();
                    let _ = child.wait();
                    break;
                }
                std::thread::sleep(Duration::from_millis(1));
            }
            Err(_) => break,
        }
    }
    let stdout = h1.join().unwrap_or_default();
    let stderr = h2.join().unwrap_or_default();
    let mut stops = 0;
    let mut cons = std::collections::BTreeSet::new();
    if let Ok(text) = std::fs::read_to_string(&log_path) {
        for l in text.lines() {
            let p: Vec<&str> = l.splitn(4, ' ').collect();
            if p.len() == 4 {
                if p[2] == "main_stop" {
                    stops += 1;
                }
                if p[1].starts_with("Consumer_") {
                    cons.insert(p[1].to_string());
                }
            }
        }
    }
    let _ = std::fs::remove_file(&log_path);
    BinOut { exit, stdout, stderr, stops, consumers: cons.len(), tool_log: read_tool_log(&tool_log) }
}

// ---- output locations ------------------------------------------------------------------------

fn prep_out(fx: &Path, kind: &OutKind) {
    for n in ["outB", "html"] {
        let p = fx.join(n);
        let _ = std::fs::remove_dir_all(&p);
        let _ = std::fs::remove_file(&p);
    }
    match kind {
        OutKind::Dir => std::fs::create_dir_all(fx.join("outB")).unwrap(),
        OutKind::ExistingFile => std::fs::write(fx.join("outB"), b"previous content\n").unwrap(),
        _ => {}
    }
}

fn walk(base: &Path, p: &Path, out: &mut BTreeMap<String, Vec<u8>>) {
    if p.is_dir() {
        let mut any = false;
        if let Ok(rd) = std::fs::read_dir(p) {
            for e in rd.flatten() {
                any = true;
                walk(base, &e.path(), out);
            }
        }
        if !any {
            out.insert(format!("{}/", p.strip_prefix(base).unwrap().display()), vec![]);
        }
    } else if p.exists() {
        out.insert(p.strip_prefix(base).unwrap().display().to_string(), std::fs::read(p).unwrap_or_default());
    }
}

/// everything below `outB` and `html` (the writer's default directory), normalised
fn snapshot(fx: &Path) -> BTreeMap<String, Vec<u8>> {
    let mut m = BTreeMap::new();
    for n in ["outB", "html"] {
        walk(fx, &fx.join(n), &mut m);
    }
    m.into_iter().map(|(k, v)| { let nv = normalise(&k, v); (k, nv) }).collect()
}

fn normalise(name: &str, bytes: Vec<u8>) -> Vec<u8> {
    thread_local! {
        static TS: regex::bytes::Regex = regex::bytes::Regex::new("timestamp=\"[0-9]+\"").unwrap();
        static DATE: regex::bytes::Regex = regex::bytes::Regex::new("Date: [0-9]{4}-[0-9]{2}-[0-9]{2} [0-9]{2}:[0-9]{2}").unwrap();
        // coveralls: the digest of a source file that cannot be read is a fresh random UUID
        static UUID: regex::bytes::Regex = regex::bytes::Regex::new("\"source_digest\":\"[0-9a-f]{8}-[0-9a-f]{4}-[0-9a-f]{4}-[0-9a-f]{4}-[0-9a-f]{12}\"").unwrap();
    }
    if name.ends_with(".html") {
        DATE.with(|r| r.replace_all(&bytes, &b"Date: D"[..]).to_vec())
    } else {
        let b = TS.with(|r| r.replace_all(&bytes, &b"timestamp=\"T\""[..]).to_vec());
        UUID.with(|r| r.replace_all(&b, &b"\"source_digest\":\"U\""[..]).to_vec())
    }
}

// ---- the plan, parsed back from the model's answer --------------------------------------------

#[derive(Debug, Clone)]
struct POut {
    ty: String,
    dest: Option<String>,
    sorted: bool,
    writer: String,
    args: Vec<String>,
}

#[derive(Debug, Clone)]
struct PlanP {
    llvmpath: Option<String>,
    tools: Vec<String>, // profdata, cov: F:<hex> | N:<hex> | R
    gcov: String,
    routes: Vec<String>,
    log: String,
    th: usize,
    q: usize,
    pco: bool,
    llvm: bool,
    inputs: Vec<String>,
    map: String,
    cons: Vec<(usize, Option<String>, bool, bool, Option<String>)>,
    rw_src: Option<String>,
    rw_pre: Option<String>,
    rw_ine: bool,
    rw_ign: Vec<String>,
    rw_keep: Vec<String>,
    rw_filt: Option<bool>,
    ff: Vec<Option<String>>,
    outs: Vec<POut>,
}

fn unhex_s(s: &str) -> String {
    String::from_utf8_lossy(&unhex(s)).to_string()
}
fn opt_s(s: &str) -> Option<String> {
    if s == "-" { None } else { Some(unhex_s(s)) }
}
fn list_s(s: &str) -> Vec<String> {
    // <len>[a,b]
    let (n, rest) = s.split_once('[').unwrap_or(("0", "]"));
    let n: usize = n.parse().unwrap_or(0);
    let body = rest.trim_end_matches(']');
    if n == 0 { vec![] } else { body.split(',').map(unhex_s).collect() }
}

fn parse_plan(ans: &str) -> Option<PlanP> {
    let body = ans.strip_prefix("run ")?;
    let kv: BTreeMap<&str, &str> = body.split(' ').filter_map(|t| t.split_once('=')).collect();
    let rw: Vec<&str> = kv.get("rw")?.split('|').collect();
    let cons = kv.get("cons")?.split(';').filter(|c| !c.is_empty()).map(|c| {
        let f: Vec<&str> = c.split(':').collect();
        (f[0].parse().unwrap(), opt_s(f[1]), f[2] == "1", f[3] == "1", opt_s(f[4]))
    }).collect();
    let outs = kv.get("out")?.split(';').filter(|c| !c.is_empty()).map(|o| {
        let f: Vec<&str> = o.split('@').collect();
        let (w, a) = f[3].split_once('(').unwrap();
        let a = a.trim_end_matches(')');
        POut { ty: f[0].to_string(), dest: opt_s(f[1]), sorted: f[2] == "S", writer: w.to_string(),
               args: if a.is_empty() { vec![] } else { a.split(',').map(|x| x.to_string()).collect() } }
    }).collect();
    Some(PlanP {
        llvmpath: opt_s(kv.get("llvmpath")?),
        tools: kv.get("tools")?.split(',').map(|x| x.to_string()).collect(),
        gcov: unhex_s(kv.get("gcov")?),
        routes: kv.get("routes")?.split(',').filter(|x| !x.is_empty()).map(|x| x.to_string()).collect(),
        log: kv.get("log")?.to_string(),
        th: kv.get("th")?.parse().ok()?,
        q: kv.get("q")?.parse().ok()?,
        pco: *kv.get("pco")? == "1",
        llvm: *kv.get("llvm")? == "1",
        inputs: list_s(kv.get("in")?),
        map: kv.get("map")?.to_string(),
        cons,
        rw_src: opt_s(rw[0]),
        rw_pre: opt_s(rw[1]),
        rw_ine: rw[2] == "1",
        rw_ign: list_s(rw[3]),
        rw_keep: list_s(rw[4]),
        rw_filt: match rw[5] { "1" => Some(true), "0" => Some(false), _ => None },
        ff: kv.get("ff")?.split(',').map(opt_s).collect(),
        outs,
    })
}

/// producer + consumers + rewrite_paths exactly as the plan says (cwd = fixture)
fn lib_pipeline(plan: &PlanP, tmp: &Path) -> Result<Vec<ResultTuple>, String> {
    let _ = std::fs::remove_dir_all(tmp);
    std::fs::create_dir_all(tmp).map_err(|e| e.to_string())?;
    let result_map: Arc<SyncCovResultMap> = Arc::new(Mutex::new(fxmap()));
    let (sender, receiver) = crossbeam_channel::bounded(plan.q);
    let prod = {
        let sender: JobSender = sender.clone();
        let tmp = tmp.to_path_buf();
        let paths = plan.inputs.clone();
        let (pco, llvm) = (plan.pco, plan.llvm);
        std::thread::spawn(move || producer(&tmp, &paths, &sender, pco, llvm))
    };
    let mut workers = vec![];
    for (i, sr, br, guess, bin) in plan.cons.iter().cloned() {
        let receiver: JobReceiver = receiver.clone();
        let result_map = Arc::clone(&result_map);
        let wd = tmp.join(format!("{}", i));
        workers.push(std::thread::spawn(move || {
            std::fs::create_dir(&wd).expect("working dir");
            consumer(&wd, sr.as_deref().map(Path::new), &result_map, receiver, br, guess, bin.as_deref().map(Path::new));
        }));
    }
    drop(receiver);
    let pm_buf = prod.join().map_err(|_| "producer panicked".to_string())?;
    for _ in 0..plan.cons.len() {
        if sender.send(None).is_err() {
            break;
        }
    }
    for w in workers {
        w.join().map_err(|_| "consumer panicked".to_string())?;
    }
    let map = Arc::try_unwrap(result_map).map_err(|_| "map still shared")?.into_inner().map_err(|_| "poisoned")?;
    let mapping: Option<Value> = if let Some(p) = plan.map.strip_prefix("file:") {
        let f = std::fs::File::open(unhex_s(p)).map_err(|e| e.to_string())?;
        Some(serde_json::from_reader(f).map_err(|e| e.to_string())?)
    } else {
        match pm_buf {
            Some(b) => Some(serde_json::from_slice(&b).map_err(|e| e.to_string())?),
            None => None,
        }
    };
    let rx = |k: usize| plan.ff[k].as_ref().map(|s| regex::Regex::new(s).unwrap());
    let ff = FileFilter::new(rx(0), rx(1), rx(2), rx(3), rx(4), rx(5));
    let plan = plan.clone();
    guarded(move || {
        rewrite_paths(map, mapping, plan.rw_src.as_deref().map(Path::new), plan.rw_pre.as_deref().map(Path::new), plan.rw_ine,
            &plan.rw_ign, &plan.rw_keep, plan.rw_filt, ff)
    })
}

fn call_writer(o: &POut, results: &[ResultTuple], dest: Option<&Path>) -> Result<(), String> {
    let a = &o.args;
    let b = |k: usize| a[k] == "1";
    let os = |k: usize| opt_s(&a[k]);
    let results = results.to_vec();
    let dest = dest.map(|p| p.to_path_buf());
    let o = o.clone();
    guarded(move || {
        let a = &o.args;
        let dest = dest.as_deref();
        match o.writer.as_str() {
            "ade" => output_activedata_etl(&results, dest, b(0)),
            "lcov" => output_lcov(&results, dest, b(0)),
            "coveralls" => output_coveralls(&results, os(0).as_deref(), os(1).as_deref(), &unhex_s(&a[2]), os(3).as_deref(), &unhex_s(&a[4]),
                os(5).as_deref(), &unhex_s(&a[6]), b(7), dest, &unhex_s(&a[8]), b(9), b(10)),
            "files" => output_files(&results, dest),
            "covdir" => output_covdir(&results, dest, a[0].parse().unwrap()),
            "html" => output_html(&results, dest, a[0].parse().unwrap(), b(1), os(2).as_deref().map(Path::new), a[3].parse().unwrap(), &os(4), b(5),
                if a[6] == "cdn" { grcov::html::HtmlResources::Cdn } else { grcov::html::HtmlResources::Bundled }),
            "cobertura" => output_cobertura(os(0).as_deref().map(Path::new), &results, dest, b(1), b(2)),
            "markdown" => output_markdown(&results, dest, a[0].parse().unwrap()),
            w => panic!("unknown writer {}", w),
        }
    })
}

/// the order in which a report lists the files: position of the first occurrence of each name
fn order_in(text: &[u8], rels: &[String]) -> Option<Vec<usize>> {
    // a name counts only as a whole path: not as the tail or the head of a longer one
    let pathc = |b: u8| b.is_ascii_alphanumeric() || matches!(b, b'_' | b'.' | b'/' | b'-');
    let find = |needle: &[u8]| {
        (0..text.len().saturating_sub(needle.len()) + 1).find(|&i| {
            text[i..].starts_with(needle) && (i == 0 || !pathc(text[i - 1])) && text.get(i + needle.len()).map(|b| !pathc(*b)).unwrap_or(true)
        })
    };
    let mut pos: Vec<(usize, usize)> = vec![];
    for (i, r) in rels.iter().enumerate() {
        pos.push((find(r.as_bytes())?, i));
    }
    pos.sort();
    Some(pos.into_iter().map(|p| p.1).collect())
}

fn reveals_order(ty: &str) -> bool {
    matches!(ty, "ade" | "lcov" | "coveralls" | "coveralls+" | "files" | "markdown" | "cobertura" | "cobertura-pretty")
}

struct Ctx {
    fx: PathBuf,
    cpus: usize,
    sort_reqs: Vec<String>,
    sort_want: Vec<(String, Value)>,
}

/// one command line: binary, model, library, oracles
fn one_case(rep: &mut Report, cx: &mut Ctx, c: &Case, ans: &str) {
    let fx = cx.fx.clone();
    let argv = c.argv();
    let cj = c.to_json();
    let flat = c.flat_types();
    let multi = flat.len() > 1;
    prep_out(&fx, &c.out);
    if let Some(l) = &c.log {
        let _ = std::fs::remove_file(fx.join(l));
    }
    let mut bin = run_bin(&fx, c, &argv, Duration::from_secs(20));
    let mut logged_on_stdout = String::new();
    if c.log.as_deref() == Some("stdout") {
        // `--log stdout`: log lines (`hh:mm:ss [LEVEL] …`) share the stream with the reports
        let text = std::mem::take(&mut bin.stdout);
        for l in text.split_inclusive(|b| *b == b'\n') {
            let is_log = ["[ERROR]", "[WARN]", "[INFO]"].iter().any(|m| l.windows(m.len()).any(|w| w == m.as_bytes()));
            if is_log { logged_on_stdout.push_str(&String::from_utf8_lossy(l)); } else { bin.stdout.extend_from_slice(l); }
        }
    }
    let bin = bin;
    let got = snapshot(&fx);
    let log_created = c.log.as_ref().map(|l| fx.join(l).is_file());
    let canon = argv.join(" ");
    let nontrivial = multi || !c.sort.is_empty() || c.filter.is_some() || c.p.is_some() || !c.ignore.is_empty() || !c.keep.is_empty()
        || c.excl.iter().any(|e| e.is_some()) || c.rustc.is_some();
    rep.case(&canon, nontrivial);
    rep.count(&format!("main.outcome.{}", ans.split(' ').take(2).collect::<Vec<_>>().join("_").replace("run_log=stderr", "run").replace("run_log=stdout", "run")));
    rep.count(&format!("main.out_kind.{:?}", c.out));
    rep.count(&format!("main.types={}", flat.len().min(4)));
    // ---- oracles that need no model --------------------------------------------------------
    if bin.exit.is_none() {
        let finding = if c.threads == Some(0) { Some("C07-main-threads-zero-hang") } else { None };
        rep.fail("oracle", finding, format!("grcov {} did not terminate within 20 s", canon), cj.clone());
        return;
    }
    let names_valid = c.types.iter().flatten().all(|t| TYPES.contains(&t.as_str())) && c.sort.iter().flatten().all(|t| TYPES.contains(&t.as_str()));
    if bin.exit == Some(0) && names_valid {
        // every requested type has its own report where the documentation says
        let mut wanted: BTreeMap<String, Vec<String>> = BTreeMap::new();
        for t in &flat {
            let place = match c.out {
                OutKind::None => if t == "html" { "html/".to_string() } else { "<stdout>".to_string() },
                OutKind::Dir => format!("outB/{}", fixed_name(t)),
                _ => "outB".to_string(),
            };
            let e = wanted.entry(place).or_default();
            if !e.contains(t) {
                e.push(t.clone());
            }
        }
        for (place, tys) in &wanted {
            if place == "<stdout>" && tys.len() > 1 {
                // matcher of C03-main-several-types-one-stdout: no -o, two or more different non-html types,
                // exit status 0: the reports are concatenated on one stream (second review, item 36)
                rep.count("main.several_types_on_stdout");
                if !rep.findings_seen.contains("C03-main-several-types-one-stdout") {
                    rep.fail("oracle", Some("C03-main-several-types-one-stdout"),
                        format!("{} different report types were requested ({}) without -o: they are written back to back to standard output ({} bytes), where no reader can take the stream for any one of them; the run exits 0", tys.len(), tys.join(", "), bin.stdout.len()),
                        cj.clone());
                }
            }
            if place != "<stdout>" && tys.len() > 1 {
                let pair = tys.iter().all(|t| t.starts_with("cobertura"));
                rep.fail("oracle", if pair { Some("C03-main-cobertura-pair-same-file") } else { None },
                    format!("{} different report types were requested ({}) but they are all written to {}: only the last one survives, the run still exits 0", tys.len(), tys.join(", "), place),
                    cj.clone());
            }
            if place != "<stdout>" {
                let present = got.keys().any(|k| k == place || k.starts_with(&format!("{}/", place.trim_end_matches('/'))));
                if !present {
                    rep.fail("oracle", None, format!("exit status 0 but no report at {} for {}", place, tys.join(",")), cj.clone());
                }
            }
        }
        if multi && matches!(c.out, OutKind::NewFile | OutKind::ExistingFile) {
            rep.fail("oracle", None, "several output types with an output path that is not a directory: exit status 0".into(), cj.clone());
        }
    }
    if multi && names_valid && matches!(c.out, OutKind::NewFile | OutKind::ExistingFile) && bin.exit != Some(2) {
        let untouched = match c.out {
            OutKind::NewFile => got.is_empty(),
            _ => got.len() == 1 && got.get("outB").map(|b| b == b"previous content\n").unwrap_or(false),
        };
        if !untouched || !bin.stdout.is_empty() {
            rep.fail("oracle", None, "several output types with a non-directory output path: a partial set of reports was written".into(), cj.clone());
        }
    }
    // ---- the model's verdict ---------------------------------------------------------------
    let mismatch = |rep: &mut Report, what: String| {
        rep.disagreements_checked += 1;
        rep.fail("disagreement", None, what, json!({"op": "main.plan", "argv": argv, "case": cj["case"], "model": ans,
            "exit": bin.exit, "stderr": bin.stderr.chars().take(400).collect::<String>()}));
    };
    if let Some(kind) = ans.strip_prefix("usage ") {
        let pat = match kind {
            "invalidOutputType" => "is not a supported output type",
            "invalidFilter" | "invalidLogLevel" => "invalid value",
            "coverallsAuthMissing" | "serviceNameMissing" | "noPaths" => "required arguments were not provided",
            "emptyPath" => "a value is required for",
            _ => "error:",
        };
        if bin.exit != Some(2) || !bin.stderr.contains(pat) || !bin.stdout.is_empty() {
            mismatch(rep, format!("model: usage error {} (exit 2, message containing {:?}); binary: exit {:?}", kind, pat, bin.exit));
        }
        return;
    }
    if let Some(rest) = ans.strip_prefix("panic ") {
        let f: Vec<&str> = rest.split(' ').collect();
        let code: i32 = f[1].parse().unwrap_or(-1);
        let pat = match f[0] {
            "sourceDirMissing" => "Source directory does not exist",
            "outputNotDir" => "output_path must be a directory when using multiple outputs",
            "noWorker" => "SendError",
            // the mapping file cannot be opened / parsed: an `unwrap()` in main.rs, reported by the panic
            // hook as "A panic occurred at src/main.rs:<line>: called `Result::unwrap()` …" – matched by
            // its message, not by its line (a harmless edit of main.rs moves the line)
            "mappingFile" => "called `Result::unwrap()` on an `Err` value",
            _ => "panic",
        };
        let log_text = c.log.as_ref().and_then(|l| std::fs::read_to_string(fx.join(l)).ok()).unwrap_or_default();
        let contains = |t: &str| t.contains(pat) && (f[0] != "mappingFile" || t.contains("A panic occurred at src/main.rs:"));
        let said = contains(&bin.stderr) || contains(&log_text) || contains(&logged_on_stdout) || c.lvl.as_deref() == Some("OFF");
        let reports: Vec<&String> = got.keys().filter(|k| !(c.out == OutKind::ExistingFile && *k == "outB") && !(c.out == OutKind::Dir && *k == "outB/")).collect();
        if bin.exit != Some(code) || !said || !reports.is_empty() || !bin.stdout.is_empty() {
            mismatch(rep, format!("model: panic {} with exit status {} and no report; binary: exit {:?}, message found: {}, files written: {:?}, {} bytes on stdout",
                f[0], code, bin.exit, said, reports, bin.stdout.len()));
        }
        return;
    }
    let Some(plan) = parse_plan(ans) else {
        mismatch(rep, format!("unexpected model answer {}", ans));
        return;
    };
    if bin.exit != Some(0) {
        mismatch(rep, format!("model: a plan; binary: exit {:?}", bin.exit));
        return;
    }
    // thread count: one stop marker and one consumer thread per planned worker
    rep.count(&format!("main.threads={}", if plan.th > 8 { ">8".to_string() } else { plan.th.to_string() }));
    if bin.stops != plan.th || bin.consumers != plan.th || plan.q != 2 * plan.th || plan.cons.len() != plan.th {
        mismatch(rep, format!("thread count: plan {} workers, queue {}; the binary sent {} stop markers to {} consumer threads", plan.th, plan.q, bin.stops, bin.consumers));
    }
    if let Some(created) = log_created {
        if created != plan.log.starts_with("file:") && c.log.as_deref() != Some("stdout") && c.log.as_deref() != Some("stderr") {
            mismatch(rep, format!("log target: plan {}, log file created by the binary: {}", plan.log, created));
        }
    }
    // ---- external tools: the stubs that ran are the ones the plan resolves ------------------------
    let has_profiles = c.inputs.iter().any(|i| i.ends_with(".profraw") || i == "prof");
    let plan_bin = plan.cons.first().and_then(|x| x.4.clone());
    let mut lib_plan = plan.clone();
    let mut lib_runs_tools = true;
    if c.rustc.is_some() {
        let flags = if plan.cons.first().map(|x| x.2).unwrap_or(false) { "-b-c-i" } else { "-i" };
        let mut want: Vec<String> = plan.routes.iter().filter(|r| *r == "G").map(|_| format!("GCOV {} {}", plan.gcov, flags)).collect();
        let found = |t: &str| t.strip_prefix("F:").map(unhex_s);
        if has_profiles && plan_bin.is_some() {
            if let Some(p) = found(&plan.tools[0]) {
                want.push(format!("PROFDATA {} merge profiles=1", p));
                if let Some(q) = found(&plan.tools[1]) {
                    want.push(format!("COV {} export app --format lcov", q));
                }
            }
        }
        want.sort();
        // (the name of the notes file is the producer's business, not the plan's)
        let mut seen: Vec<String> = bin.tool_log.iter().map(|l| {
            let f: Vec<&str> = l.split(' ').collect();
            if f[0] == "GCOV" && f.len() >= 4 { format!("GCOV {} {}", f[1], f[3]) } else { l.clone() }
        }).collect();
        seen.sort();
        rep.count(&format!("main.tools.routes={}", plan.routes.join("")));
        rep.count(&format!("main.tools.profdata={}", &plan.tools[0][..1]));
        if seen != want {
            mismatch(rep, format!("external tools: the plan resolves {:?} (routes {:?}, tools {:?}); the stubs that ran: {:?}", want, plan.routes, plan.tools, seen));
        }
        if has_profiles {
            let (pat, what) = if plan_bin.is_none() { ("The path to the compiled binary must be given", "no --binary-path") }
                else if plan.tools[0].starts_with("N:") { ("We couldn't find llvm-profdata", "llvm-profdata not at the planned place") }
                else if plan.tools[0] == "R" { ("Error while executing llvm tools", "rustc cannot be asked for the sysroot") }
                else if plan.tools[1].starts_with("N:") { ("We couldn't find llvm-cov", "llvm-cov not at the planned place") }
                else { ("", "") };
            if !pat.is_empty() {
                rep.count("main.tools.profile_item_skipped");
                if !bin.stderr.contains(pat) {
                    mismatch(rep, format!("{}: the plan says the profile item is skipped with an error line containing {:?}; stderr: {:?}", what, pat, bin.stderr.chars().take(300).collect::<String>()));
                }
                // nothing for the library to run: the item contributes nothing
                lib_plan.inputs.retain(|i| !(i.ends_with(".profraw") || i == "prof"));
            } else {
                // the static LLVM_PATH of the library can be set once per process
                match (&plan.llvmpath, grcov::LLVM_PATH.get()) {
                    (None, None) => {}
                    (Some(p), None) => { let _ = grcov::LLVM_PATH.set(PathBuf::from(p)); }
                    (Some(p), Some(q)) if q == Path::new(p) => {}
                    _ => lib_runs_tools = false,
                }
            }
        }
        let lib_log = fx.join("tools.lib.log");
        for (k, v) in tool_env(&fx, c, &lib_log) {
            match v {
                Some(v) => std::env::set_var(k, v),
                None => std::env::remove_var(k),
            }
        }
    }
    // ---- where the log lines go: the error line of the rejected tracefile --------------------------
    if c.inputs.iter().any(|i| i == "bad.info") && c.lvl.as_deref() != Some("OFF") {
        let pat = "Error parsing file";
        let file_text = c.log.as_ref().and_then(|l| std::fs::read_to_string(fx.join(l)).ok()).unwrap_or_default();
        let at = (bin.stderr.contains(pat), logged_on_stdout.contains(pat), file_text.contains(pat));
        let want = if plan.log == "stderr" || plan.log.starts_with("fallback:") { (true, false, false) }
            else if plan.log == "stdout" { (false, true, false) } else { (false, false, true) };
        rep.count(&format!("main.log.{}", plan.log.split(':').next().unwrap()));
        if at != want || (plan.log.starts_with("fallback:") != bin.stderr.contains("Unable to create log file")) {
            mismatch(rep, format!("log target {}: the error line of the rejected input is on (stderr, stdout, file) = {:?}, planned {:?}; stderr: {:?}", plan.log, at, want, bin.stderr.chars().take(300).collect::<String>()));
        }
    }
    if !lib_runs_tools {
        rep.count("main.tools.library_side_skipped_static_llvm_path_already_set");
        return;
    }
    // ---- execute the plan through the library ------------------------------------------------
    let tmp = fx.join("_libtmp");
    let results = match lib_pipeline(&lib_plan, &tmp) {
        Ok(r) => r,
        Err(e) => {
            mismatch(rep, format!("the binary exits 0 but the planned library calls fail: {}", e));
            return;
        }
    };
    let _ = std::fs::remove_dir_all(&tmp);
    let rels: Vec<String> = results.iter().map(|r| r.1.display().to_string()).collect();
    let mut sorted = results.clone();
    sorted.sort_by_key(|r| r.0.display().to_string());
    // the binary's unsorted order, read off its first unsorted order-revealing report
    let stdout_only = c.out == OutKind::None;
    let text_of = |o: &POut| -> Option<Vec<u8>> {
        match &o.dest {
            None => if o.ty == "html" { None } else { Some(bin.stdout.clone()) },
            Some(d) => got.get(d).cloned(),
        }
    };
    let mut unsorted = results.clone();
    // (a report that a later one overwrites does not show ITS order)
    let survives = |k: usize| plan.outs[k].dest.is_none() || !plan.outs[k + 1..].iter().any(|x| x.dest == plan.outs[k].dest);
    if let Some(o) = plan.outs.iter().enumerate().find(|(k, o)| !o.sorted && reveals_order(&o.ty) && survives(*k)).map(|x| x.1) {
        let single_stdout = !stdout_only || plan.outs.iter().filter(|x| x.ty != "html").count() == 1;
        if single_stdout {
            if let Some(ord) = text_of(o).and_then(|t| order_in(&t, &rels)) {
                unsorted = ord.iter().map(|&i| results[i].clone()).collect();
            }
        }
    }
    // independent oracle: a sorted report lists the files by absolute path
    for o in plan.outs.iter().enumerate().filter(|(k, o)| o.sorted && reveals_order(&o.ty) && survives(*k)).map(|x| x.1) {
        let alone = !stdout_only || plan.outs.iter().filter(|x| x.ty != "html").count() == 1;
        if !alone || rels.len() < 2 {
            continue;
        }
        if let Some(ord) = text_of(o).and_then(|t| order_in(&t, &rels)) {
            let keys: Vec<String> = ord.iter().map(|&i| results[i].0.display().to_string()).collect();
            rep.count("main.sorted_report_checked");
            if keys.windows(2).any(|w| w[0] > w[1]) {
                rep.fail("oracle", None, format!("{} is named in --sort-output-types but its files are not in the order of their absolute paths: {:?}", o.ty, keys), cj.clone());
            }
            // tie of the model's order: the model sorts the library's unsorted list
            if cx.sort_reqs.len() < 400 {
                cx.sort_reqs.push(format!("main.sort {}", unsorted.iter().map(|r| hex(r.0.display().to_string().as_bytes())).collect::<Vec<_>>().join(",")));
                let want: Vec<String> = keys.clone();
                cx.sort_want.push((unsorted.iter().map(|r| r.0.display().to_string()).collect::<Vec<_>>().join("\n") + "\n--\n" + &want.join("\n"), cj.clone()));
            }
        }
    }
    prep_out(&fx, &c.out);
    let mut lib_stdout: Vec<u8> = vec![];
    for (k, o) in plan.outs.iter().enumerate() {
        let list = if o.sorted { &sorted } else { &unsorted };
        let r = match &o.dest {
            Some(d) => call_writer(o, list, Some(Path::new(d))),
            None if o.ty == "html" => call_writer(o, list, None),
            None => {
                let f = fx.join(format!("_stdout{}", k));
                let r = call_writer(o, list, Some(&f));
                lib_stdout.extend(std::fs::read(&f).unwrap_or_default());
                let _ = std::fs::remove_file(&f);
                r
            }
        };
        if let Err(e) = r {
            mismatch(rep, format!("the binary exits 0 but the planned call of the {} writer panics: {}", o.ty, e));
            return;
        }
    }
    let want = snapshot(&fx);
    prep_out(&fx, &OutKind::None);
    let norm_out = |b: &[u8]| normalise("", b.to_vec());
    if got.keys().collect::<Vec<_>>() != want.keys().collect::<Vec<_>>() {
        let only_bin: Vec<&String> = got.keys().filter(|k| !want.contains_key(*k)).take(6).collect();
        let only_lib: Vec<&String> = want.keys().filter(|k| !got.contains_key(*k)).take(6).collect();
        mismatch(rep, format!("files written: only by the binary {:?}, only by the planned library calls {:?}", only_bin, only_lib));
        return;
    }
    for (k, v) in &got {
        if want[k] != *v {
            let w = &want[k];
            let at = v.iter().zip(w.iter()).position(|(a, b)| a != b).unwrap_or(v.len().min(w.len()));
            let lo = at.saturating_sub(60);
            mismatch(rep, format!("{} differs at byte {}: binary …{:?}… planned library call …{:?}…", k, at,
                String::from_utf8_lossy(&v[lo..(at + 60).min(v.len())]), String::from_utf8_lossy(&w[lo..(at + 60).min(w.len())])));
            return;
        }
    }
    let (bs, ls) = (norm_out(&bin.stdout), norm_out(&lib_stdout));
    let multi_stdout_unsorted = stdout_only && plan.outs.iter().filter(|x| x.ty != "html").count() > 1 && plan.outs.iter().any(|o| !o.sorted && reveals_order(&o.ty));
    if bs != ls && !(multi_stdout_unsorted && bs.len() == ls.len()) {
        let at = bs.iter().zip(ls.iter()).position(|(a, b)| a != b).unwrap_or(bs.len().min(ls.len()));
        let lo = at.saturating_sub(60);
        mismatch(rep, format!("standard output differs at byte {}: binary …{:?}… planned library calls …{:?}…", at,
            String::from_utf8_lossy(&bs[lo..(at + 60).min(bs.len())]), String::from_utf8_lossy(&ls[lo..(at + 60).min(ls.len())])));
    }
    if multi_stdout_unsorted {
        rep.count("main.stdout_several_unsorted_types_compared_by_length");
    }
}

// ---- generation -----------------------------------------------------------------------------

fn with_auth(c: &mut Case, rng: &mut Rng) {
    if c.flat_types().iter().any(|t| t.starts_with("coveralls")) {
        if rng.chance(2, 3) {
            c.token = Some("TOK".into());
        } else {
            c.sjob = Some("77".into());
            c.sname = Some("svc".into());
        }
        if rng.chance(1, 2) { c.sha = Some("abc123".into()); }
        if rng.chance(1, 3) { c.snum = Some("5".into()); }
        if rng.chance(1, 3) { c.spr = Some("12".into()); }
        if rng.chance(1, 3) { c.sflag = Some("flag".into()); }
        if rng.chance(1, 3) { c.vcs = Some("trunk".into()); }
        c.parallel = rng.chance(1, 3);
    }
}

fn split_occurrences(rng: &mut Rng, flat: Vec<String>) -> Vec<Vec<String>> {
    match rng.below(3) {
        0 => vec![flat],                                   // one comma list
        1 => flat.into_iter().map(|t| vec![t]).collect(),  // repeated option
        _ => {
            let k = rng.range(1, flat.len().max(1) as u64) as usize;
            let (a, b) = flat.split_at(k.min(flat.len()));
            [a.to_vec(), b.to_vec()].into_iter().filter(|v| !v.is_empty()).collect()
        }
    }
}

fn gen_wiring(rng: &mut Rng, c: &mut Case, fx: &Path) {
    if rng.chance(1, 2) {
        c.s = Some(rng.pick(&[".", "lib", "./lib/../lib", "", "lib"]).to_string());
    }
    if rng.chance(1, 3) {
        c.p = Some(match rng.below(3) { 0 => fx.join("src").display().to_string(), 1 => "src".to_string(), _ => fx.display().to_string() });
    }
    if c.p.as_deref() == Some(fx.to_str().unwrap()) && c.s.is_none() {
        // without -s the relative and the absolute spelling of src/beta.c would stay two keys that
        // this prefix rewrites to one path (two records for one file: C12's subject, not this part's)
        c.s = Some(".".into());
    }
    if rng.chance(1, 3) {
        c.filter = Some(rng.pick(&["covered", "uncovered"]).to_string());
    }
    let globs = ["src/*", "*.rs", "lib/*", "*.cpp", "**/beta.c", "alpha.c", "mapped/*"];
    for _ in 0..rng.below(3) {
        if rng.chance(1, 2) { c.ignore.push(rng.pick(&globs).to_string()); } else { c.keep.push(rng.pick(&globs).to_string()); }
    }
    c.ine = rng.chance(1, 3);
    if rng.chance(1, 3) { c.precision = Some(*rng.pick(&[0, 1, 3, 5])); }
    c.nodem = rng.chance(1, 3);
    c.branch = rng.chance(1, 2);
    let marks = ["XL", "XS", "XP", "BL", "BS", "BP"];
    if rng.chance(1, 2) {
        for k in 0..6 {
            if rng.chance(1, 2) {
                c.excl[k] = Some(marks[k].to_string());
            }
        }
    }
    c.threads = match rng.below(6) { 0 => None, 1 => Some(1), 2 => Some(3), 3 => Some(16), 4 => Some(64), _ => Some(2) };
    if rng.chance(1, 4) { c.pm = Some("map.json".into()); }
    if rng.chance(1, 6) { c.log = Some(rng.pick(&["run.log", "stdout", "stderr"]).to_string()); }
    if rng.chance(1, 6) { c.lvl = Some(rng.pick(&["OFF", "ERROR", "WARN", "INFO"]).to_string()); }
    if rng.chance(1, 8) { c.nodate = false; }
    if rng.chance(1, 8) { c.cdn = true; }
}

/// the runs' working directory: next to the property's work directory and private to this
/// process (several checks of C03 may run at the same time; each wipes `work/C03`)
fn fixture_dir(rep: &Report) -> PathBuf {
    rep.workdir.parent().unwrap().join(format!("C03.mainglue.{}", std::process::id()))
}

fn ensure_binary(rep: &mut Report) {
    if std::env::var("GRCOV_BIN").is_ok() {
        return;
    }
    // the same command as `check`'s build gate for the CLI-level properties: a no-op when fresh
    let st = Command::new("cargo")
        .args(["build", "--offline", "--manifest-path", "/repo/Cargo.toml", "--bin", "grcov", "--target-dir", "/verif/harness/target-grcov"])
        .env("RUSTFLAGS", "--cfg mozilla_grcov_verif")
        .env("CARGO_NET_OFFLINE", "true")
        .stdout(Stdio::null())
        .stderr(Stdio::piped())
        .output();
    match st {
        Ok(o) if o.status.success() => {}
        Ok(o) => {
            eprintln!("BUILD-FAILED: /repo's grcov binary does not build with the hooks on:\n{}", String::from_utf8_lossy(&o.stderr).chars().rev().take(3000).collect::<String>().chars().rev().collect::<String>());
            std::process::exit(2);
        }
        Err(e) => rep.notes.push(format!("main glue: cargo not runnable ({}); using the existing binary", e)),
    }
}

pub fn run(rep: &mut Report) {
    rep.rule.push_str(" | part Main: command lines (all ten output types singly and in combinations, comma lists vs repeated -t, aliases, \
        -o absent / new file / existing directory / existing file, --sort-output-types, --filter, -s/-p, --ignore/--keep-only, \
        --ignore-not-existing, --precision, --no-demangle, six --excl-* regexes, --threads 1..64 and absent, --branch, --path-mapping, \
        coveralls fields, usage errors, missing source dir, --threads 0) run on the real binary and as library(plan(options)); \
        non-trivial = several types or a non-default wiring option; stream E: zip/directory inputs, producer mapping vs --path-mapping,         LLVM and GCC notes files with --llvm on/off through a stub gcov, profiles through stub llvm tools located by --llvm-path / the         sysroot of $RUSTC (env LLVM_PATH as a decoy), --binary-path, --guess-directory-when-missing, log targets");
    ensure_binary(rep);
    let t_start = Instant::now();
    let mut rng = Rng::new(rep.seed ^ 0xC03_3A1);
    let fx = fixture_dir(rep);
    write_fixture(&fx, &mut rng);
    let fx = std::fs::canonicalize(&fx).unwrap();
    let cpus = std::thread::available_parallelism().map(|n| n.get()).unwrap_or(1);
    let mut cases: Vec<Case> = vec![];
    // A: every type alone, at every kind of destination
    for t in TYPES {
        for out in [OutKind::None, OutKind::NewFile, OutKind::Dir] {
            let mut c = Case { types: vec![vec![t.to_string()]], out, t_spelling: rng.below(3) as u8, o_spelling: rng.below(3) as u8, ..Default::default() };
            c.s = Some(".".into());
            with_auth(&mut c, &mut rng);
            if rng.chance(1, 3) { c.sort = vec![vec![t.to_string()]]; }
            cases.push(c);
        }
    }
    // B: combinations
    let nb = rep.budget(30, 12);
    for i in 0..nb {
        let k = rng.range(2, 4) as usize;
        let mut flat: Vec<String> = (0..k).map(|_| rng.pick(&TYPES).to_string()).collect();
        if i % 10 == 0 { flat = vec!["cobertura".into(), "lcov".into(), "cobertura-pretty".into()]; }
        if i % 10 == 5 { flat = vec!["html".into(), "files".into(), "covdir".into(), "markdown".into()]; }
        let mut c = Case { types: split_occurrences(&mut rng, flat), t_spelling: rng.below(3) as u8, o_spelling: rng.below(3) as u8, ..Default::default() };
        c.out = match rng.below(8) { 0 => OutKind::None, 1 => OutKind::NewFile, 2 => OutKind::ExistingFile, _ => OutKind::Dir };
        c.s = Some(".".into());
        if rng.chance(1, 2) {
            let n = rng.range(1, 3) as usize;
            let names: Vec<String> = (0..n).map(|_| rng.pick(&TYPES).to_string()).collect();
            c.sort = split_occurrences(&mut rng, names);
        }
        with_auth(&mut c, &mut rng);
        if rng.chance(1, 3) { gen_wiring(&mut rng, &mut c, &fx); }
        cases.push(c);
    }
    // C: wiring with one or two simple types
    let nc = rep.budget(30, 12);
    for _ in 0..nc {
        let pool = ["lcov", "files", "covdir", "markdown", "coveralls+", "cobertura", "ade", "html"];
        let k = rng.range(1, 2) as usize;
        let flat: Vec<String> = (0..k).map(|_| rng.pick(&pool).to_string()).collect();
        let mut c = Case { types: split_occurrences(&mut rng, flat), out: if k == 1 && rng.chance(1, 2) { OutKind::NewFile } else { OutKind::Dir }, ..Default::default() };
        if rng.chance(1, 4) { c.types = vec![]; } // default: lcov
        gen_wiring(&mut rng, &mut c, &fx);
        if rng.chance(1, 3) { c.sort = vec![vec![rng.pick(&pool).to_string(), "files".into()]]; }
        with_auth(&mut c, &mut rng);
        cases.push(c);
    }
    // sorted reports whose order by absolute path differs from the order by reported path (files
    // outside the source directory keep their absolute spelling)
    cases.push(Case { types: vec![vec!["files".into(), "markdown".into(), "lcov".into()]], sort: vec![vec!["files".into(), "lcov".into()]], s: Some("lib".into()), out: OutKind::Dir, ..Default::default() });
    cases.push(Case { types: vec![vec!["markdown".into()]], s: Some("lib".into()), out: OutKind::NewFile, ..Default::default() });
    cases.push(Case { types: vec![vec!["ade".into()], vec!["cobertura".into()]], sort: vec![vec!["ade".into()], vec!["cobertura".into()]], s: Some("lib".into()), p: Some("src".into()), out: OutKind::Dir, ..Default::default() });
    // D: runs that must not produce a report
    let base = Case { out: OutKind::Dir, ..Default::default() };
    cases.push(Case { types: vec![vec!["xml".into()]], ..base.clone() });
    cases.push(Case { types: vec![vec!["lcov".into(), "LCOV".into()]], ..base.clone() });
    cases.push(Case { types: vec![vec!["lcov".into(), "".into()]], ..base.clone() });
    cases.push(Case { sort: vec![vec!["sorted".into()]], ..base.clone() });
    cases.push(Case { types: vec![vec!["coveralls".into()]], ..base.clone() });
    cases.push(Case { types: vec![vec!["files".into()], vec!["coveralls+".into()]], sha: Some("abc".into()), ..base.clone() });
    cases.push(Case { types: vec![vec!["coveralls".into()]], sjob: Some("7".into()), ..base.clone() });
    cases.push(Case { filter: Some("Covered".into()), ..base.clone() });
    cases.push(Case { lvl: Some("error".into()), ..base.clone() });
    cases.push(Case { inputs: vec![], ..base.clone() });
    cases.push(Case { s: Some("no_such_dir".into()), ..base.clone() });
    cases.push(Case { s: Some("no_such_dir".into()), log: Some("run.log".into()), types: vec![vec!["files".into(), "lcov".into()]], ..base.clone() });
    cases.push(Case { threads: Some(0), ..base.clone() });
    cases.push(Case { threads: Some(0), types: vec![vec!["files".into(), "lcov".into()]], out: OutKind::NewFile, ..base.clone() });
    cases.push(Case { pm: Some("missing.json".into()), ..base.clone() });
    cases.push(Case { pm: Some("notjson.json".into()), types: vec![vec!["files".into(), "lcov".into()]], out: OutKind::NewFile, ..base.clone() });
    cases.push(Case { types: vec![vec!["files".into(), "files".into()]], out: OutKind::NewFile, ..base.clone() });

    // E: external tools, archive inputs, mapping sources, log targets
    write_tools_fixture(&fx, rep);
    let two = |types: &str| vec![types.split(',').map(|t| t.to_string()).collect::<Vec<String>>()];
    let tool_base = Case { types: two("files,lcov"), out: OutKind::Dir, rustc: Some("stub".into()), ..Default::default() };
    let ins = |v: &[&str]| v.iter().map(|x| x.to_string()).collect::<Vec<String>>();
    let mut tool_cases: Vec<Case> = vec![];
    // E1: directory and zip inputs; the producer's linked-files-map.json against --path-mapping
    for inputs in [ins(&["indir"]), ins(&["in.zip"]), ins(&["indir", "in1.info"]), ins(&["obj", "in0.info"]), ins(&["in.zip", "indir"])] {
        for pm in [None, Some("map2.json")] {
            tool_cases.push(Case { inputs: inputs.clone(), pm: pm.map(|x| x.to_string()), s: if rng.chance(1, 2) { Some(".".into()) } else { None },
                ine: rng.chance(1, 3), branch: rng.chance(1, 2), ..tool_base.clone() });
        }
    }
    // E2: notes files: LLVM header / GCC header, --llvm on and off, --guess-directory-when-missing, --branch
    for inputs in [ins(&["gobj", "in0.info"]), ins(&["obj", "gobj"]), ins(&["in.zip", "gobj"]), ins(&["obj"])] {
        for llvm in [false, true] {
            tool_cases.push(Case { inputs: inputs.clone(), llvm, guess: rng.chance(1, 2), branch: rng.chance(1, 2), threads: Some(rng.range(1, 3)), ..tool_base.clone() });
        }
    }
    // (a stem with a directory part: the zip's zobj/prog — the guess joins that directory onto the bare source name)
    tool_cases.push(Case { inputs: ins(&["in.zip"]), guess: true, ..tool_base.clone() });
    tool_cases.push(Case { inputs: ins(&["in.zip"]), guess: false, ..tool_base.clone() });
    // E4: log target, seen through the error line of a rejected tracefile
    for (log, lvl) in [(None, None), (Some("run.log"), None), (Some("nodir/run.log"), None), (Some("stdout"), None), (Some("stderr"), None),
                       (Some("run.log"), Some("WARN")), (Some("nodir/run.log"), Some("OFF"))] {
        tool_cases.push(Case { inputs: ins(&["in0.info", "bad.info"]), log: log.map(|x| x.to_string()), lvl: lvl.map(|x| x.to_string()),
            types: two("files"), out: OutKind::NewFile, ..tool_base.clone() });
    }
    // E3: profiles through llvm-profdata / llvm-cov: --llvm-path absent (sysroot of $RUSTC), an empty
    // directory, a directory without llvm-profdata, then (last: the library's static can be set
    // once) the stub directory; the environment variable LLVM_PATH is a decoy throughout
    let prof_in = [ins(&["prof/default.profraw", "in0.info"]), ins(&["prof", "in1.info"])];
    let mut e3: Vec<Case> = vec![];
    for (lp, rustc, bin) in [(None, "stub", Some("bins/app")), (None, "stub", Some("bins")), (None, "stub", None), (None, "missing", Some("bins/app")),
                             (Some("toolsA2"), "stub", Some("bins/app")), (Some("toolsA3"), "stub", Some("bins")), (Some("toolsA2"), "missing", Some("bins")),
                             (Some("toolsA"), "stub", Some("bins/app")), (Some("toolsA"), "missing", Some("bins")), (Some("toolsA"), "stub", None),
                             (Some("toolsA"), "stub", Some("bins"))] {
        e3.push(Case { inputs: rng.pick(&prof_in).clone(), llvm_path: lp.map(|x: &str| x.to_string()), rustc: Some(rustc.into()), bin_path: bin.map(|x: &str| x.to_string()),
            env_llvm: true, nodem: rng.chance(1, 2), ..tool_base.clone() });
    }
    let extra = rep.budget(6, 10);
    for _ in 0..extra {
        let lp = *rng.pick(&[None, Some("toolsA"), Some("toolsA2"), Some("toolsA3")]);
        let mut inputs = rng.pick(&prof_in).clone();
        if rng.chance(1, 2) { inputs.push(rng.pick(&["gobj", "obj", "in.zip", "indir"]).to_string()); }
        e3.push(Case { inputs, llvm_path: lp.map(|x| x.to_string()), rustc: Some(rng.pick(&["stub", "missing"]).to_string()),
            bin_path: rng.pick(&[Some("bins/app"), Some("bins"), None]).map(|x| x.to_string()),
            env_llvm: rng.chance(2, 3), llvm: rng.chance(1, 3), guess: rng.chance(1, 3), pm: if rng.chance(1, 4) { Some("map2.json".into()) } else { None },
            ..tool_base.clone() });
    }
    e3.sort_by_key(|c| c.llvm_path.as_deref() == Some("toolsA"));
    tool_cases.extend(e3);
    cases.extend(tool_cases);

    let reqs: Vec<String> = cases.iter().map(|c| c.request(&fx, cpus)).collect();
    let answers = run_model(&reqs, &rep.workdir, "mainglue");
    let old_cwd = std::env::current_dir().ok();
    std::env::set_current_dir(&fx).unwrap();
    let mut cx = Ctx { fx: fx.clone(), cpus, sort_reqs: vec![], sort_want: vec![] };
    for (k, c) in cases.iter().enumerate() {
        if rep.verdict_clear() {
            break;
        }
        if k == 31 {
            rep.sample(json!({"argv": c.argv(), "request": reqs[k], "model": answers[k]}));
        }
        one_case(rep, &mut cx, c, &answers[k]);
    }
    if let Some(d) = old_cwd {
        let _ = std::env::set_current_dir(d);
    }
    // the model's sort against the order the binary used
    let sorted_ans = run_model(&cx.sort_reqs, &rep.workdir, "mainglue_sort");
    for (k, a) in sorted_ans.iter().enumerate() {
        let (text, cj) = &cx.sort_want[k];
        let (unsorted, want) = text.split_once("\n--\n").unwrap();
        let un: Vec<&str> = unsorted.lines().collect();
        let got: Vec<&str> = a.split(',').filter_map(|i| i.parse::<usize>().ok()).filter_map(|i| un.get(i).cloned()).collect();
        rep.count("main.sort_model_tie");
        if got.join("\n") != want {
            rep.disagreements_checked += 1;
            rep.fail("disagreement", None, format!("record order of a sorted report: binary {:?}, model {:?}", want, got), json!({"op": "main.sort", "request": cx.sort_reqs[k], "case": cj["case"], "argv": cj["argv"]}));
        }
    }
    let _ = cx.cpus;
    for k in ["RUSTC", "GCOV", "TOOL_LOG", "LLVM_PATH"] {
        std::env::remove_var(k);
    }
    if std::env::var("MAINGLUE_KEEP").is_err() {
        let _ = std::fs::remove_dir_all(&fx);
    }
    rep.notes.push(format!("part Main: {} command lines in {:.1} s", cases.len(), t_start.elapsed().as_secs_f64()));
}

pub fn replay(rep: &mut Report, case: &Value) {
    if case["op"] == "main.all" {
        // the whole stream of this part alone
        return run(rep);
    }
    let Some(c) = Case::from_json(case) else {
        rep.notes.push("replay main.*: the case carries no option record".into());
        return;
    };
    ensure_binary(rep);
    let mut rng = Rng::new(rep.seed ^ 0xC03_3A1);
    let fx = fixture_dir(rep);
    write_fixture(&fx, &mut rng);
    let fx = std::fs::canonicalize(&fx).unwrap();
    write_tools_fixture(&fx, rep);
    let cpus = std::thread::available_parallelism().map(|n| n.get()).unwrap_or(1);
    let reqs = vec![c.request(&fx, cpus)];
    let answers = run_model(&reqs, &rep.workdir, "mainglue");
    std::env::set_current_dir(&fx).unwrap();
    let mut cx = Ctx { fx: fx.clone(), cpus, sort_reqs: vec![], sort_want: vec![] };
    one_case(rep, &mut cx, &c, &answers[0]);
    let _ = std::env::set_current_dir("/verif");
    if std::env::var("MAINGLUE_KEEP").is_err() {
        let _ = std::fs::remove_dir_all(&fx);
    }
}
