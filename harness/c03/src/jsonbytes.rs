//! C03 / C18, part JsonBytes — the byte layer of the JSON reports. The REAL `output_covdir`,
//! `output_coveralls` (both variants) and `output_activedata_etl` run on generated result sets
//! (benign and hostile names: quotes, backslashes, control bytes, text that looks like JSON
//! syntax, non-ASCII); the bytes they write must equal, byte for byte, `jsonSerialize` of the Lean
//! document (`Writers/JsonBytes.lean`; float fields are passed to the model as the tokens the
//! implementation printed, `source_digest` as the string it printed). Independently, Python's
//! `json` (strict: duplicate keys, NaN/Infinity rejected) reads every real document; its value
//! tree, printed canonically, must equal the model's document (driver) and serde_json's reading.
use crate::docs::{gen_cov, gen_set, show_set, without_git};
use corrlib::*;
use grcov::*;
use serde_json::{json, Value};
use std::path::{Path, PathBuf};

type RS = Vec<(PathBuf, PathBuf, CovResult)>;

const HOSTILE: &[&str] = &[
    "a\"b.c", "back\\slash.c", "x\",\"y\":1,\"z\":\".c", "tab\tname.c", "nl\nname.c", "\u{1}ctl.c", "é\"\\.c", "del\u{7f}.c", "}]}.c", "\\u0041.c", "null", "sp ace/\"q\"/f.c",
    "日本/\"語\".c", "a/b\\/c.c",
];
const HOSTILE_FNS: &[&str] = &["f\"g", "h\\", "\"},{\"name\":\"x", "\u{2}\u{1f}", "ünï\"", "\n"];

fn gen_hostile(rng: &mut Rng) -> RS {
    let mut out: RS = vec![];
    let mut used = std::collections::BTreeSet::new();
    for _ in 0..rng.range(1, 4) {
        let rel = rng.pick(HOSTILE).to_string();
        if !used.insert(rel.clone()) {
            continue;
        }
        let mut c = gen_cov(rng, false);
        if rng.chance(1, 2) {
            c.functions.insert(rng.pick(HOSTILE_FNS).to_string(), Function { start: rng.range(1, 9) as u32, executed: rng.chance(1, 2) });
        }
        out.push((PathBuf::from(format!("/src_root/{}", rel)), PathBuf::from(&rel), c));
    }
    out
}

/// the result set for the model, functions in the iteration order of the HARNESS's `FxHashMap` (an
/// arbitrary order: since 73c9152 the writers list the functions by name, and so does the model –
/// `Writers.FnOrder` sorts whatever order it is given; nothing is read off the real report)
fn show_set_iter_order(rs: &RS) -> String {
    rs.iter()
        .map(|(a, r, c)| {
            let base = show_cov(c);
            let head = &base[..base.rfind(";F").unwrap() + 2];
            let fns: Vec<String> = c.functions.iter().map(|(n, f)| format!("{}:{}:{}", hex(n.as_bytes()), f.start, if f.executed { 1 } else { 0 })).collect();
            format!("R{}={}={}{}", hex(a.to_str().unwrap().as_bytes()), hex(r.to_str().unwrap().as_bytes()), head, fns.join(","))
        })
        .collect::<Vec<_>>()
        .join(" ")
}

fn req_line(parts: &[&str]) -> String {
    parts.iter().filter(|p| !p.is_empty()).cloned().collect::<Vec<_>>().join(" ")
}

/// canonical text of a JSON value as serde_json read it (the same text `showJson` prints in Lean and
/// the Python reader below prints)
fn canon_value(v: &Value) -> String {
    match v {
        Value::Null => "n".into(),
        Value::Bool(true) => "t".into(),
        Value::Bool(false) => "f".into(),
        Value::Number(n) => {
            if n.is_f64() { format!("F{}", hex(n.to_string().as_bytes())) } else { format!("i{}", n) }
        }
        Value::String(s) => format!("s{}", hex(s.as_bytes())),
        Value::Array(a) => format!("[{}]", a.iter().map(canon_value).collect::<Vec<_>>().join(",")),
        Value::Object(o) => format!("{{{}}}", o.iter().map(|(k, v)| format!("{}:{}", hex(k.as_bytes()), canon_value(v))).collect::<Vec<_>>().join(",")),
    }
}

const PY_READER: &str = r#"
import json, sys
class Obj(list):
    pass
def pairs(ps):
    seen = set()
    for k, _ in ps:
        if k in seen:
            raise ValueError("duplicate key %r" % k)
        seen.add(k)
    return Obj(ps)
def const(c):
    raise ValueError("constant " + c)
def canon(v):
    if v is None: return "n"
    if v is True: return "t"
    if v is False: return "f"
    if isinstance(v, int): return "i" + str(v)
    if isinstance(v, tuple): return "F" + v[1].encode().hex()
    if isinstance(v, str): return "s" + v.encode("utf-8").hex()
    if isinstance(v, Obj): return "{" + ",".join(k.encode("utf-8").hex() + ":" + canon(x) for k, x in v) + "}"
    if isinstance(v, list): return "[" + ",".join(canon(x) for x in v) + "]"
    raise ValueError("unexpected value")
out = open(sys.argv[2], "w")
for line in open(sys.argv[1]):
    ident, path = line.rstrip("\n").split(" ", 1)
    try:
        data = open(path, "rb").read().decode("utf-8")
        docs = [data] if not ident.startswith("ade") else [l for l in data.split("\n") if l != ""]
        res = []
        for d in docs:
            v = json.loads(d, object_pairs_hook=pairs, parse_float=lambda t: ("F", t), parse_constant=const)
            res.append(canon(v))
        out.write(ident + " ok " + " ".join(res) + "\n")
    except Exception as e:
        out.write(ident + " err " + repr(e).replace("\n", " ") + "\n")
"#;

fn covdir_fills(v: &Value, path: &mut Vec<String>, out: &mut Vec<String>) {
    if let Some(p) = v.get("coveragePercent") {
        out.push(format!("P{}={}", hex(path.join("/").as_bytes()), hex(p.to_string().as_bytes())));
    }
    if let Some(ch) = v.get("children").and_then(|c| c.as_object()) {
        for (k, c) in ch {
            path.push(k.clone());
            covdir_fills(c, path, out);
            path.pop();
        }
    }
}

/// the printed `percentage_covered` tokens of an ade report, in document order
fn ade_tokens(text: &str) -> Vec<String> {
    let mut out = vec![];
    let pat = "\"percentage_covered\":";
    let mut rest = text;
    while let Some(i) = rest.find(pat) {
        rest = &rest[i + pat.len()..];
        let e = rest.find(|c| c == ',' || c == '}').unwrap_or(rest.len());
        let t = &rest[..e];
        out.push(if t == "null" { "Tn".to_string() } else { format!("T{}", hex(t.as_bytes())) });
        rest = &rest[e..];
    }
    out
}

struct Pending {
    id: String,
    op: String,
    req: String,
    real_hex: String,
    serde_canon: Option<String>,
    case: Value,
}

pub fn run(rep: &mut Report) {
    let t0 = std::time::Instant::now();
    rep.rule.push_str("; jsonbytes stream: docs-stream result sets (no line 0) and sets with hostile file / function names through the real covdir, coveralls, coveralls+ and ade writers: report bytes == jsonSerialize of the Lean document, Python json value tree == the document");
    let mut rng = Rng::new(rep.seed ^ 0xC03B17E5);
    let n = rep.budget(100, 20);
    let out = rep.workdir.join("jsonbytes_out");
    std::fs::create_dir_all(&out).unwrap();
    let mut pend: Vec<Pending> = vec![];
    let mut manifest = String::new();
    for i in 0..n {
        if rep.verdict_clear() {
            break;
        }
        let hostile = i % 3 == 0;
        let mut rs: RS = if hostile { gen_hostile(&mut rng) } else { gen_set(&mut rng, false, true) };
        // keep the reports small: the byte tie ships every report to the model in hex
        for r in rs.iter_mut() {
            r.2.lines.retain(|l, _| *l <= 400);
        }
        rep.case(&format!("jsonbytes {}", show_set(&rs)), hostile || rs.len() >= 3);
        rep.count(if hostile { "jsonbytes.hostile_names" } else { "jsonbytes.generated_names" });
        let set = show_set_iter_order(&rs);
        let mut add = |rep: &mut Report, set: &str, id: String, op: &str, req: String, path: &Path, multi: bool| {
            let bytes = std::fs::read(path).unwrap_or_default();
            let text = String::from_utf8_lossy(&bytes).to_string();
            let serde_canon = if multi {
                text.lines().map(|l| serde_json::from_str::<Value>(l).ok().map(|v| canon_value(&v))).collect::<Option<Vec<_>>>().map(|v| v.join(" "))
            } else {
                serde_json::from_str::<Value>(&text).ok().map(|v| canon_value(&v))
            };
            rep.count(&format!("jsonbytes.doc.{}", op));
            manifest.push_str(&format!("{} {}\n", id, path.display()));
            pend.push(Pending { id, op: op.to_string(), req, real_hex: hex(&bytes), serde_canon, case: json!({"op": op, "results": set}) });
        };
        // covdir
        {
            let p = out.join(format!("d{}.json", i));
            if guarded(|| output_covdir(&rs, Some(&p), 2)).is_ok() {
                let v: Value = serde_json::from_str(&std::fs::read_to_string(&p).unwrap_or_default()).unwrap_or(Value::Null);
                let mut fills = vec![];
                covdir_fills(&v, &mut vec![], &mut fills);
                add(rep, &set, format!("covdir{}", i), "c03.json.covdir", req_line(&["c03.json.covdir", &set, &fills.join(" ")]), &p, false);
            } else {
                rep.count("jsonbytes.covdir.panic");
            }
        }
        // coveralls / coveralls+
        for plus in [false, true] {
            let p = out.join(format!("c{}{}.json", i, if plus { "p" } else { "" }));
            let r = without_git(|| guarded(|| output_coveralls(&rs, Some("tok"), Some("svc"), "1", Some("2"), "3", None, "sha", plus, Some(&p), "main", false, false)));
            if r.is_ok() {
                let v: Value = serde_json::from_str(&std::fs::read_to_string(&p).unwrap_or_default()).unwrap_or(Value::Null);
                let digests: Vec<String> = v["source_files"].as_array().map(|a| a.iter().map(|f| format!("G{}", hex(f["source_digest"].as_str().unwrap_or("").as_bytes()))).collect()).unwrap_or_default();
                add(rep, &set, format!("cov{}{}", i, if plus { "p" } else { "" }), "c03.json.coveralls", req_line(&["c03.json.coveralls", if plus { "1" } else { "0" }, &set, &digests.join(" ")]), &p, false);
            }
        }
        // ade
        {
            let p = out.join(format!("a{}.json", i));
            if guarded(|| output_activedata_etl(&rs, Some(&p), false)).is_ok() {
                let toks = ade_tokens(&std::fs::read_to_string(&p).unwrap_or_default());
                add(rep, &set, format!("ade{}", i), "c03.json.ade", req_line(&["c03.json.ade", &set, &toks.join(" ")]), &p, true);
            }
        }
        // demangling ON (the CLI default), with names that really demangle: coveralls+ and ade
        if i % 2 == 1 {
            let mut rs2 = rs.clone();
            crate::dm::sprinkle(&mut rng, &mut rs2);
            let mut dm = crate::dm::Dm::new(&rep.workdir);
            match dm.resolve_set(&rs2) {
                Err(e) => rep.fail("oracle", None, e, json!({"op": "c03.json.coveralls", "demangle": true, "results": show_set(&rs2)})),
                Ok(()) => {
                    let set2 = show_set_iter_order(&rs2);
                    let d = dm.arg(true, &rs2);
                    rep.count(if rs2.iter().any(|r| dm.collides(true, &r.2)) { "jsonbytes.demangle_on.two_functions_print_alike" } else { "jsonbytes.demangle_on.injective" });
                    let p = out.join(format!("c{}dm.json", i));
                    let r = without_git(|| guarded(|| output_coveralls(&rs2, Some("tok"), Some("svc"), "1", Some("2"), "3", None, "sha", true, Some(&p), "main", false, true)));
                    if r.is_ok() {
                        let v: Value = serde_json::from_str(&std::fs::read_to_string(&p).unwrap_or_default()).unwrap_or(Value::Null);
                        let digests: Vec<String> = v["source_files"].as_array().map(|a| a.iter().map(|f| format!("G{}", hex(f["source_digest"].as_str().unwrap_or("").as_bytes()))).collect()).unwrap_or_default();
                        add(rep, &set2, format!("cov{}dm", i), "c03.json.coveralls", req_line(&["c03.json.coveralls", "1", &d, &set2, &digests.join(" ")]), &p, false);
                    }
                    let p = out.join(format!("a{}dm.json", i));
                    if guarded(|| output_activedata_etl(&rs2, Some(&p), true)).is_ok() {
                        let toks = ade_tokens(&std::fs::read_to_string(&p).unwrap_or_default());
                        add(rep, &set2, format!("ade{}dm", i), "c03.json.ade", req_line(&["c03.json.ade", &d, &set2, &toks.join(" ")]), &p, true);
                    }
                }
            }
        }
    }
    // the independent reader: Python's json on every real document
    let script = rep.workdir.join("jsonbytes_reader.py");
    let man = rep.workdir.join("jsonbytes_manifest.txt");
    let pyout = rep.workdir.join("jsonbytes_py.txt");
    std::fs::write(&script, PY_READER).unwrap();
    std::fs::write(&man, &manifest).unwrap();
    let st = std::process::Command::new("/usr/bin/python3").arg(&script).arg(&man).arg(&pyout).status();
    let py: std::collections::BTreeMap<String, String> = if st.map(|s| s.success()).unwrap_or(false) {
        std::fs::read_to_string(&pyout).unwrap_or_default().lines().filter_map(|l| l.split_once(' ').map(|(a, b)| (a.to_string(), b.to_string()))).collect()
    } else {
        rep.fail("oracle", None, "jsonbytes: the Python reader could not be run".into(), json!({"op": "c03.json.python"}));
        Default::default()
    };
    let reqs: Vec<String> = pend.iter().map(|p| p.req.clone()).collect();
    let ans = run_model(&reqs, &rep.workdir, "c03jsonbytes");
    for (k, p) in pend.iter().enumerate() {
        // oracle: a strict independent reader accepts the report and reads what serde_json reads
        let pyc = match py.get(&p.id) {
            Some(s) if s.starts_with("ok ") => Some(s[3..].trim_end().to_string()),
            Some(s) => {
                rep.fail("oracle", None, format!("{}: Python's json rejects the report: {}", p.op, s), p.case.clone());
                None
            }
            None => None,
        };
        if let (Some(a), Some(b)) = (&pyc, &p.serde_canon) {
            if a != b {
                rep.fail("oracle", None, format!("{}: Python's json and serde_json read different documents", p.op), p.case.clone());
            }
        }
        // tie: bytes, and the document the model serialised
        let want = if p.op == "c03.json.ade" { format!("ok {}", p.real_hex) } else { format!("ok {} {}", p.real_hex, pyc.clone().or(p.serde_canon.clone()).unwrap_or_default()) };
        if ans[k].trim_end() != want.trim_end() {
            rep.disagreements_checked += 1;
            let (mb, md) = { let mut it = ans[k].splitn(3, ' '); it.next(); (it.next().unwrap_or("").to_string(), it.next().unwrap_or("").to_string()) };
            let what = if mb != p.real_hex { "the report bytes differ from jsonSerialize of the model document" } else { "the document read back from the report differs from the model document" };
            rep.fail("disagreement", None, format!("{}: {}", p.op, what), json!({"op": p.op, "results": p.case["results"], "request": p.req, "impl_bytes": String::from_utf8_lossy(&unhex(&p.real_hex)).chars().take(600).collect::<String>(), "model_bytes": String::from_utf8_lossy(&unhex(&mb)).chars().take(600).collect::<String>(), "model_doc": md.chars().take(300).collect::<String>()}));
        }
    }
    rep.notes.push(format!("jsonbytes stream: {} result sets, {} reports tied byte for byte, {} ms", n, pend.len(), t0.elapsed().as_millis()));
}

pub fn replay(rep: &mut Report, case: &Value) {
    rep.notes.push(format!("replay of {}: re-run ./check C03 with the same seed (the request is in the case)", case["op"]));
}
