//! C03, part Bounds — the values the other generators never reach (mutation campaign mutM3: five
//! surviving mutants, one root cause: branch vectors ≤ 5 slots, function starts ≤ 40, html sources
//! ≤ 60000 lines; seeded change C03-5: coveralls sources always missing).
//!
//! Stream `bounds`: a handful of result sets per run whose branch vectors have 255 / 256 / 257 /
//! 300 slots, whose functions start on lines 65535 / 65536 / 65537 / 2^31 / 2^32-1, with counts up
//! to 2^64-1, through EVERY writer: lcov (bytes tied to `c03.lcov`, BRDA records decoded: numbers
//! 0,1,2,… per line, vectors rebuilt), coveralls and coveralls+ (bytes tied to `c03.json.coveralls`;
//! quadruple numbers, function start lines), cobertura plain + pretty and ade (`cobade::differs`:
//! tree / records tied to the CobAde model, condition numbers = positions, ranges from the start
//! lines), covdir (decoded arrays). One html case per run: a source of 65536 + k lines whose
//! instrumented lines lie on both sides of 2^16 (rows decoded, tied to `c03.html`).
//!
//! Stream `stale`: the coveralls writers with the source file of every result ON DISK at its
//! absolute path – missing, long enough, or k ∈ 1..5 lines SHORTER than the highest instrumented
//! line (a stale / regenerated source) – oracle: the decoded `coverage` array covers every
//! instrumented line with its count; tied to `c03.docs.coveralls`.
use corrlib::pipe::show_map;
use corrlib::*;
use grcov::*;
use serde_json::{json, Value};
use std::collections::{BTreeMap, BTreeSet};
use std::path::{Path, PathBuf};

type RS = Vec<(PathBuf, PathBuf, CovResult)>;

const LENS: &[usize] = &[255, 256, 257, 300];
const STARTS: &[u32] = &[65535, 65536, 65537, 1 << 31, u32::MAX, 255, 256, 70000];
const FNS: &[&str] = &["main", "f", "g", "名前", "late", "z9"];

fn shown(rs: &RS) -> String {
    rs.iter().map(|(_, rel, c)| format!("K{}={}", hex(rel.to_str().unwrap().as_bytes()), show_cov(c))).collect::<Vec<_>>().join(" ")
}
fn shown_r(rs: &RS) -> String {
    rs.iter().map(|(a, r, c)| format!("R{}={}={}", hex(a.to_str().unwrap().as_bytes()), hex(r.to_str().unwrap().as_bytes()), show_cov(c))).collect::<Vec<_>>().join(" ")
}

fn gen_cov(rng: &mut Rng, big_vec: bool) -> CovResult {
    let mut c = CovResult::default();
    for _ in 0..rng.range(1, 6) {
        c.lines.insert(rng.range(1, 30) as u32, *rng.pick(&[0, 1, 7, u64::MAX, 1 << 63]));
    }
    let keys: Vec<u32> = c.lines.keys().cloned().collect();
    // one or two long vectors on instrumented lines (cobertura carries only those), a short one elsewhere
    for _ in 0..(if big_vec { rng.range(1, 3) } else { 0 }) {
        let len = *rng.pick(LENS);
        let taken_from = rng.below(len as u64) as usize;
        c.branches.insert(*rng.pick(&keys), (0..len).map(|i| i >= taken_from && (i % 3 != 1)).collect());
    }
    if rng.chance(1, 2) {
        c.branches.insert(rng.range(1, 30) as u32, vec![true, false, true]);
    }
    for _ in 0..rng.range(1, 4) {
        let start = if rng.chance(2, 3) { *rng.pick(STARTS) } else { rng.range(1, 30) as u32 };
        c.functions.insert(rng.pick(FNS).to_string(), Function { start, executed: rng.chance(1, 2) });
    }
    c
}

fn gen_set(rng: &mut Rng) -> RS {
    let paths = ["wide.c", "src/gen/table.c", "日本/語.c"];
    let mut out = vec![];
    let n = rng.range(1, 3) as usize;
    for (k, p) in paths.iter().take(n).enumerate() {
        let big = k == 0 || rng.chance(1, 2);
        out.push((PathBuf::from("/src_root").join(p), PathBuf::from(p), gen_cov(rng, big)));
    }
    out
}

/// the branch vectors an lcov report carries: BRDA numbers must be 0,1,2,… per line
fn lcov_branches(text: &str) -> Result<Vec<(String, BTreeMap<u32, Vec<bool>>, Option<u64>, Option<u64>)>, String> {
    let mut out = vec![];
    let mut cur: Option<(String, BTreeMap<u32, Vec<bool>>, Option<u64>, Option<u64>)> = None;
    for l in text.lines() {
        if let Some(sf) = l.strip_prefix("SF:") {
            cur = Some((sf.to_string(), BTreeMap::new(), None, None));
        } else if l == "end_of_record" {
            out.push(cur.take().ok_or("end_of_record without SF")?);
        } else if let Some(v) = l.strip_prefix("BRDA:") {
            let f: Vec<&str> = v.split(',').collect();
            if f.len() != 4 || f[1] != "0" {
                return Err(format!("BRDA record {:?}", l));
            }
            let (line, n): (u32, usize) = (f[0].parse().map_err(|_| "BRDA line")?, f[2].parse().map_err(|_| "BRDA number")?);
            let vec = cur.as_mut().ok_or("BRDA outside a record")?.1.entry(line).or_default();
            if vec.len() != n {
                return Err(format!("branch numbers of line {} are not 0,1,2,…: {} after {} records", line, n, vec.len()));
            }
            vec.push(match f[3] {
                "-" | "0" => false,
                _ => true,
            });
        } else if let Some(v) = l.strip_prefix("BRF:") {
            cur.as_mut().ok_or("BRF outside")?.2 = v.parse().ok();
        } else if let Some(v) = l.strip_prefix("BRH:") {
            cur.as_mut().ok_or("BRH outside")?.3 = v.parse().ok();
        }
    }
    Ok(out)
}

fn one_set(rep: &mut Report, rs: &RS, out: &Path, reqs: &mut Vec<String>, real: &mut Vec<(String, String, Value)>) {
    let _ = std::fs::create_dir_all(out);
    let case = json!({"op": "c03.bounds", "results": shown(rs)});
    let fail = |rep: &mut Report, fmt: &str, what: String| rep.fail("oracle", None, format!("bounds/{}: {}", fmt, what), case.clone());
    let read = |p: &Path| std::fs::read_to_string(p).unwrap_or_default();
    // lcov
    let p = out.join("b.info");
    let _ = std::fs::remove_file(&p);
    match guarded(|| output_lcov(rs, Some(&p), false)) {
        Err(e) => fail(rep, "lcov", format!("writer panicked: {}", e)),
        Ok(()) => {
            let text = read(&p);
            match lcov_branches(&text) {
                Err(e) => fail(rep, "lcov", e),
                Ok(recs) => {
                    for (r, (_, rel, c)) in recs.iter().zip(rs.iter()) {
                        let want: BTreeMap<u32, Vec<bool>> = c.branches.iter().filter(|(_, v)| !v.is_empty()).map(|(l, v)| (*l, v.clone())).collect();
                        let (brf, brh) = (c.branches.values().map(|v| v.len() as u64).sum::<u64>(), c.branches.values().map(|v| v.iter().filter(|b| **b).count() as u64).sum::<u64>());
                        if r.1 != want || r.2 != Some(brf) || r.3 != Some(brh) {
                            fail(rep, "lcov", format!("the BRDA records of {:?} do not rebuild its branch vectors ({} lines, BRF {:?}/{} BRH {:?}/{})", rel, r.1.len(), r.2, brf, r.3, brh));
                        }
                    }
                    if recs.len() != rs.len() {
                        fail(rep, "lcov", "number of records".into());
                    }
                }
            }
            super::cmp(rep, "bounds/lcov", rs, corrlib::pipe::decode_lcov_report(&text), super::want_map(rs, true, true, true));
            reqs.push(format!("c03.lcov {}", shown(rs)));
            real.push(("lcov".into(), format!("ok {}", hex(text.as_bytes())), case.clone()));
        }
    }
    // coveralls / coveralls+
    for plus in [false, true] {
        let fmt = if plus { "coveralls+" } else { "coveralls" };
        let p = out.join("b.json");
        let _ = std::fs::remove_file(&p);
        match crate::docs::without_git(|| guarded(|| output_coveralls(rs, Some("tok"), Some("svc"), "1", Some("2"), "3", None, "sha", plus, Some(&p), "main", false, false))) {
            Err(e) => fail(rep, fmt, format!("writer panicked: {}", e)),
            Ok(()) => {
                let bytes = std::fs::read(&p).unwrap_or_default();
                match serde_json::from_slice::<Value>(&bytes) {
                    Err(e) => fail(rep, fmt, format!("invalid JSON: {}", e)),
                    Ok(v) => {
                        super::cmp(rep, &format!("bounds/{}", fmt), rs, super::dec_coveralls(&v, plus), super::want_map(rs, true, true, plus));
                        let digests: Vec<String> = v["source_files"].as_array().map(|a| a.iter().map(|f| format!("G{}", hex(f["source_digest"].as_str().unwrap_or("").as_bytes()))).collect()).unwrap_or_default();
                        reqs.push(format!("c03.json.coveralls {} {} {}", if plus { 1 } else { 0 }, shown_r(rs), digests.join(" ")).trim_end().to_string());
                        real.push((fmt.into(), format!("ok {}", hex(&bytes)), case.clone()));
                    }
                }
            }
        }
    }
    // cobertura (plain, pretty) and ade: tree / records against the CobAde model, with their oracles
    let (o, bad) = crate::cobade::differs(rs, None, &rep.workdir);
    for (fmt, finding, what) in &o.oracle {
        if finding.is_none() {
            fail(rep, fmt, what.clone());
        }
    }
    if !bad.is_empty() && !o.oracle.iter().any(|f| f.1.is_none()) {
        rep.disagreements_checked += 1;
        rep.fail("disagreement", None, format!("bounds: {:?}: the document written by the implementation differs from the CobAde model", bad), case.clone());
    }
    rep.count("bounds.tie.cobertura+pretty+ade");
    // covdir
    let p = out.join("b.covdir.json");
    let _ = std::fs::remove_file(&p);
    match guarded(|| output_covdir(rs, Some(&p), 2)) {
        Err(e) => fail(rep, "covdir", format!("writer panicked: {}", e)),
        Ok(()) => match serde_json::from_str::<Value>(&read(&p)) {
            Err(e) => fail(rep, "covdir", format!("invalid JSON: {}", e)),
            Ok(v) => {
                let mut m = BTreeMap::new();
                let r = super::dec_covdir(&v, "", &mut m).map(|_| m);
                super::cmp(rep, "bounds/covdir", rs, r, super::want_map(rs, true, false, false));
            }
        },
    }
}

/// one html page over a source of 65536 + k lines, instrumented on both sides of 2^16
fn html_case(rep: &mut Report, rng: &mut Rng) {
    let base = rep.workdir.join("bounds_html");
    let _ = std::fs::remove_dir_all(&base);
    let n: u32 = 65536 + rng.range(3, 40) as u32;
    let mut c = CovResult::default();
    for l in [1u32, 2, 255, 256, 257, 65535, 65536, 65537, 65538, n - 1, n] {
        c.lines.insert(l, if l % 2 == 0 { 0 } else { l as u64 * 3 + 1 });
    }
    c.lines.insert(65539, u64::MAX);
    let abs = base.join("src/long.c");
    std::fs::create_dir_all(abs.parent().unwrap()).unwrap();
    let mut text = String::with_capacity(n as usize * 4);
    for i in 0..n {
        text.push_str(if i % 7 == 0 { "x;\n" } else { "\n" });
    }
    std::fs::write(&abs, text).unwrap();
    let set: RS = vec![(abs, PathBuf::from("long.c"), c.clone())];
    let outd = base.join("out");
    let case = json!({"op": "c03.bounds.html", "source_lines": n, "results": shown(&set)});
    rep.case(&format!("bounds html {} {}", n, shown(&set)), true);
    rep.count("bounds.html.source_longer_than_65535_lines");
    if let Err(e) = guarded(|| output_html(&set, Some(&outd), 1, true, None, 2, &None, true, grcov::html::HtmlResources::Cdn)) {
        rep.fail("oracle", None, format!("bounds/html: writer panicked: {}", e), case);
        return;
    }
    let page = std::fs::read_to_string(outd.join("long.c.html")).unwrap_or_default();
    match super::dec_html_file(&page) {
        Err(e) => rep.fail("oracle", None, format!("bounds/html: cannot decode the page: {}", e), case),
        Ok(rows) => {
            let bad = (0..n as usize).find(|k| rows.get(*k).map(|r| r.0 as usize != k + 1 || r.1 != c.lines.get(&(*k as u32 + 1)).cloned()).unwrap_or(true));
            if rows.len() != n as usize || bad.is_some() {
                let k = bad.unwrap_or(0);
                rep.fail("oracle", None, format!("bounds/html: {} rows for {} source lines; row {} shows {:?}, line {} has {:?}", rows.len(), n, k + 1, rows.get(k).map(|r| (r.0, r.1)), k + 1, c.lines.get(&(k as u32 + 1))), case.clone());
            }
            let ans = run_model(&[format!("c03.html {} {}", n, show_cov(&c))], &rep.workdir, "c03boundshtml");
            let got = rows.iter().map(|r| r.1.map(|x| x.to_string()).unwrap_or("-1".into())).collect::<Vec<_>>().join(",");
            if ans[0] != got {
                rep.disagreements_checked += 1;
                rep.fail("disagreement", None, "bounds/html: the rows of the page differ from Writers.htmlCounts".into(), case);
            }
        }
    }
}

/// the coveralls writers with the sources on disk: missing / long enough / shorter than the data
fn stale_stream(rep: &mut Report, rng: &mut Rng) {
    let base = rep.workdir.join("bounds_stale");
    let n = rep.budget(40, 5);
    let mut reqs = vec![];
    let mut got = vec![];
    for i in 0..n {
        let _ = std::fs::remove_dir_all(&base);
        std::fs::create_dir_all(&base).unwrap();
        let mut rs: RS = vec![];
        let mut kinds = vec![];
        for k in 0..rng.range(1, 4) {
            let rel = format!("d{}/f{}.c", k % 2, k);
            let abs = base.join("src").join(&rel);
            let mut c = CovResult::default();
            for _ in 0..rng.range(1, 6) {
                c.lines.insert(rng.range(1, 25) as u32, *rng.pick(&[0, 1, 9, u64::MAX]));
            }
            if rng.chance(1, 2) {
                c.branches.insert(rng.range(1, 25) as u32, vec![true, false]);
            }
            c.functions.insert("f".into(), Function { start: rng.range(1, 25) as u32, executed: true });
            let last = *c.lines.keys().last().unwrap() as usize;
            // 0 missing | 1 exactly as long | 2 longer | 3 shorter by k | 4 shorter, no final newline | 5 empty
            let kind = if i == 0 { 3 } else { rng.below(6) };
            let lines = match kind {
                0 => None,
                1 => Some(last),
                2 => Some(last + rng.range(1, 5) as usize),
                3 | 4 => Some(last.saturating_sub(rng.range(1, 5) as usize)),
                _ => Some(0),
            };
            if let Some(l) = lines {
                std::fs::create_dir_all(abs.parent().unwrap()).unwrap();
                let mut t = "int x;\n".repeat(l);
                if kind == 4 && !t.is_empty() {
                    t.pop();
                }
                std::fs::write(&abs, t).unwrap();
            }
            kinds.push(kind);
            rep.count(["stale.source_missing", "stale.source_as_long_as_the_data", "stale.source_longer", "stale.source_shorter_by_1..5", "stale.source_shorter_no_final_newline", "stale.source_empty"][kind as usize]);
            rs.push((abs, PathBuf::from(rel), c));
        }
        let shorter = kinds.iter().any(|k| *k >= 3);
        rep.case(&format!("stale {:?} {}", kinds, shown(&rs)), shorter);
        let case = json!({"op": "c03.bounds.stale", "kinds": kinds, "results": shown(&rs)});
        for plus in [false, true] {
            let fmt = if plus { "coveralls+" } else { "coveralls" };
            let p = base.join("c.json");
            match crate::docs::without_git(|| guarded(|| output_coveralls(&rs, Some("tok"), Some("svc"), "1", Some("2"), "3", None, "sha", plus, Some(&p), "main", false, false))) {
                Err(e) => rep.fail("oracle", None, format!("stale/{}: writer panicked: {}", fmt, e), case.clone()),
                Ok(()) => match serde_json::from_str::<Value>(&std::fs::read_to_string(&p).unwrap_or_default()) {
                    Err(e) => rep.fail("oracle", None, format!("stale/{}: invalid JSON: {}", fmt, e), case.clone()),
                    Ok(v) => {
                        // every instrumented line is in the coverage array with its count – whatever the source on disk looks like
                        match super::dec_coveralls(&v, plus) {
                            Err(e) => rep.fail("oracle", None, format!("stale/{}: cannot decode: {}", fmt, e), case.clone()),
                            Ok(m) => {
                                let want = super::want_map(&rs, true, true, plus);
                                if show_map(&m) != show_map(&want) {
                                    let lost: Vec<(String, Vec<u32>)> = want.iter().map(|(f, c)| (f.clone(), c.lines.keys().filter(|l| !m.get(f).map(|g| g.lines.contains_key(l)).unwrap_or(false)).cloned().collect::<Vec<u32>>())).filter(|x| !x.1.is_empty()).collect();
                                    rep.fail("oracle", None, format!("stale/{}: the decoded report differs from the results; instrumented lines missing from the coverage array: {:?} (source kinds {:?}: 3/4/5 = shorter than the data)", fmt, lost, kinds), case.clone());
                                }
                            }
                        }
                        reqs.push(format!("c03.docs.coveralls 1 {} {}", if plus { 1 } else { 0 }, shown_r(&rs)));
                        got.push((crate::docs::canon_coveralls_pub(&v), case.clone()));
                    }
                },
            }
        }
    }
    let ans = run_model(&reqs, &rep.workdir, "c03stale");
    for ((g, case), a) in got.iter().zip(ans.iter()) {
        rep.count("stale.tie.coveralls");
        if g.as_deref().ok() != Some(a.trim_end()) {
            rep.disagreements_checked += 1;
            rep.fail("disagreement", None, format!("stale: the coveralls document differs from the Docs model ({:?})", g.as_ref().err()), case.clone());
        }
    }
    let _ = std::fs::remove_dir_all(&base);
}

pub fn run(rep: &mut Report) {
    rep.rule.push_str(" | bounds: branch vectors of 255/256/257/300 slots, function starts 65535/65536/65537/2^31/2^32-1 through lcov, coveralls(+), cobertura(+pretty), ade, covdir; one html source of 65536+k lines; stale: coveralls with sources on disk missing / long enough / 1-5 lines shorter than the data / empty");
    let t0 = std::time::Instant::now();
    let mut rng = Rng::new(rep.seed ^ 0xC03_B0D5);
    let out = rep.workdir.join("bounds_out");
    let n = rep.budget(6, 3);
    let (mut reqs, mut real) = (vec![], vec![]);
    for i in 0..n {
        let mut rs = gen_set(&mut rng);
        if i == 0 {
            // every special value once per run, whatever the seed
            let mut files = vec![];
            for (k, (la, lb)) in [(255usize, 256usize), (257, 300)].into_iter().enumerate() {
                let mut c = CovResult::default();
                for (l, n) in [(1u32, 5u64), (2, 0), (3, u64::MAX), (9, 1)] {
                    c.lines.insert(l, n);
                }
                c.branches.insert(2, (0..la).map(|j| j % 2 == 0).collect());
                c.branches.insert(9, (0..lb).map(|j| j >= 250).collect());
                for (j, s) in [65535u32, 65536, 65537, 1 << 31, u32::MAX, 3].into_iter().enumerate() {
                    if (j + k) % 2 == 0 || s == 65536 {
                        c.functions.insert(format!("fn{}", j), Function { start: s, executed: j % 2 == 0 });
                    }
                }
                files.push((PathBuf::from(format!("/src_root/w{}.c", k)), PathBuf::from(format!("w{}.c", k)), c));
            }
            rs = files;
        }
        let lens: BTreeSet<usize> = rs.iter().flat_map(|r| r.2.branches.values().map(|v| v.len())).collect();
        let starts: BTreeSet<u32> = rs.iter().flat_map(|r| r.2.functions.values().map(|f| f.start)).collect();
        rep.case(&format!("bounds {}", shown(&rs)), true);
        for l in lens.iter().filter(|l| **l >= 255) {
            rep.count(&format!("bounds.branch_vector_of_{}_slots", l));
        }
        for s in starts.iter().filter(|s| **s >= 65535) {
            rep.count(&format!("bounds.function_start_{}", s));
        }
        one_set(rep, &rs, &out, &mut reqs, &mut real);
    }
    let ans = run_model(&reqs, &rep.workdir, "c03bounds");
    for ((fmt, want, case), a) in real.iter().zip(ans.iter()) {
        rep.count(&format!("bounds.tie.{}", fmt));
        // the json op answers `ok <bytes> <document>`: compare the bytes
        let a2: String = a.split(' ').take(2).collect::<Vec<_>>().join(" ");
        if a2 != *want {
            rep.disagreements_checked += 1;
            rep.fail("disagreement", None, format!("bounds/{}: the report bytes differ from the model's", fmt), case.clone());
        }
    }
    html_case(rep, &mut rng);
    stale_stream(rep, &mut rng);
    rep.notes.push(format!("bounds + stale streams: {} sets, {} ms", n, t0.elapsed().as_millis()));
}
