//! C03, part CobAde — the document structure of the Cobertura writer and the records of the
//! ActiveData-ETL writer, tied to the Lean model `GrcovModel/Writers/CobAde.lean`.
//!
//! For every generated result set the REAL `output_cobertura` (plain and pretty) and
//! `output_activedata_etl` are run; their bytes are read back by an independent generic reader
//! (quick-xml events into an element tree that keeps package → class → methods → lines and
//! class → lines; serde_json values per line), canonicalised to the text the Lean driver prints
//! (`c03.cob.tree`, `c03.ade`) and compared tree for tree. Independently of the model the clauses of
//! the property are evaluated directly on the decoded real output (`cob_oracle`, `ade_oracle`).
//! `c03.cob.stem` ties the model of `Path::file_stem` to std on random paths.
use corrlib::*;
use grcov::*;
use quick_xml::events::Event;
use serde_json::{json, Value};
use std::collections::{BTreeMap, BTreeSet};
use std::path::{Path, PathBuf};

pub(crate) type RS = Vec<(PathBuf, PathBuf, CovResult)>;

pub const KNOWN_BRANCH: &str = "C03-cobertura-branch-without-line";

const XPATHS: &[&str] = &[
    "src/main.c",
    "src/lib/util.c",
    "a.c",
    "naïve/ünï.c",
    "日本/語.tar.gz",
    "/abs/outside/z.c",
    "with space/f.cpp",
    "trailing/space.txt ",
    ".hidden",
    "dir/.hidden.c",
    "a.b.c",
    "noext",
    "dir.d/noext",
    "x/..",
    "trail/",
    "a//b.c",
    "./rel.c",
    "é.ñ.c",
    "..",
    "a/./b.tar.gz",
    "a/b/.",
    "dots...",
    "..x",
    "q&a/<t>\"'.c",
];
const XFNS: &[&str] = &[
    "main",
    "f",
    "g",
    "_ZN3foo3barEv",
    "foo(int, char)",
    "ns::tmpl<a, b>::m",
    "é_fn",
    "名前",
    "関数::メソッド",
    "ñandú",
    "Cls#m",
    "a&b<c>\"d'",
    "0,0,x",
    "operator ",
    "",
];

fn gen_cov(rng: &mut Rng) -> CovResult {
    let mut c = CovResult::default();
    let nl = rng.below(13);
    for _ in 0..nl {
        let l = if rng.chance(1, 40) { 0 } else { rng.range(1, 30) as u32 };
        let n = match rng.below(12) {
            0..=2 => 0,
            3 => u64::MAX,
            4 => *rng.pick(&[u64::MAX - 1, 1 << 63, (1 << 63) - 1, (1 << 53) + 1, 1 << 32]),
            _ => rng.range(1, 500),
        };
        c.lines.insert(l, n);
    }
    match rng.below(300) {
        0 => {
            c.lines.insert(u32::MAX, rng.below(3));
        }
        1 => {
            c.lines.insert(u32::MAX - 1, rng.below(3));
        }
        _ => {}
    }
    for _ in 0..rng.below(5) {
        // branch vectors on lines with and without a line entry, sometimes empty
        let l = if !c.lines.is_empty() && rng.chance(3, 4) {
            *rng.pick(&c.lines.keys().cloned().collect::<Vec<_>>())
        } else {
            rng.range(1, 32) as u32
        };
        let len = if rng.chance(1, 8) { 0 } else { rng.range(1, 4) };
        c.branches.insert(l, (0..len).map(|_| rng.chance(1, 2)).collect());
    }
    let keys: Vec<u32> = c.lines.keys().cloned().filter(|k| *k < 1000).collect();
    let last = keys.last().cloned().unwrap_or(0);
    let mut prev: Option<u32> = None;
    for _ in 0..rng.below(7) {
        let start = match (prev, rng.below(12)) {
            (Some(p), 0..=3) => p,                                // shared start line
            (_, 4) => 0,                                          // start 0
            (_, 5) => last + 1 + rng.below(4) as u32,             // after the last line
            (_, 6..=8) if !keys.is_empty() => *rng.pick(&keys),   // on an instrumented line
            _ => rng.range(1, 32) as u32,
        };
        prev = Some(start);
        c.functions.insert(rng.pick(XFNS).to_string(), Function { start, executed: rng.chance(1, 2) });
    }
    c
}

pub(crate) fn gen_set(rng: &mut Rng) -> RS {
    let k = match rng.below(10) {
        0 => 0,
        1..=5 => 1,
        6..=7 => 2,
        _ => rng.range(3, 5),
    };
    let mut used = BTreeSet::new();
    let mut out = vec![];
    for _ in 0..k {
        let p = rng.pick(XPATHS).to_string();
        if !used.insert(p.clone()) {
            continue;
        }
        let abs = if p.starts_with('/') { PathBuf::from(&p) } else { PathBuf::from("/src_root").join(&p) };
        out.push((abs, PathBuf::from(&p), gen_cov(rng)));
    }
    out
}

pub(crate) fn shown(rs: &RS) -> String {
    let v: Vec<(String, CovResult)> = rs.iter().map(|r| (r.1.to_str().unwrap().to_string(), r.2.clone())).collect();
    show_results_ordered(&v)
}

pub(crate) fn parse_shown(s: &str) -> RS {
    s.split(' ')
        .filter(|e| e.starts_with('K'))
        .map(|e| {
            let (k, c) = e[1..].split_once('=').unwrap();
            let p = String::from_utf8_lossy(&unhex(k)).to_string();
            (PathBuf::from("/src_root").join(&p), PathBuf::from(&p), parse_cov(c))
        })
        .collect()
}

// ---- generic XML tree ------------------------------------------------------------------------
#[derive(Clone, Debug, PartialEq)]
pub(crate) enum X {
    E { tag: String, attrs: Vec<(String, String)>, kids: Vec<X> },
    T(String),
}

pub(crate) fn parse_xml(text: &str) -> Result<X, String> {
    let mut rd = quick_xml::Reader::from_str(text);
    // stack of open elements
    let mut stack: Vec<(String, Vec<(String, String)>, Vec<X>)> = vec![];
    let mut root: Option<X> = None;
    let attrs_of = |e: &quick_xml::events::BytesStart| -> Result<Vec<(String, String)>, String> {
        let mut v = vec![];
        for a in e.attributes() {
            let a = a.map_err(|e| format!("bad attribute: {}", e))?;
            let k = String::from_utf8(a.key.as_ref().to_vec()).map_err(|_| "attribute key not utf-8")?;
            let val = a.unescape_value().map_err(|e| format!("bad attribute value: {}", e))?.to_string();
            v.push((k, val));
        }
        Ok(v)
    };
    let close = |stack: &mut Vec<(String, Vec<(String, String)>, Vec<X>)>, root: &mut Option<X>, x: X| -> Result<(), String> {
        match stack.last_mut() {
            Some(top) => top.2.push(x),
            None => {
                if root.is_some() {
                    return Err("two root elements".into());
                }
                *root = Some(x);
            }
        }
        Ok(())
    };
    loop {
        match rd.read_event() {
            Err(e) => return Err(format!("xml error: {}", e)),
            Ok(Event::Eof) => break,
            Ok(Event::Start(e)) => {
                let tag = String::from_utf8(e.name().as_ref().to_vec()).map_err(|_| "tag not utf-8")?;
                stack.push((tag, attrs_of(&e)?, vec![]));
            }
            Ok(Event::Empty(e)) => {
                let tag = String::from_utf8(e.name().as_ref().to_vec()).map_err(|_| "tag not utf-8")?;
                let x = X::E { tag, attrs: attrs_of(&e)?, kids: vec![] };
                close(&mut stack, &mut root, x)?;
            }
            Ok(Event::End(e)) => {
                let (tag, attrs, kids) = stack.pop().ok_or("end tag without start")?;
                if e.name().as_ref() != tag.as_bytes() {
                    return Err(format!("end tag does not match <{}>", tag));
                }
                close(&mut stack, &mut root, X::E { tag, attrs, kids })?;
            }
            Ok(Event::Text(t)) => {
                let s = t.unescape().map_err(|e| format!("bad text: {}", e))?.to_string();
                if !s.trim().is_empty() {
                    if stack.is_empty() {
                        return Err("text outside the root element".into());
                    }
                    close(&mut stack, &mut root, X::T(s))?;
                }
            }
            Ok(_) => {}
        }
    }
    if !stack.is_empty() {
        return Err("unclosed element".into());
    }
    root.ok_or_else(|| "no root element".to_string())
}

const MASKED: &[&str] = &["line-rate", "branch-rate", "timestamp"];

pub(crate) fn attr<'a>(x: &'a X, k: &str) -> Option<&'a str> {
    match x {
        X::E { attrs, .. } => attrs.iter().find(|a| a.0 == k).map(|a| a.1.as_str()),
        _ => None,
    }
}

/// the text of the Lean driver: `(tag k=xHEX … child …)`, text = `"HEX`; everything in document
/// order (the model lists the methods of a class by name itself, as `sorted_functions` does)
fn canon_xml(x: &X, out: &mut String) {
    match x {
        X::T(s) => {
            out.push('"');
            out.push_str(&hex(s.as_bytes()));
        }
        X::E { tag, attrs, kids } => {
            out.push('(');
            out.push_str(tag);
            for (k, v) in attrs {
                out.push(' ');
                out.push_str(k);
                out.push('=');
                if MASKED.contains(&k.as_str()) {
                    out.push('~');
                } else {
                    out.push('x');
                    out.push_str(&hex(v.as_bytes()));
                }
            }
            for k in kids {
                out.push(' ');
                canon_xml(k, out);
            }
            out.push(')');
        }
    }
}

/// per `<class>`: (filename, the names of its `<method>` elements in document order)
pub(crate) fn method_names(x: &X) -> Result<Vec<(String, Vec<String>)>, String> {
    fn walk(x: &X, out: &mut Vec<(String, Vec<String>)>) -> Result<(), String> {
        if let X::E { tag, kids, .. } = x {
            if tag == "class" {
                let f = attr(x, "filename").ok_or("class without filename")?.to_string();
                let mut names = vec![];
                for k in kids {
                    if let X::E { tag: t, kids: ms, .. } = k {
                        if t == "methods" {
                            for m in ms {
                                names.push(attr(m, "name").ok_or("method without name")?.to_string());
                            }
                        }
                    }
                }
                out.push((f, names));
            } else {
                for k in kids {
                    walk(k, out)?;
                }
            }
        }
        Ok(())
    }
    let mut out = vec![];
    walk(x, &mut out)?;
    Ok(out)
}

// ---- typed cobertura tree (strict reader of the generic tree) ---------------------------------
#[derive(Clone, Debug, PartialEq)]
struct DLine {
    number: u32,
    hits: u64,
    conds: Option<Vec<bool>>,
}
#[derive(Clone, Debug)]
struct DMethod {
    name: String,
    lines: Vec<DLine>,
}
#[derive(Clone, Debug)]
struct DClass {
    name: String,
    filename: String,
    methods: Vec<DMethod>,
    lines: Vec<DLine>,
}
#[derive(Clone, Debug)]
struct DPackage {
    name: String,
    classes: Vec<DClass>,
}
struct DDoc {
    sources: Vec<String>,
    packages: Vec<DPackage>,
    lines_covered: u64,
    lines_valid: u64,
    branches_covered: u64,
    branches_valid: u64,
}

fn elem<'a>(x: &'a X, want_tag: &str, want_keys: &[&str]) -> Result<(&'a Vec<(String, String)>, &'a Vec<X>), String> {
    match x {
        X::E { tag, attrs, kids } if tag == want_tag => {
            let keys: Vec<&str> = attrs.iter().map(|a| a.0.as_str()).collect();
            if keys != want_keys {
                return Err(format!("<{}> has attributes {:?}, expected {:?}", tag, keys, want_keys));
            }
            Ok((attrs, kids))
        }
        X::E { tag, .. } => Err(format!("<{}> where <{}> was expected", tag, want_tag)),
        X::T(_) => Err(format!("text where <{}> was expected", want_tag)),
    }
}

fn typed_lines(x: &X) -> Result<Vec<DLine>, String> {
    let (_, kids) = elem(x, "lines", &[])?;
    let mut out = vec![];
    for k in kids {
        let is_branch = attr(k, "branch").is_some();
        let (a, ck) = if is_branch { elem(k, "line", &["number", "hits", "branch"])? } else { elem(k, "line", &["number", "hits"])? };
        let number: u32 = a[0].1.parse().map_err(|_| format!("line number {:?}", a[0].1))?;
        let hits: u64 = a[1].1.parse().map_err(|_| format!("hits {:?}", a[1].1))?;
        let conds = if is_branch {
            if a[2].1 != "true" {
                return Err(format!("branch={:?}", a[2].1));
            }
            if ck.len() != 1 {
                return Err("a branch line must have exactly one <conditions> child".into());
            }
            let (_, cs) = elem(&ck[0], "conditions", &[])?;
            let mut v = vec![];
            for (i, c) in cs.iter().enumerate() {
                let (ca, cc) = elem(c, "condition", &["number", "type", "coverage"])?;
                if !cc.is_empty() || ca[0].1 != i.to_string() || ca[1].1 != "jump" {
                    return Err(format!("condition {} of line {} is {:?}", i, number, ca));
                }
                v.push(match ca[2].1.as_str() {
                    "1" => true,
                    "0" => false,
                    o => return Err(format!("condition coverage {:?}", o)),
                });
            }
            Some(v)
        } else {
            if !ck.is_empty() {
                return Err("a plain line has children".into());
            }
            None
        };
        out.push(DLine { number, hits, conds });
    }
    Ok(out)
}

fn typed_doc(x: &X) -> Result<DDoc, String> {
    const RATES: [&str; 3] = ["line-rate", "branch-rate", "complexity"];
    let (a, kids) = elem(
        x,
        "coverage",
        &["lines-covered", "lines-valid", "line-rate", "branches-covered", "branches-valid", "branch-rate", "complexity", "version", "timestamp"],
    )?;
    let num = |s: &str| -> Result<u64, String> { s.parse::<u64>().map_err(|_| format!("not an integer: {:?}", s)) };
    if a[6].1 != "0" || a[7].1 != "1.9" {
        return Err("complexity/version of <coverage>".into());
    }
    if kids.len() != 2 {
        return Err("<coverage> must have <sources> and <packages>".into());
    }
    let (_, ss) = elem(&kids[0], "sources", &[])?;
    let mut sources = vec![];
    for s in ss {
        let (_, t) = elem(s, "source", &[])?;
        match t.as_slice() {
            [X::T(p)] => sources.push(p.clone()),
            _ => return Err("<source> without its text".into()),
        }
    }
    let (_, ps) = elem(&kids[1], "packages", &[])?;
    let mut packages = vec![];
    for p in ps {
        let (pa, pk) = elem(p, "package", &["name", RATES[0], RATES[1], RATES[2]])?;
        if pa[3].1 != "0" || pk.len() != 1 {
            return Err("<package> complexity / children".into());
        }
        let (_, cs) = elem(&pk[0], "classes", &[])?;
        let mut classes = vec![];
        for c in cs {
            let (ca, ck) = elem(c, "class", &["name", "filename", RATES[0], RATES[1], RATES[2]])?;
            if ca[4].1 != "0" || ck.len() != 2 {
                return Err("<class> complexity / children".into());
            }
            let (_, ms) = elem(&ck[0], "methods", &[])?;
            let mut methods = vec![];
            for m in ms {
                let (ma, mk) = elem(m, "method", &["name", "signature", RATES[0], RATES[1], RATES[2]])?;
                if !ma[1].1.is_empty() || ma[4].1 != "0" || mk.len() != 1 {
                    return Err("<method> signature / complexity / children".into());
                }
                methods.push(DMethod { name: ma[0].1.clone(), lines: typed_lines(&mk[0])? });
            }
            classes.push(DClass { name: ca[0].1.clone(), filename: ca[1].1.clone(), methods, lines: typed_lines(&ck[1])? });
        }
        packages.push(DPackage { name: pa[0].1.clone(), classes });
    }
    Ok(DDoc {
        sources,
        packages,
        lines_covered: num(&a[0].1)?,
        lines_valid: num(&a[1].1)?,
        branches_covered: num(&a[3].1)?,
        branches_valid: num(&a[4].1)?,
    })
}

/// `Path::file_stem` restated on the text of a unix path
fn stem_of(path: &str) -> String {
    let comps: Vec<&str> = path.split('/').filter(|c| !c.is_empty() && *c != ".").collect();
    match comps.last() {
        None => String::new(),
        Some(&"..") => String::new(),
        Some(n) => match n.rfind('.') {
            None | Some(0) => n.to_string(),
            Some(i) => n[..i].to_string(),
        },
    }
}

fn want_line(c: &CovResult, l: u32) -> DLine {
    DLine { number: l, hits: c.lines[&l], conds: c.branches.get(&l).cloned() }
}

/// the lines function `f` owns: from its start line up to the next greater start line
fn range_of(c: &CovResult, f: &Function) -> (u32, Option<u32>) {
    (f.start, c.functions.values().map(|g| g.start).filter(|s| *s > f.start).min())
}
fn in_range(r: (u32, Option<u32>), l: u32) -> bool {
    l >= r.0 && r.1.map(|e| l < e).unwrap_or(true)
}

/// The clauses of the property evaluated on the decoded real cobertura report.
/// Err((finding, what)).
fn cob_oracle(rs: &RS, src: Option<&str>, d: &DDoc) -> Result<(), (Option<&'static str>, String)> {
    let e = |s: String| -> Result<(), (Option<&'static str>, String)> { Err((None, s)) };
    if d.sources != vec![src.unwrap_or(".").to_string()] {
        return e(format!("sources {:?}", d.sources));
    }
    if d.packages.len() != rs.len() {
        return e(format!("{} packages for {} result files (a file added or dropped)", d.packages.len(), rs.len()));
    }
    let (mut lv, mut lc, mut bv, mut bc) = (0u64, 0u64, 0u64, 0u64);
    for (p, (_, rel, c)) in d.packages.iter().zip(rs.iter()) {
        let rel = rel.to_str().unwrap();
        if p.name != rel || p.classes.len() != 1 {
            return e(format!("package {:?} for file {:?} with {} classes (one package and one class per file, in order)", p.name, rel, p.classes.len()));
        }
        let k = &p.classes[0];
        if k.filename != rel || k.name != stem_of(rel) {
            return e(format!("class name {:?} filename {:?} for file {:?}", k.name, k.filename, rel));
        }
        // class lines: exactly the instrumented lines, ascending, with hits and the branch vector
        let want: Vec<DLine> = c.lines.keys().map(|l| want_line(c, *l)).collect();
        if k.lines != want {
            return e(format!("class lines of {:?} differ from the instrumented lines with their hits and branch vectors: {:?} instead of {:?}", rel, k.lines, want));
        }
        lv += want.len() as u64;
        lc += want.iter().filter(|l| l.hits > 0).count() as u64;
        bv += want.iter().map(|l| l.conds.as_ref().map(|v| v.len()).unwrap_or(0) as u64).sum::<u64>();
        bc += want.iter().map(|l| l.conds.as_ref().map(|v| v.iter().filter(|b| **b).count()).unwrap_or(0) as u64).sum::<u64>();
        // methods: one per function, by name
        let mut got_names: Vec<&str> = k.methods.iter().map(|m| m.name.as_str()).collect();
        got_names.sort();
        let mut want_names: Vec<&str> = c.functions.keys().map(|s| s.as_str()).collect();
        want_names.sort();
        if got_names != want_names {
            return e(format!("methods {:?} for functions {:?} (a function added, dropped or duplicated)", got_names, want_names));
        }
        let mut owners: BTreeMap<u32, BTreeSet<u32>> = BTreeMap::new();
        for m in &k.methods {
            let f = &c.functions[&m.name];
            let r = range_of(c, f);
            let want: Vec<DLine> = c.lines.keys().filter(|l| in_range(r, **l)).map(|l| want_line(c, *l)).collect();
            if m.lines != want {
                return e(format!("method {:?} (start {}) of {:?} lists {:?}; its range [{}, {:?}) holds {:?}", m.name, f.start, rel, m.lines, r.0, r.1, want));
            }
            for l in &m.lines {
                if !k.lines.contains(l) {
                    return e(format!("method line {:?} is not a class line with the same hits/conditions", l));
                }
                owners.entry(l.number).or_default().insert(f.start);
            }
        }
        let first = c.functions.values().map(|f| f.start).min();
        for l in c.lines.keys() {
            let n = owners.get(l).map(|s| s.len()).unwrap_or(0);
            if n > 1 {
                return e(format!("line {} belongs to methods of {} different start lines", l, n));
            }
            let should = first.map(|s| *l >= s).unwrap_or(false);
            if should != (n == 1) {
                return e(format!("line {} of {:?}: first function start {:?}, but it is in methods of {} start lines", l, rel, first, n));
            }
        }
    }
    if (d.lines_valid, d.lines_covered, d.branches_valid, d.branches_covered) != (lv, lc, bv, bc) {
        return e(format!(
            "coverage totals valid/covered lines {}/{} branches {}/{} but the class lines give {}/{} and {}/{} (a line counted twice through a method?)",
            d.lines_valid, d.lines_covered, d.branches_valid, d.branches_covered, lv, lc, bv, bc
        ));
    }
    // full fidelity: every branch vector is in the report (known finding when it has no line entry)
    for (_, rel, c) in rs {
        for l in c.branches.keys() {
            if !c.lines.contains_key(l) {
                return Err((Some(KNOWN_BRANCH), format!("the branch vector on line {} of {:?} (a line without a line entry) is not in the report", l, rel)));
            }
        }
    }
    Ok(())
}

// ---- ade -------------------------------------------------------------------------------------
#[derive(Clone, Debug, PartialEq)]
struct Lists {
    cov: Vec<u32>,
    unc: Vec<u32>,
    tc: u64,
    tu: u64,
}
#[derive(Clone, Debug)]
struct ARec {
    file: String,
    /// Some(name) for a function record
    name: Option<String>,
    /// the "file" lists of a file record
    file_lists: Option<Lists>,
    method: Lists,
}

fn keyset(v: &Value) -> Vec<String> {
    v.as_object().map(|o| o.keys().cloned().collect::<BTreeSet<_>>().into_iter().collect()).unwrap_or_default()
}

fn lists_of(v: &Value) -> Result<Lists, String> {
    let arr = |x: &Value| -> Result<Vec<u32>, String> {
        x.as_array().ok_or("covered/uncovered is not an array")?.iter().map(|n| n.as_u64().filter(|n| *n <= u32::MAX as u64).map(|n| n as u32).ok_or_else(|| "line number not a u32".to_string())).collect()
    };
    Ok(Lists {
        cov: arr(&v["covered"])?,
        unc: arr(&v["uncovered"])?,
        tc: v["total_covered"].as_u64().ok_or("total_covered")?,
        tu: v["total_uncovered"].as_u64().ok_or("total_uncovered")?,
    })
}

fn parse_ade(text: &str) -> Result<Vec<ARec>, String> {
    let mut out = vec![];
    for l in text.lines() {
        let v: Value = serde_json::from_str(l).map_err(|e| format!("invalid JSON line: {}", e))?;
        if v["language"] != json!("c/c++") {
            return Err("language".into());
        }
        let file = v["file"]["name"].as_str().ok_or("file.name")?.to_string();
        let lk = ["covered", "percentage_covered", "total_covered", "total_uncovered", "uncovered"];
        if v.get("is_file").is_some() {
            if v["is_file"] != json!(true) || keyset(&v) != ["file", "is_file", "language", "method"] {
                return Err(format!("keys of a file record: {:?}", keyset(&v)));
            }
            let mut fk = lk.to_vec();
            fk.push("name");
            fk.sort();
            if keyset(&v["file"]) != fk || keyset(&v["method"]) != lk {
                return Err(format!("keys of file/method objects of a file record: {:?} {:?}", keyset(&v["file"]), keyset(&v["method"])));
            }
            out.push(ARec { file, name: None, file_lists: Some(lists_of(&v["file"])?), method: lists_of(&v["method"])? });
        } else {
            let mut mk = lk.to_vec();
            mk.push("name");
            mk.sort();
            if keyset(&v) != ["file", "language", "method"] || keyset(&v["file"]) != ["name"] || keyset(&v["method"]) != mk {
                return Err(format!("keys of a function record: {:?} {:?} {:?}", keyset(&v), keyset(&v["file"]), keyset(&v["method"])));
            }
            out.push(ARec { file, name: Some(v["method"]["name"].as_str().ok_or("method.name")?.to_string()), file_lists: None, method: lists_of(&v["method"])? });
        }
    }
    Ok(out)
}

fn show_u32s(v: &[u32]) -> String {
    v.iter().map(|x| x.to_string()).collect::<Vec<_>>().join(",")
}
fn show_lists(l: &Lists) -> String {
    format!("{}|{}|{}|{}", show_u32s(&l.cov), show_u32s(&l.unc), l.tc, l.tu)
}

/// the driver's text: the function records of a file in document order, then its file record
fn canon_ade(recs: &[ARec]) -> String {
    let mut out = vec!["ok".to_string()];
    let mut group: Vec<&ARec> = vec![];
    for r in recs {
        match &r.file_lists {
            None => group.push(r),
            Some(fl) => {
                for m in group.drain(..) {
                    out.push(format!("M{}|{}|{}", hex(m.file.as_bytes()), hex(m.name.as_ref().unwrap().as_bytes()), show_lists(&m.method)));
                }
                out.push(format!("F{}|{}|{}", hex(r.file.as_bytes()), show_lists(fl), show_lists(&r.method)));
            }
        }
    }
    for m in group {
        out.push(format!("M{}|{}|{}  (function record without a file record)", hex(m.file.as_bytes()), hex(m.name.as_ref().unwrap().as_bytes()), show_lists(&m.method)));
    }
    out.join(" ")
}

fn ade_oracle(rs: &RS, recs: &[ARec]) -> Result<(), String> {
    let mut it = recs.iter();
    for (_, rel, c) in rs {
        let rel = rel.to_str().unwrap();
        let cov: Vec<u32> = c.lines.iter().filter(|(_, n)| **n > 0).map(|(l, _)| *l).collect();
        let unc: Vec<u32> = c.lines.iter().filter(|(_, n)| **n == 0).map(|(l, _)| *l).collect();
        let mut names = BTreeSet::new();
        let mut claimed: BTreeSet<u32> = BTreeSet::new();
        for _ in 0..c.functions.len() {
            let r = it.next().ok_or("records missing")?;
            let name = r.name.as_ref().ok_or_else(|| format!("file record of {:?} before all its function records", rel))?;
            if r.file != rel {
                return Err(format!("function record {:?} carries file {:?} inside the records of {:?}", name, r.file, rel));
            }
            let f = c.functions.get(name).ok_or_else(|| format!("record of an unknown function {:?}", name))?;
            if !names.insert(name.clone()) {
                return Err(format!("function {:?} recorded twice", name));
            }
            let rg = range_of(c, f);
            let wc: Vec<u32> = cov.iter().cloned().filter(|l| in_range(rg, *l)).collect();
            let wu: Vec<u32> = unc.iter().cloned().filter(|l| in_range(rg, *l)).collect();
            let want = Lists { tc: wc.len() as u64, tu: wu.len() as u64, cov: wc, unc: wu };
            if r.method != want {
                return Err(format!("function {:?} (start {}) of {:?}: {:?} instead of {:?}", name, f.start, rel, r.method, want));
            }
            claimed.extend(want.cov.iter().chain(want.unc.iter()));
        }
        let r = it.next().ok_or_else(|| format!("file record of {:?} missing", rel))?;
        let fl = r.file_lists.as_ref().ok_or_else(|| format!("more function records than functions in {:?}", rel))?;
        if r.file != rel {
            return Err(format!("file record {:?} where {:?} was expected (order / attribution)", r.file, rel));
        }
        let want = Lists { tc: cov.len() as u64, tu: unc.len() as u64, cov: cov.clone(), unc: unc.clone() };
        if *fl != want {
            return Err(format!("file lists of {:?}: {:?} instead of {:?}", rel, fl, want));
        }
        let oc: Vec<u32> = cov.iter().cloned().filter(|l| !claimed.contains(l)).collect();
        let ou: Vec<u32> = unc.iter().cloned().filter(|l| !claimed.contains(l)).collect();
        let want = Lists { tc: oc.len() as u64, tu: ou.len() as u64, cov: oc, unc: ou };
        if r.method != want {
            return Err(format!("orphan lists of {:?}: {:?} instead of {:?}", rel, r.method, want));
        }
        // partition: every instrumented line is claimed or orphan, never both (by construction of
        // `want` above once the lists agree); covered/uncovered disjoint and complete
        let all: BTreeSet<u32> = fl.cov.iter().chain(fl.unc.iter()).cloned().collect();
        if all.len() != fl.cov.len() + fl.unc.len() || all != c.lines.keys().cloned().collect::<BTreeSet<u32>>() {
            return Err(format!("covered and uncovered of {:?} do not partition the instrumented lines", rel));
        }
    }
    if it.next().is_some() {
        return Err("more records than files and functions".into());
    }
    Ok(())
}

// ---- one case --------------------------------------------------------------------------------
pub(crate) struct Obs {
    /// canonical trees of cobertura plain / pretty, and of ade; "panic" when the writer panicked
    pub(crate) cob: [String; 2],
    pub(crate) ade: String,
    /// (format, finding, what)
    pub(crate) oracle: Vec<(String, Option<&'static str>, String)>,
}

fn observe(rs: &RS, src: Option<&str>, out: &Path) -> Obs {
    let _ = std::fs::create_dir_all(out); // another run of this binary may have wiped the work directory
    let read = |p: &Path| std::fs::read_to_string(p).unwrap_or_default();
    let will_panic = rs.iter().any(|r| r.2.lines.keys().last() == Some(&u32::MAX));
    let mut o = Obs { cob: [String::new(), String::new()], ade: String::new(), oracle: vec![] };
    for (i, pretty) in [false, true].into_iter().enumerate() {
        let fmt = if pretty { "cobertura-pretty" } else { "cobertura" };
        let p = out.join("cobade.xml");
        let _ = std::fs::remove_file(&p);
        let srcp = src.map(PathBuf::from);
        match guarded(|| output_cobertura(srcp.as_deref(), rs, Some(&p), false, pretty)) {
            Err(e) => {
                o.cob[i] = "panic".into();
                if !will_panic {
                    o.oracle.push((fmt.into(), None, format!("writer panicked: {}", e)));
                }
            }
            Ok(()) => match parse_xml(&read(&p)) {
                Err(e) => {
                    o.cob[i] = format!("undecodable: {}", e);
                    o.oracle.push((fmt.into(), None, format!("output is not a well-formed document: {}", e)));
                }
                Ok(x) => {
                    let mut s = String::from("ok ");
                    canon_xml(&x, &mut s);
                    o.cob[i] = s;
                    match typed_doc(&x) {
                        Err(e) => o.oracle.push((fmt.into(), None, format!("document structure: {}", e))),
                        Ok(d) => {
                            if let Err((f, w)) = cob_oracle(rs, src, &d) {
                                o.oracle.push((fmt.into(), f, w));
                            }
                        }
                    }
                }
            },
        }
    }
    let p = out.join("cobade.json");
    let _ = std::fs::remove_file(&p);
    match guarded(|| output_activedata_etl(rs, Some(&p), false)) {
        Err(e) => {
            o.ade = "panic".into();
            if !will_panic {
                o.oracle.push(("ade".into(), None, format!("writer panicked: {}", e)));
            }
        }
        Ok(()) => match parse_ade(&read(&p)) {
            Err(e) => {
                o.ade = format!("undecodable: {}", e);
                o.oracle.push(("ade".into(), None, format!("cannot decode: {}", e)));
            }
            Ok(recs) => {
                o.ade = canon_ade(&recs);
                if let Err(w) = ade_oracle(rs, &recs) {
                    o.oracle.push(("ade".into(), None, w));
                }
            }
        },
    }
    o
}

fn requests(rs: &RS, src: Option<&str>) -> [String; 2] {
    let s = shown(rs);
    let sp = if s.is_empty() { String::new() } else { format!(" {}", s) };
    [
        format!("c03.cob.tree {}{}", src.map(|s| format!("S{}", hex(s.as_bytes()))).unwrap_or("-".into()), sp),
        format!("c03.ade{}", sp),
    ]
}

/// which of the three outputs differ from the model (one driver call)
pub(crate) fn differs(rs: &RS, src: Option<&str>, workdir: &Path) -> (Obs, Vec<&'static str>) {
    let o = observe(rs, src, &workdir.join("cobade_out"));
    let ans = run_model(&requests(rs, src), workdir, "c03cobade1");
    let mut v = vec![];
    if o.cob[0] != ans[0] {
        v.push("cobertura");
    }
    if o.cob[1] != ans[0] {
        v.push("cobertura-pretty");
    }
    if o.ade != ans[1] {
        v.push("ade");
    }
    (o, v)
}

/// greedy shrinking of a failing result set: drop files, then single lines / branches / functions
fn shrink(rs: &RS, still_fails: &mut dyn FnMut(&RS) -> bool) -> RS {
    let mut cur = rs.clone();
    let mut budget = 150;
    loop {
        let mut progressed = false;
        let mut cands: Vec<RS> = vec![];
        for i in 0..cur.len() {
            let mut c = cur.clone();
            c.remove(i);
            cands.push(c);
        }
        for i in 0..cur.len() {
            for l in cur[i].2.lines.keys() {
                let mut c = cur.clone();
                c[i].2.lines.remove(l);
                cands.push(c);
            }
            for l in cur[i].2.branches.keys() {
                let mut c = cur.clone();
                c[i].2.branches.remove(l);
                cands.push(c);
            }
            for n in cur[i].2.functions.keys() {
                let mut c = cur.clone();
                c[i].2.functions.remove(n);
                cands.push(c);
            }
        }
        for c in cands {
            if budget == 0 {
                return cur;
            }
            budget -= 1;
            if still_fails(&c) {
                cur = c;
                progressed = true;
                break;
            }
        }
        if !progressed {
            return cur;
        }
    }
}

fn case_json(op: &str, rs: &RS, src: Option<&str>, extra: Value) -> Value {
    json!({"op": op, "src": src, "results": shown(rs), "detail": extra})
}

fn report_oracle(rep: &mut Report, rs: &RS, src: Option<&str>, fmt: &str, finding: Option<&'static str>, what: &str) {
    // shrink unnamed failures (named findings keep their generated witness)
    let (rs2, what2) = if finding.is_none() {
        let out = rep.workdir.join("cobade_out");
        let fmt_s = fmt.to_string();
        let small = shrink(rs, &mut |c: &RS| observe(c, src, &out).oracle.iter().any(|f| f.0 == fmt_s && f.1.is_none()));
        let w = observe(&small, src, &out).oracle.into_iter().find(|f| f.0 == fmt_s && f.1.is_none()).map(|f| f.2).unwrap_or_else(|| what.to_string());
        (small, w)
    } else {
        (rs.clone(), what.to_string())
    };
    rep.fail("oracle", finding, format!("{}: {}", fmt, what2), case_json("c03.cobade", &rs2, src, json!({"format": fmt})));
}

fn stem_stream(rep: &mut Report, rng: &mut Rng) {
    let alphabet = ["a", "b", ".", ".", "/", "/", "é", " ", "語", ".."];
    let mut reqs = vec![];
    let mut want = vec![];
    let mut paths = vec![];
    for p in XPATHS {
        paths.push(p.to_string());
    }
    for _ in 0..rep.budget(300, 10) {
        let n = rng.range(0, 9);
        paths.push((0..n).map(|_| *rng.pick(&alphabet)).collect::<String>());
    }
    for p in paths {
        let std_stem = Path::new(&p).file_stem().map(|s| s.to_str().unwrap().to_string()).unwrap_or_default();
        if std_stem != stem_of(&p) {
            rep.fail("oracle", None, format!("harness: the restated file_stem differs from std on {:?}", p), json!({"op": "c03.cob.stem", "path": p}));
        }
        let last_comp = p.split('/').filter(|c| !c.is_empty() && *c != ".").last().unwrap_or("");
        rep.count(if std_stem.is_empty() { "stem.empty" } else if std_stem.len() < last_comp.len() { "stem.extension_cut" } else { "stem.whole_name" });
        reqs.push(format!("c03.cob.stem P{}", hex(p.as_bytes())));
        want.push((p, hex(std_stem.as_bytes())));
    }
    let ans = run_model(&reqs, &rep.workdir, "c03stem");
    for (a, (p, w)) in ans.iter().zip(want.iter()) {
        rep.case(&format!("stem {}", p), !w.is_empty());
        if a != w {
            rep.disagreements_checked += 1;
            rep.fail("disagreement", None, format!("class name (file stem) of {:?}: std gives {} and the model {}", p, w, a), json!({"op": "c03.cob.stem", "path": p}));
        }
    }
}

/// demangling ON (the CLI default): result sets with names that really demangle (`dm.rs`: C++
/// overloads, constructor variants, Rust legacy hashes, …; many files have two functions that print
/// alike) through the real `output_cobertura` / `output_activedata_etl`; the documents are compared
/// tree for tree / record for record, IN DOCUMENT ORDER, with the model, which gets the printed
/// names as a table and sorts by the mangled names itself. The structure is checked independently.
fn demangle_stream(rep: &mut Report, rng: &mut Rng) {
    let out = rep.workdir.join("cobade_out");
    let mut dm = crate::dm::Dm::new(&rep.workdir);
    let mut reqs: Vec<String> = vec![];
    let mut got: Vec<(RS, String, String)> = vec![];
    for _ in 0..rep.budget(300, 8) {
        let mut rs = gen_set(rng);
        if rs.iter().any(|r| r.2.lines.keys().last() == Some(&u32::MAX)) {
            continue;
        }
        crate::dm::sprinkle(rng, &mut rs);
        if let Err(e) = dm.resolve_set(&rs) {
            rep.fail("oracle", None, e, case_json("c03.cobade.demangle", &rs, None, json!(null)));
            continue;
        }
        let collide = rs.iter().any(|r| dm.collides(true, &r.2));
        rep.case(&format!("demangle {}", shown(&rs)), collide);
        rep.count("demangle.sets");
        if collide {
            rep.count("demangle.sets_with_two_functions_printing_alike");
        }
        let _ = std::fs::create_dir_all(&out);
        let p = out.join("dm.xml");
        let _ = std::fs::remove_file(&p);
        let ok = guarded(|| output_cobertura(None, &rs, Some(&p), true, false)).is_ok();
        let tree = if ok { parse_xml(&std::fs::read_to_string(&p).unwrap_or_default()) } else { Err("writer panicked".into()) };
        let doc = tree.clone().and_then(|x| typed_doc(&x));
        let good = match &doc {
            Err(_) => false,
            Ok(d) => {
                d.packages.len() == rs.len()
                    && d.packages.iter().zip(rs.iter()).all(|(p, (_, rel, c))| {
                        let mut names: Vec<String> = p.classes.get(0).map(|k| k.methods.iter().map(|m| m.name.clone()).collect()).unwrap_or_default();
                        names.sort();
                        let mut want: Vec<String> = c.functions.keys().map(|n| dm.name(true, n)).collect();
                        want.sort();
                        p.name == rel.to_str().unwrap()
                            && p.classes.len() == 1
                            && p.classes[0].lines == c.lines.keys().map(|l| want_line(c, *l)).collect::<Vec<_>>()
                            && names == want
                    })
            }
        };
        if !good {
            rep.fail("oracle", None, format!("cobertura with demangling: structure or printed method names differ ({:?})", doc.err()), case_json("c03.cobade.demangle", &rs, None, json!(null)));
        }
        let cob = match &tree {
            Ok(x) => {
                let mut s = String::from("ok ");
                canon_xml(x, &mut s);
                s
            }
            Err(e) => format!("undecodable: {}", e),
        };
        let p = out.join("dm.json");
        let _ = std::fs::remove_file(&p);
        let ok = guarded(|| output_activedata_etl(&rs, Some(&p), true)).is_ok();
        let recs = if ok { parse_ade(&std::fs::read_to_string(&p).unwrap_or_default()) } else { Err("writer panicked".into()) };
        let good = match &recs {
            Err(_) => false,
            Ok(v) => v.len() == rs.iter().map(|r| r.2.functions.len() + 1).sum::<usize>() && v.iter().filter(|r| r.file_lists.is_some()).map(|r| r.file.as_str()).collect::<Vec<_>>() == rs.iter().map(|r| r.1.to_str().unwrap()).collect::<Vec<_>>(),
        };
        if !good {
            rep.fail("oracle", None, format!("ade with demangling: structure differs ({:?})", recs.as_ref().err()), case_json("c03.cobade.demangle", &rs, None, json!(null)));
        }
        let ade = match &recs {
            Ok(v) => canon_ade(v),
            Err(e) => format!("undecodable: {}", e),
        };
        let s = shown(&rs);
        let d = dm.arg(true, &rs);
        reqs.push(format!("c03.cob.tree - {} {}", d, s).trim_end().to_string());
        reqs.push(format!("c03.ade {} {}", d, s).trim_end().to_string());
        got.push((rs, cob, ade));
    }
    let ans = run_model(&reqs, &rep.workdir, "c03cobadedm");
    for (k, (rs, cob, ade)) in got.iter().enumerate() {
        for (fmt, real, model) in [("cobertura", cob, &ans[2 * k]), ("ade", ade, &ans[2 * k + 1])] {
            rep.count(&format!("demangle.tie.{}", fmt));
            if real != model {
                rep.disagreements_checked += 1;
                rep.fail(
                    "disagreement",
                    None,
                    format!("{} with demangling on: the document written by the implementation differs from the CobAde model (functions listed by mangled name, printed demangled)", fmt),
                    json!({"op": "c03.cobade.demangle", "results": shown(rs), "request": reqs[2 * k + if fmt == "ade" { 1 } else { 0 }], "impl": real.chars().take(1500).collect::<String>(), "model": model.chars().take(1500).collect::<String>()}),
                );
            }
        }
    }
}

fn distribution(rep: &mut Report, rs: &RS) -> bool {
    let mut nontrivial = false;
    for (_, _, c) in rs {
        let starts: Vec<u32> = c.functions.values().map(|f| f.start).collect();
        let uniq: BTreeSet<u32> = starts.iter().cloned().collect();
        let last = c.lines.keys().last().cloned();
        if uniq.len() < starts.len() {
            rep.count("cobade.shared_function_start");
            nontrivial = true;
        }
        if starts.iter().any(|s| Some(*s) > last) {
            rep.count("cobade.function_after_last_line");
        }
        if starts.contains(&0) {
            rep.count("cobade.function_start_0");
        }
        if let (Some(first), Some(min)) = (c.lines.keys().next(), uniq.iter().next()) {
            if first < min {
                rep.count("cobade.lines_before_first_function");
                nontrivial = true;
            }
        }
        if c.functions.is_empty() && !c.lines.is_empty() {
            rep.count("cobade.lines_without_functions");
        }
        if c.branches.keys().any(|l| c.lines.contains_key(l)) {
            rep.count("cobade.branch_on_line_entry");
        }
        if c.branches.keys().any(|l| !c.lines.contains_key(l)) {
            rep.count("cobade.branch_without_line_entry");
        }
        if c.branches.values().any(|v| v.is_empty()) {
            rep.count("cobade.empty_branch_vector");
        }
        if c.lines.values().any(|n| *n >= u64::MAX - 1) {
            rep.count("cobade.count_near_2^64");
            nontrivial = true;
        }
        if c.functions.keys().any(|n| !n.is_ascii()) {
            rep.count("cobade.non_ascii_function_name");
        }
        if last == Some(u32::MAX) {
            rep.count("cobade.last_line_2^32-1(panic)");
        }
        if uniq.len() >= 2 {
            nontrivial = true;
        }
    }
    rep.count(&format!("cobade.files={}", rs.len()));
    nontrivial
}

pub fn run(rep: &mut Report) {
    rep.rule.push_str(
        " | CobAde: result sets of 0-5 files (paths with dots, hidden names, trailing slashes, `..`, non-ASCII), lines 0-30 with \
         gaps and counts up to 2^64-1, branch vectors (also empty) on and off line entries, 0-6 functions with shared start lines, \
         start 0, starts after the last line, lines before the first function, frequent non-ASCII names, rarely a last line of \
         2^32-1; real output_cobertura (plain+pretty) and output_activedata_etl parsed generically and compared tree-for-tree with \
         the Lean model; non-trivial = two or more distinct function starts, a shared start, lines before the first function or a \
         count >= 2^64-2",
    );
    let t0 = std::time::Instant::now();
    let mut rng = Rng::new(rep.seed ^ 0xC03_C0BADE);
    let out = rep.workdir.join("cobade_out");
    std::fs::create_dir_all(&out).unwrap();
    stem_stream(rep, &mut rng);
    let n = rep.budget(4000, 10);
    let mut cases: Vec<(RS, Option<&'static str>, Obs)> = vec![];
    let mut reqs: Vec<String> = vec![];
    for i in 0..n {
        if rep.verdict_clear() {
            break;
        }
        let mut rs = gen_set(&mut rng);
        if i == 0 {
            // the closed witnesses of Props/C03CobAde.lean
            let mut c = CovResult::default();
            for (l, h) in [(1u32, 5u64), (2, 0), (3, u64::MAX), (7, 1)] {
                c.lines.insert(l, h);
            }
            c.branches.insert(2, vec![true, false]);
            for (name, start) in [("f", 2u32), ("g", 2), ("h", 7), ("z", 9)] {
                c.functions.insert(name.to_string(), Function { start, executed: true });
            }
            rs = vec![(PathBuf::from("/src_root/src/a.b.c"), PathBuf::from("src/a.b.c"), c)];
        }
        let src = match rng.below(4) {
            0 => Some("/src root/é"),
            1 => Some("rel/dir"),
            _ => None,
        };
        let nontrivial = distribution(rep, &rs);
        rep.case(&format!("cobade {:?} {}", src, shown(&rs)), nontrivial);
        let o = observe(&rs, src, &out);
        if i == 1 || i == 2 {
            rep.sample(json!({"request": requests(&rs, src)[1], "impl": o.ade}));
        }
        let mut seen_known = false;
        for (fmt, finding, what) in o.oracle.clone() {
            if finding.is_some() {
                // the known finding: report it once per run through this stream (the main stream
                // reports it too); it does not hide a disagreement with the model below
                if !seen_known && !rep.findings_seen.contains(KNOWN_BRANCH) {
                    report_oracle(rep, &rs, src, &fmt, finding, &what);
                }
                seen_known = true;
            } else {
                report_oracle(rep, &rs, src, &fmt, None, &what);
            }
        }
        reqs.extend(requests(&rs, src));
        cases.push((rs, src, o));
    }
    let ans = run_model(&reqs, &rep.workdir, "c03cobade");
    let mut shrunk = 0;
    for (k, (rs, src, o)) in cases.iter().enumerate() {
        let (mc, ma) = (&ans[2 * k], &ans[2 * k + 1]);
        if mc == "panic" {
            rep.count("cobade.model_panic");
        }
        let unnamed_oracle = o.oracle.iter().any(|f| f.1.is_none());
        let mut bad = vec![];
        if &o.cob[0] != mc {
            bad.push("cobertura");
        }
        if &o.cob[1] != mc {
            bad.push("cobertura-pretty");
        }
        if &o.ade != ma {
            bad.push("ade");
        }
        if bad.is_empty() || unnamed_oracle {
            // an oracle failure on this case has been reported as such: that is the failing input
            continue;
        }
        rep.disagreements_checked += 1;
        let (small, bad2) = if shrunk < 3 {
            shrunk += 1;
            let wd = rep.workdir.clone();
            let first = bad[0];
            let s = shrink(rs, &mut |c: &RS| differs(c, *src, &wd).1.contains(&first));
            let b = differs(&s, *src, &wd);
            (s, b.1)
        } else {
            (rs.clone(), bad.clone())
        };
        let (o2, _) = differs(&small, *src, &rep.workdir);
        let a2 = run_model(&requests(&small, *src), &rep.workdir, "c03cobade1");
        rep.fail(
            "disagreement",
            None,
            format!("{:?}: the document written by the implementation differs from the CobAde model", bad2),
            case_json("c03.cobade", &small, *src, json!({"impl_cobertura": o2.cob[0], "impl_cobertura_pretty": o2.cob[1], "model_cobertura": a2[0], "impl_ade": o2.ade, "model_ade": a2[1]})),
        );
    }
    demangle_stream(rep, &mut rng);
    rep.notes.push(format!("CobAde streams: {} result sets, {:.1} s", n, t0.elapsed().as_secs_f64()));
}

pub fn replay(rep: &mut Report, case: &Value) {
    let op = case["op"].as_str().unwrap_or("");
    if op == "c03.cobade.demangle" {
        rep.notes.push("replay of a demangle-on CobAde case: re-run ./check C03 with the same seed (the request is in the case)".into());
        return;
    }
    if op.starts_with("c03.cobbytes") {
        return crate::cobbytes::replay(rep, case);
    }
    if op == "c03.cob.stem" {
        let p = case["path"].as_str().unwrap_or("");
        let std_stem = Path::new(p).file_stem().map(|s| s.to_str().unwrap().to_string()).unwrap_or_default();
        let a = run_model(&[format!("c03.cob.stem P{}", hex(p.as_bytes()))], &rep.workdir, "c03stem");
        rep.case(&format!("stem {}", p), true);
        if a[0] != hex(std_stem.as_bytes()) {
            rep.fail("disagreement", None, format!("class name of {:?}: std {} model {}", p, hex(std_stem.as_bytes()), a[0]), case.clone());
        }
        return;
    }
    let rs = parse_shown(case["results"].as_str().unwrap_or(""));
    let src = case["src"].as_str();
    std::fs::create_dir_all(rep.workdir.join("cobade_out")).unwrap();
    rep.case(&format!("cobade {:?} {}", src, shown(&rs)), true);
    let (o, bad) = differs(&rs, src, &rep.workdir);
    for (fmt, finding, what) in &o.oracle {
        rep.fail("oracle", *finding, format!("{}: {}", fmt, what), case.clone());
    }
    if !bad.is_empty() && !o.oracle.iter().any(|f| f.1.is_none()) {
        rep.disagreements_checked += 1;
        rep.fail("disagreement", None, format!("{:?}: the document written by the implementation differs from the CobAde model", bad), case.clone());
    }
    rep.notes.push(format!("replayed a CobAde case: cobertura {} / ade {}", &o.cob[0].chars().take(60).collect::<String>(), &o.ade.chars().take(60).collect::<String>()));
}
