//! C03, part Docs — document structure of the Coveralls(+), covdir, files, Markdown and HTML
//! writers. Every generated result set goes through the REAL `output_*` functions; the bytes are
//! parsed by independent readers (serde_json value tree, a markdown table scanner, the html row
//! scanner, a directory listing of the html output) and printed in the canonical text the Lean
//! driver ops `c03.docs.*` print for the model `Writers/Docs.lean`; the two texts must be equal
//! document for document. Independently of the model, the clauses of C03 are evaluated on the
//! decoded real output (oracles): files in order / found at their own place with their own lines,
//! branches, functions; nothing added, dropped, duplicated or attributed to another file.
use corrlib::*;
use grcov::*;
use serde_json::{json, Value};
use std::collections::{BTreeMap, BTreeSet};
use std::path::{Component, Path, PathBuf};

type RS = Vec<(PathBuf, PathBuf, CovResult)>;

const DIRS: &[&str] = &["", "", "src", "src/lib", "deep/er/tree", "deep/er", "naïve", "日本", "with space", "lib"];
/// directories named like a page FILE (`<file>.html`) or like an index file (second review, item 20);
/// used by the html cases only, one level deep (one level deeper `create_parent` panics and
/// `output_html` calls `process::exit`, which would end the harness)
const HTML_DIRS: &[&str] = &["a.c.html", "src/main.c.html", "index.html", "lib/index.html", "src/lib/index.html"];
pub const KNOWN_PAGE_DIR: &str = "C03-html-page-dir-collision";
pub const KNOWN_INDEX_DIR: &str = "C03-html-dir-named-index-html";
const NAMES: &[&str] = &[
    "main.c", "util.c", "a.c", "x.rs", "Makefile", ".hidden", "ünï.c", "語.c", "index", "index.html", "f.tar.gz", "top.js", "y.rs", "mod.rs",
    // names a URI treats specially (second review, item 21): the index rows link to them unencoded
    "p%41.c", "pA.c", "x#y.c", "q?z.c",
    // a table-cell separator inside a name (item 36): markdown does not escape it
    "a|b.c",
];
pub const KNOWN_LINKS: &str = "C03-html-links-not-urlencoded";

/// what a user agent and a file server make of a relative reference `./…` (RFC 3986): cut at the
/// first `#` (fragment), then at the first `?` (query), the path percent-decoded
fn served_rel(url: &str) -> String {
    let p = url.split('#').next().unwrap_or("");
    let p = p.split('?').next().unwrap_or("");
    let p = p.strip_prefix("./").unwrap_or(p).as_bytes();
    let hv = |b: u8| (b as char).to_digit(16);
    let mut out = vec![];
    let mut i = 0;
    while i < p.len() {
        if p[i] == b'%' && i + 2 < p.len() + 0 && hv(p[i + 1]).is_some() && hv(p[i + 2]).is_some() {
            out.push((hv(p[i + 1]).unwrap() * 16 + hv(p[i + 2]).unwrap()) as u8);
            i += 3;
        } else {
            out.push(p[i]);
            i += 1;
        }
    }
    String::from_utf8_lossy(&out).to_string()
}
/// names that are also directory names of DIRS: a file named like a sibling directory
const CLASH: &[&str] = &["src", "lib", "deep/er", "src/lib"];

pub(crate) fn gen_cov(rng: &mut Rng, allow_zero: bool) -> CovResult {
    let mut c = CovResult::default();
    let dense = rng.chance(1, 2);
    for _ in 0..rng.below(12) {
        let l = if rng.chance(1, 40) { rng.range(1000, 60000) as u32 } else if dense { rng.range(1, 12) as u32 } else { rng.range(1, 40) as u32 };
        let n = match rng.below(6) {
            0 | 1 => 0,
            2 => *rng.pick(&[u64::MAX, u64::MAX - 1, 1 << 63, (1 << 63) - 1, 1 << 53]),
            _ => rng.below(500),
        };
        c.lines.insert(l, n);
    }
    if allow_zero && rng.chance(1, 25) {
        c.lines.insert(0, rng.below(2));
    }
    for _ in 0..rng.below(4) {
        let l = rng.range(1, 40) as u32;
        let len = rng.range(0, 5);
        c.branches.insert(l, (0..len).map(|_| rng.chance(1, 2)).collect());
    }
    for _ in 0..rng.below(5) {
        c.functions.insert(rng.pick(corrlib::gen::FNS).to_string(), Function { start: rng.range(1, 40) as u32, executed: rng.chance(1, 2) });
    }
    c
}

/// result sets: nested directories, files at the root, absolute rel paths (abs differs from rel),
/// the same file name in different directories, rarely a file named like a sibling directory or
/// the same rel path twice
pub(crate) fn gen_set(rng: &mut Rng, allow_zero: bool, collisions: bool) -> RS {
    let k = rng.below(8);
    let mut out: RS = vec![];
    let mut used = BTreeSet::new();
    for _ in 0..k {
        let rel = if collisions && rng.chance(1, 30) {
            rng.pick(CLASH).to_string()
        } else if rng.chance(1, 12) {
            format!("/abs/{}/{}", rng.pick(&["o", "o/p", "q"]), rng.pick(NAMES))
        } else {
            let d = rng.pick(DIRS);
            let n = rng.pick(NAMES);
            if d.is_empty() { n.to_string() } else { format!("{}/{}", d, n) }
        };
        let dup = collisions && rng.chance(1, 60);
        if !used.insert(rel.clone()) && !dup {
            continue;
        }
        let abs = if rel.starts_with('/') { format!("/mnt{}", rel) } else { format!("/src_root/{}", rel) };
        out.push((PathBuf::from(abs), PathBuf::from(&rel), gen_cov(rng, allow_zero)));
    }
    out
}

pub(crate) fn show_set(rs: &RS) -> String {
    rs.iter()
        .map(|(a, r, c)| format!("R{}={}={}", hex(a.to_str().unwrap().as_bytes()), hex(r.to_str().unwrap().as_bytes()), show_cov(c)))
        .collect::<Vec<_>>()
        .join(" ")
}

fn case_json(op: &str, rs: &RS, extra: Value) -> Value {
    json!({"op": op, "results": show_set(rs), "detail": extra})
}

pub(crate) fn parse_set(s: &str) -> RS {
    s.split(' ')
        .filter(|t| !t.is_empty())
        .map(|t| {
            let p: Vec<&str> = t[1..].split('=').collect();
            (
                PathBuf::from(String::from_utf8(unhex(p[0])).unwrap()),
                PathBuf::from(String::from_utf8(unhex(p[1])).unwrap()),
                parse_cov(p[2]),
            )
        })
        .collect()
}

/// run `f` with `git` out of reach: `output_coveralls` shells out to git for the opaque `git` object
pub(crate) fn without_git<T>(f: impl FnOnce() -> T) -> T {
    let old = std::env::var_os("PATH");
    std::env::set_var("PATH", "/nonexistent-for-c03-docs");
    let r = f();
    match old {
        Some(p) => std::env::set_var("PATH", p),
        None => std::env::remove_var("PATH"),
    }
    r
}

// ---- coveralls ------------------------------------------------------------------------------
fn canon_coveralls(v: &Value) -> Result<String, String> {
    let mut files = vec![];
    for sf in v["source_files"].as_array().ok_or("no source_files")? {
        let name = sf["name"].as_str().ok_or("no name")?;
        let cov: Vec<String> = sf["coverage"]
            .as_array()
            .ok_or("no coverage")?
            .iter()
            .map(|e| if e.is_null() { Ok("n".to_string()) } else { e.as_u64().map(|x| x.to_string()).ok_or("coverage entry not a u64") })
            .collect::<Result<_, _>>()?;
        let br: Vec<String> = sf["branches"].as_array().ok_or("no branches")?.iter().map(|e| e.as_u64().map(|x| x.to_string()).ok_or("branch entry not a u64")).collect::<Result<_, _>>()?;
        let fns = match sf.get("functions") {
            None => "-".to_string(),
            Some(fs) => {
                let mut v: Vec<(Vec<u8>, String)> = vec![];
                for f in fs.as_array().ok_or("functions not an array")? {
                    let n = f["name"].as_str().ok_or("function without name")?;
                    v.push((
                        n.as_bytes().to_vec(),
                        format!("{}:{}:{}", hex(n.as_bytes()), f["start"].as_u64().ok_or("no start")?, if f["exec"].as_bool().ok_or("no exec")? { 1 } else { 0 }),
                    ));
                }
                // document order: the model lists the functions by name itself (`sorted_functions`)
                v.into_iter().map(|x| x.1).collect::<Vec<_>>().join(",")
            }
        };
        files.push(format!("N{};C{};B{};F{}", hex(name.as_bytes()), cov.join(","), br.join(","), fns));
    }
    Ok(format!("ok {}", files.join(" ")).trim_end().to_string())
}

pub(crate) fn canon_coveralls_pub(v: &Value) -> Result<String, String> {
    canon_coveralls(v)
}

/// the clauses of C03 on a decoded Coveralls document (lines >= 1 only: the quantifier of C03)
fn oracle_coveralls(v: &Value, rs: &RS, plus: bool) -> Result<(), String> {
    let sfs = v["source_files"].as_array().ok_or("no source_files")?;
    if sfs.len() != rs.len() {
        return Err(format!("{} source files for {} results", sfs.len(), rs.len()));
    }
    for (sf, (_, rel, c)) in sfs.iter().zip(rs.iter()) {
        if sf["name"].as_str() != rel.to_str() {
            return Err(format!("file {:?} reported as {:?}", rel, sf["name"]));
        }
        let mut lines: BTreeMap<u32, u64> = BTreeMap::new();
        for (i, e) in sf["coverage"].as_array().ok_or("no coverage")?.iter().enumerate() {
            if !e.is_null() {
                lines.insert(i as u32 + 1, e.as_u64().ok_or("count not a u64")?);
            }
        }
        let want: BTreeMap<u32, u64> = c.lines.iter().filter(|(l, _)| **l >= 1).map(|(l, n)| (*l, *n)).collect();
        if lines != want {
            return Err(format!("lines of {:?} differ: decoded {} instrumented lines, expected {}", rel, lines.len(), want.len()));
        }
        let b = sf["branches"].as_array().ok_or("no branches")?;
        if b.len() % 4 != 0 {
            return Err("branches is not a list of quadruples".into());
        }
        let mut vecs: BTreeMap<u32, Vec<bool>> = BTreeMap::new();
        for q in b.chunks(4) {
            let (l, blk, n, t) = (q[0].as_u64().unwrap_or(u64::MAX), q[1].as_u64().unwrap_or(u64::MAX), q[2].as_u64().unwrap_or(u64::MAX), q[3].as_u64().unwrap_or(u64::MAX));
            let v = vecs.entry(l as u32).or_default();
            if blk != 0 || t > 1 || v.len() as u64 != n {
                return Err(format!("bad branch quadruple on line {}", l));
            }
            v.push(t == 1);
        }
        let wantb: BTreeMap<u32, Vec<bool>> = c.branches.iter().filter(|(_, v)| !v.is_empty()).map(|(l, v)| (*l, v.clone())).collect();
        if vecs != wantb {
            return Err(format!("branch vectors of {:?} differ", rel));
        }
        match (plus, sf.get("functions")) {
            (false, None) => {}
            (false, Some(_)) => return Err("plain coveralls carries functions".into()),
            (true, None) => return Err("coveralls+ without functions".into()),
            (true, Some(fs)) => {
                let mut got: Vec<(String, u32, bool)> = fs.as_array().ok_or("functions not an array")?.iter().map(|f| (f["name"].as_str().unwrap_or("").to_string(), f["start"].as_u64().unwrap_or(u64::MAX) as u32, f["exec"].as_bool().unwrap_or(false))).collect();
                let mut want: Vec<(String, u32, bool)> = c.functions.iter().map(|(n, f)| (n.clone(), f.start, f.executed)).collect();
                got.sort();
                want.sort();
                if got != want {
                    return Err(format!("functions of {:?} differ", rel));
                }
            }
        }
    }
    Ok(())
}

// ---- covdir ---------------------------------------------------------------------------------
fn canon_covdir(v: &Value) -> Result<String, String> {
    let name = v["name"].as_str().ok_or("node without name")?;
    if let Some(ch) = v.get("children") {
        let mut kids: Vec<(Vec<u8>, String)> = vec![];
        for (k, c) in ch.as_object().ok_or("children not an object")? {
            kids.push((k.as_bytes().to_vec(), format!("{}={}", hex(k.as_bytes()), canon_covdir(c)?)));
        }
        kids.sort();
        Ok(format!("D{}{{{}}}", hex(name.as_bytes()), kids.into_iter().map(|x| x.1).collect::<Vec<_>>().join(",")))
    } else {
        let cov: Vec<String> = v["coverage"].as_array().ok_or("file node without coverage")?.iter().map(|e| e.to_string()).collect();
        Ok(format!("F{}[{}]", hex(name.as_bytes()), cov.join(",")))
    }
}

/// independent placement: names of the directory chain and the file name (std::path, not grcov)
fn place(rel: &Path, abs: &Path) -> Option<Vec<String>> {
    let p = if rel.is_relative() { rel } else { abs };
    let mut names = vec![];
    for c in p.components() {
        match c {
            Component::RootDir => names.push("/".to_string()),
            Component::Normal(n) => names.push(n.to_str()?.to_string()),
            _ => return None,
        }
    }
    if names.is_empty() || names == ["/"] {
        return None;
    }
    Some(names)
}

fn want_array(c: &CovResult) -> Vec<i128> {
    let last = c.lines.keys().last().cloned().unwrap_or(0) as usize;
    let mut a = vec![-1i128; last];
    for (l, n) in &c.lines {
        if *l >= 1 {
            a[*l as usize - 1] = *n as i128;
        }
    }
    a
}

fn json_array(v: &Value) -> Option<Vec<i128>> {
    v.as_array()?.iter().map(|e| e.as_i64().map(|x| x as i128).or_else(|| e.as_u64().map(|x| x as i128))).collect()
}

fn walk<'a>(v: &'a Value, names: &[String]) -> Option<&'a Value> {
    let mut cur = v;
    for n in names {
        cur = cur.get("children")?.as_object()?.get(n)?;
    }
    Some(cur)
}

fn leaves(v: &Value, prefix: &mut Vec<String>, out: &mut Vec<(Vec<String>, Vec<i128>)>) {
    if let Some(ch) = v.get("children").and_then(|c| c.as_object()) {
        for (k, c) in ch {
            prefix.push(k.clone());
            leaves(c, prefix, out);
            prefix.pop();
        }
    } else if let Some(a) = v.get("coverage").and_then(json_array) {
        out.push((prefix.clone(), a));
    }
}

/// Err((message, is it the name-collision finding))
fn oracle_covdir(v: &Value, rs: &RS) -> Result<(), (String, bool)> {
    let places: Vec<Option<Vec<String>>> = rs.iter().map(|(a, r, _)| place(r, a)).collect();
    for (i, (_, rel, c)) in rs.iter().enumerate() {
        let Some(pl) = &places[i] else { return Err((format!("{:?} cannot be placed", rel), false)) };
        let node = walk(v, pl);
        let ok = node.map(|n| n.get("children").is_none() && n.get("coverage").and_then(json_array) == Some(want_array(c)) && n["name"].as_str() == pl.last().map(|s| s.as_str())).unwrap_or(false);
        if !ok {
            // matcher of C03-covdir-name-collision: another result is filed at the same place, or this
            // file's place is a directory of another result
            let collides = places.iter().enumerate().any(|(j, q)| j != i && q.as_ref().map(|q| q == pl || (q.len() > pl.len() && q[..pl.len()] == pl[..])).unwrap_or(false));
            return Err((format!("{:?} is not found at its place with its own coverage array", rel), collides));
        }
    }
    let mut ls = vec![];
    leaves(v, &mut vec![], &mut ls);
    for (path, arr) in &ls {
        let n = rs.iter().enumerate().filter(|(i, r)| places[*i].as_ref() == Some(path) && &want_array(&r.2) == arr).count();
        if n == 0 {
            return Err((format!("leaf {:?} is not one of the results", path), false));
        }
    }
    let distinct: BTreeSet<&Vec<String>> = places.iter().flatten().collect();
    if ls.len() > distinct.len() {
        return Err(("more leaves than results".into(), false));
    }
    Ok(())
}

// ---- markdown -------------------------------------------------------------------------------
fn parse_ranges(text: &str) -> Result<Vec<(u32, u32)>, String> {
    let mut v = vec![];
    for r in text.split(", ").filter(|r| !r.is_empty()) {
        let (a, b) = match r.split_once('-') {
            Some((a, b)) => (a.parse::<u32>().map_err(|_| "bad range")?, b.parse::<u32>().map_err(|_| "bad range")?),
            None => {
                let x = r.parse::<u32>().map_err(|_| "bad range")?;
                (x, x)
            }
        };
        v.push((a, b));
    }
    Ok(v)
}

/// rows of the table: (file, covered, total, ranges, range text)
fn dec_markdown(text: &str) -> Result<Vec<(String, u64, u64, Vec<(u32, u32)>, String)>, String> {
    let mut rows = vec![];
    for l in text.lines().filter(|l| l.starts_with('|')).skip(2) {
        // a `|` in a path is NOT escaped by the writer (a generic markdown renderer then sees five cells:
        // second review, item 36); the last three cells never contain one, so a reader that knows the
        // table takes them from the right and the rest is the file cell
        let inner = l.strip_prefix('|').and_then(|x| x.strip_suffix('|')).ok_or("row without outer pipes")?;
        let mut right: Vec<&str> = inner.rsplitn(4, '|').collect();
        right.reverse();
        let cells: Vec<String> = right.iter().map(|c| c.trim().to_string()).collect();
        if cells.len() != 4 {
            return Err(format!("row with {} cells", cells.len()));
        }
        let (c, t) = cells[2].split_once(" / ").ok_or("covered cell is not `c / t`")?;
        rows.push((cells[0].clone(), c.parse().map_err(|_| "bad covered")?, t.parse().map_err(|_| "bad total")?, parse_ranges(&cells[3])?, cells[3].clone()));
    }
    Ok(rows)
}

fn oracle_markdown(rows: &[(String, u64, u64, Vec<(u32, u32)>, String)], rs: &RS) -> Result<(), String> {
    if rows.len() != rs.len() {
        return Err(format!("{} rows for {} results", rows.len(), rs.len()));
    }
    for (row, (_, rel, c)) in rows.iter().zip(rs.iter()) {
        if Some(row.0.as_str()) != rel.to_str() {
            return Err(format!("row of {:?} is named {:?}", rel, row.0));
        }
        let missed: BTreeSet<u32> = c.lines.iter().filter(|(l, n)| **n == 0 && **l >= 1).map(|(l, _)| *l).collect();
        let covered: BTreeSet<u32> = c.lines.iter().filter(|(_, n)| **n > 0).map(|(l, _)| *l).collect();
        if row.1 != covered.len() as u64 || row.2 != c.lines.len() as u64 {
            return Err(format!("covered/total of {:?}", rel));
        }
        let mut prev_end = 0u32;
        for (a, b) in &row.3 {
            if !(missed.contains(a) && missed.contains(b) && a <= b) {
                return Err(format!("range {}-{} of {:?} does not start and end at missed lines", a, b, rel));
            }
            if covered.range(*a..=*b).next().is_some() {
                return Err(format!("range {}-{} of {:?} contains a covered line", a, b, rel));
            }
            if *a <= prev_end {
                return Err(format!("ranges of {:?} overlap or are out of order", rel));
            }
            prev_end = *b;
        }
        for l in &missed {
            if row.3.iter().filter(|(a, b)| a <= l && l <= b).count() != 1 {
                return Err(format!("missed line {} of {:?} is not in exactly one range", l, rel));
            }
        }
    }
    Ok(())
}

// ---- html -----------------------------------------------------------------------------------
fn list_files(dir: &Path, rel: &str, out: &mut Vec<String>) {
    let Ok(rd) = std::fs::read_dir(dir) else { return };
    for e in rd.flatten() {
        let name = e.file_name().to_str().unwrap().to_string();
        let r = if rel.is_empty() { name.clone() } else { format!("{}/{}", rel, name) };
        if e.path().is_dir() {
            list_files(&e.path(), &r, out);
        } else {
            out.push(r);
        }
    }
}

/// (kind "Directory"|"File", rows (url, name)) of an index page
fn dec_index(page: &str) -> Result<(String, Vec<(String, String)>), String> {
    let thead = page.find("<thead>").ok_or("index without thead")?;
    let th = page[thead..].find("<th>").ok_or("no th")? + thead + 4;
    let the = page[th..].find("</th>").ok_or("no /th")? + th;
    let kind = page[th..the].trim().to_string();
    let mut rows = vec![];
    let body = page.find("<tbody>").ok_or("index without tbody")?;
    let mut rest = &page[body..];
    while let Some(i) = rest.find("<th><a href=\"") {
        rest = &rest[i + 13..];
        let e = rest.find('"').ok_or("unterminated href")?;
        let url = super::unescape_html(&rest[..e]);
        let s = rest.find('>').ok_or("no >")? + 1;
        let t = rest.find("</a>").ok_or("no /a")?;
        rows.push((url, super::unescape_html(&rest[s..t])));
        rest = &rest[t..];
    }
    Ok((kind, rows))
}

struct HtmlObs {
    /// page path below the output dir ↦ rows (None = not instrumented)
    pages: BTreeMap<String, Vec<Option<u64>>>,
    /// index location (dir path below the output dir) ↦ (kind, rows)
    indexes: BTreeMap<String, (String, Vec<(String, String)>)>,
    /// page path ↦ the text of every row (html-unescaped)
    texts: BTreeMap<String, Vec<String>>,
}

fn observe_html(outd: &Path) -> Result<HtmlObs, String> {
    let mut files = vec![];
    list_files(outd, "", &mut files);
    let mut obs = HtmlObs { pages: BTreeMap::new(), indexes: BTreeMap::new(), texts: BTreeMap::new() };
    for f in files {
        if !f.ends_with(".html") {
            continue;
        }
        let text = std::fs::read_to_string(outd.join(&f)).map_err(|e| e.to_string())?;
        // an index page – or the PAGE of a source file named `index`, which stays a page when the index
        // of its directory is never written (a directory named `index.html` at the root: no index at all)
        if (f == "index.html" || f.ends_with("/index.html")) && text.contains("<thead>") {
            let loc = f.strip_suffix("index.html").unwrap().trim_end_matches('/').to_string();
            obs.indexes.insert(loc, dec_index(&text)?);
        } else {
            let rows = super::dec_html_file(&text)?;
            for (k, r) in rows.iter().enumerate() {
                if r.0 as usize != k + 1 {
                    return Err(format!("rows of {} are not numbered 1,2,…", f));
                }
            }
            obs.texts.insert(f.clone(), rows.iter().map(|r| r.2.clone()).collect());
            obs.pages.insert(f, rows.into_iter().map(|r| r.1).collect());
        }
    }
    Ok(obs)
}

fn canon_html(obs: &HtmlObs) -> String {
    let mut items: Vec<String> = obs
        .pages
        .iter()
        .map(|(p, rows)| format!("P{}[{}]", hex(p.as_bytes()), rows.iter().map(|r| r.map(|x| x.to_string()).unwrap_or("-1".into())).collect::<Vec<_>>().join(",")))
        .collect();
    for (loc, (kind, rows)) in &obs.indexes {
        let mut names: Vec<&[u8]> = rows.iter().map(|r| r.1.as_bytes()).collect();
        names.sort();
        items.push(format!("X{}={}[{}]", hex(loc.as_bytes()), if kind == "Directory" { "G" } else { "I" }, names.iter().map(|n| hex(n)).collect::<Vec<_>>().join(",")));
    }
    format!("ok {}", items.join(" ")).trim_end().to_string()
}

/// where a reader expects the page of `rel`: the index rows link to `./<name>.html`
fn page_path(rel: &str) -> String {
    format!("{}.html", rel)
}

// ---- run ------------------------------------------------------------------------------------
pub fn run(rep: &mut Report) {
    let t0 = std::time::Instant::now();
    rep.rule.push_str(
        "; docs stream: result sets of 0-7 files over nested directories, root files, absolute rel paths (abs path differs), the same \
         file name in several directories, extension-less and dot files, non-ASCII names, rarely a file named like a sibling directory \
         or the same rel path twice, line 0 (1/25), counts up to 2^64-1, one closed witness with line 2^32-1; every set through the real \
         coveralls, coveralls+, covdir, files, markdown writers and every third through html (generated sources, some unreadable), \
         decoded document compared with the Lean document model; non-trivial = >= 3 files or a covdir name collision",
    );
    // corpus first: minimised past failures of this part (corpus/C03/*.json with a `c03.docs.*` op);
    // each is replayed on the current tree: oracles + model tie
    let mut corpus: Vec<PathBuf> = std::fs::read_dir("/verif/corpus/C03")
        .map(|rd| rd.flatten().map(|e| e.path()).filter(|p| p.extension().map(|x| x == "json").unwrap_or(false)).collect())
        .unwrap_or_default();
    corpus.sort();
    for p in corpus {
        let Some(v) = std::fs::read_to_string(&p).ok().and_then(|t| serde_json::from_str::<Value>(&t).ok()) else { continue };
        let case = &v["case"];
        if !case["op"].as_str().map(|o| o.starts_with("c03.docs.")).unwrap_or(false) {
            continue;
        }
        rep.case(&format!("corpus {}", case), true);
        rep.count("docs.corpus.cases");
        replay(rep, case);
    }
    let mut rng = Rng::new(rep.seed ^ 0xC03D0C5);
    let n = rep.budget(180, 20);
    let out = rep.workdir.join("docs_out");
    std::fs::create_dir_all(&out).unwrap();
    let mut reqs: Vec<String> = vec![];
    let mut impl_ans: Vec<String> = vec![];
    let mut cases: Vec<Value> = vec![];
    let read = |p: &Path| std::fs::read_to_string(p).unwrap_or_default();

    let mk = |rel: &str, lines: &[(u32, u64)]| -> (PathBuf, PathBuf, CovResult) {
        let mut c = CovResult::default();
        for (l, n) in lines {
            c.lines.insert(*l, *n);
        }
        (PathBuf::from(format!("/src_root/{}", rel)), PathBuf::from(rel), c)
    };
    // closed witnesses of the Lean `…_false` theorems, replayed on the implementation first
    let witnesses: Vec<(&str, RS)> = vec![
        ("coveralls", vec![mk("a", &[(4294967295, 1)])]),
        ("covdir", vec![mk("a", &[(1, 5)]), mk("a/b", &[(1, 7)])]),
        ("covdir", vec![mk("a", &[(1, 5)]), mk("a", &[(1, 7)])]),
    ];

    for i in 0..(n as usize + witnesses.len()) {
        if rep.verdict_clear() {
            break;
        }
        let (only, rs): (Option<&str>, RS) = if i < witnesses.len() { (Some(witnesses[i].0), witnesses[i].1.clone()) } else { (None, gen_set(&mut rng, true, true)) };
        let has_zero = rs.iter().any(|r| r.2.lines.contains_key(&0));
        let places: Vec<Option<Vec<String>>> = rs.iter().map(|(a, r, _)| place(r, a)).collect();
        let collides = places.iter().enumerate().any(|(i, p)| places.iter().enumerate().any(|(j, q)| i != j && match (p, q) { (Some(p), Some(q)) => q == p || (q.len() > p.len() && q[..p.len()] == p[..]), _ => false }));
        rep.case(&format!("docs {}", show_set(&rs)), rs.len() >= 3 || collides);
        rep.count(&format!("docs.files={}", rs.len().min(5)));
        if has_zero {
            rep.count("docs.line0");
        }
        if collides {
            rep.count("docs.covdir_name_collision");
        }
        if rs.iter().any(|r| r.1.is_absolute()) {
            rep.count("docs.absolute_rel_path");
        }
        if i == witnesses.len() {
            rep.sample(json!({"docs.results": show_set(&rs)}));
        }

        // coveralls / coveralls+ ---------------------------------------------------------------
        if only.is_none() || only == Some("coveralls") {
            for plus in [false, true] {
                let p = out.join("c.json");
                let _ = std::fs::remove_file(&p);
                let op = if plus { "c03.docs.coveralls+" } else { "c03.docs.coveralls" };
                let r = without_git(|| guarded(|| output_coveralls(&rs, Some("tok"), Some("svc"), "1", Some("2"), "3", None, "sha", plus, Some(&p), "main", false, false)));
                let overflow = rs.iter().any(|r| r.2.lines.keys().last() == Some(&u32::MAX));
                let ans = match &r {
                    Err(e) => {
                        rep.count("docs.coveralls.panic");
                        // matcher of C03-coveralls-last-line-overflow: `last + 1` at output.rs, a file whose highest line is u32::MAX
                        let named = overflow && e.contains("output.rs") && e.contains("overflow");
                        rep.fail("oracle", if named { Some("C03-coveralls-last-line-overflow") } else { None }, format!("{}: writer panicked: {}", op, e), case_json(op, &rs, json!(null)));
                        "panic".to_string()
                    }
                    Ok(()) => match serde_json::from_str::<Value>(&read(&p)) {
                        Err(e) => {
                            rep.fail("oracle", None, format!("{}: invalid JSON: {}", op, e), case_json(op, &rs, json!(null)));
                            "invalid".into()
                        }
                        Ok(v) => {
                            rep.count("docs.coveralls.ok");
                            if let Err(e) = oracle_coveralls(&v, &rs, plus) {
                                rep.fail("oracle", None, format!("{}: {}", op, e), case_json(op, &rs, json!(null)));
                            }
                            canon_coveralls(&v).unwrap_or_else(|e| format!("undecodable: {}", e))
                        }
                    },
                };
                reqs.push(format!("c03.docs.coveralls 1 {} {}", if plus { 1 } else { 0 }, show_set(&rs)).trim_end().to_string());
                impl_ans.push(ans);
                cases.push(case_json(op, &rs, json!(null)));
            }
        }
        // covdir -------------------------------------------------------------------------------
        if only.is_none() || only == Some("covdir") {
            let p = out.join("d.json");
            let _ = std::fs::remove_file(&p);
            let r = guarded(|| output_covdir(&rs, Some(&p), 2));
            let ans = match &r {
                Err(e) => {
                    rep.count("docs.covdir.panic");
                    // line 0 is outside the quantifier of C03 (`line_num - 1` underflows): tie only
                    if !has_zero {
                        rep.fail("oracle", None, format!("c03.docs.covdir: writer panicked: {}", e), case_json("c03.docs.covdir", &rs, json!(null)));
                    }
                    "panic".to_string()
                }
                Ok(()) => match serde_json::from_str::<Value>(&read(&p)) {
                    Err(e) => {
                        rep.fail("oracle", None, format!("c03.docs.covdir: invalid JSON: {}", e), case_json("c03.docs.covdir", &rs, json!(null)));
                        "invalid".into()
                    }
                    Ok(v) => {
                        rep.count("docs.covdir.ok");
                        if let Err((e, named)) = oracle_covdir(&v, &rs) {
                            rep.fail("oracle", if named { Some("C03-covdir-name-collision") } else { None }, format!("c03.docs.covdir: {}", e), case_json("c03.docs.covdir", &rs, json!(null)));
                        }
                        canon_covdir(&v).map(|s| format!("ok {}", s)).unwrap_or_else(|e| format!("undecodable: {}", e))
                    }
                },
            };
            reqs.push(format!("c03.docs.covdir 1 {}", show_set(&rs)).trim_end().to_string());
            impl_ans.push(ans);
            cases.push(case_json("c03.docs.covdir", &rs, json!(null)));
        }
        if only.is_some() {
            continue;
        }
        // files --------------------------------------------------------------------------------
        {
            let p = out.join("f.txt");
            let _ = std::fs::remove_file(&p);
            let _ = guarded(|| output_files(&rs, Some(&p)));
            let bytes = std::fs::read(&p).unwrap_or_default();
            let got: Vec<&str> = std::str::from_utf8(&bytes).unwrap_or("").lines().collect();
            let want: Vec<&str> = rs.iter().map(|r| r.1.to_str().unwrap()).collect();
            if got != want {
                rep.fail("oracle", None, "c03.docs.files: not one rel path per result, in order".into(), case_json("c03.docs.files", &rs, json!({"got": got})));
            }
            reqs.push(format!("c03.docs.files {}", show_set(&rs)).trim_end().to_string());
            impl_ans.push(format!("ok {}", hex(&bytes)).trim_end().to_string());
            cases.push(case_json("c03.docs.files", &rs, json!(null)));
        }
        // markdown -----------------------------------------------------------------------------
        {
            let p = out.join("m.md");
            let _ = std::fs::remove_file(&p);
            let ans = match guarded(|| output_markdown(&rs, Some(&p), 2)) {
                Err(e) => {
                    rep.fail("oracle", None, format!("c03.docs.markdown: writer panicked: {}", e), case_json("c03.docs.markdown", &rs, json!(null)));
                    "panic".to_string()
                }
                Ok(()) => match dec_markdown(&read(&p)) {
                    Err(e) => {
                        rep.fail("oracle", None, format!("c03.docs.markdown: cannot decode the table: {}", e), case_json("c03.docs.markdown", &rs, json!(null)));
                        "undecodable".into()
                    }
                    Ok(rows) => {
                        if let Err(e) = oracle_markdown(&rows, &rs) {
                            rep.fail("oracle", None, format!("c03.docs.markdown: {}", e), case_json("c03.docs.markdown", &rs, json!(null)));
                        }
                        rep.count_n("docs.markdown.ranges", rows.iter().map(|r| r.3.len() as u64).sum());
                        rep.count_n("docs.markdown.row_with_a_pipe_in_the_name(5_cells_for_a_renderer)", rows.iter().filter(|r| r.0.contains('|')).count() as u64);
                        format!(
                            "ok {}",
                            rows.iter()
                                .map(|r| format!("M{};{}/{};{};{}", hex(r.0.as_bytes()), r.1, r.2, r.3.iter().map(|(a, b)| format!("{}-{}", a, b)).collect::<Vec<_>>().join(","), hex(r.4.as_bytes())))
                                .collect::<Vec<_>>()
                                .join(" ")
                        )
                        .trim_end()
                        .to_string()
                    }
                },
            };
            reqs.push(format!("c03.docs.markdown {}", show_set(&rs)).trim_end().to_string());
            impl_ans.push(ans);
            cases.push(case_json("c03.docs.markdown", &rs, json!(null)));
        }
        // html (every 3rd set) -----------------------------------------------------------------
        if i % 3 == 0 {
            html_case(rep, &mut rng, &rs, &mut reqs, &mut impl_ans, &mut cases);
        }
        if i == 0 {
            // the closed witnesses of Props/C03HtmlDisk.lean / the probes of the second review (item 20)
            for paths in [vec!["a.c", "a.c.html/z.c"], vec!["a.c.html/z.c", "a.c"], vec!["index.html/z.c", "lib/y.c"], vec!["lib/index.html/a.c", "lib/y.rs", "top.c"]] {
                let set: RS = paths.iter().map(|p| {
                    let mut c = CovResult::default();
                    c.lines.insert(2, 7);
                    (rep.workdir.join("docs_html_src").join(p), PathBuf::from(p), c)
                }).collect();
                let srcs: Vec<Option<Vec<u8>>> = paths.iter().map(|_| Some(b"int a;\nint b;\n".to_vec())).collect();
                html_run(rep, &set, &srcs, Some((&mut reqs, &mut impl_ans, &mut cases)));
            }
        }
    }

    let ans = run_model(&reqs, &rep.workdir, "c03docs");
    for k in 0..reqs.len() {
        let op = reqs[k].split(' ').next().unwrap_or("");
        rep.count(&format!("docs.tie.{}", op));
        if ans[k].trim_end() != impl_ans[k] {
            rep.disagreements_checked += 1;
            rep.fail("disagreement", None, format!("{}: the real document differs from the Writers.Docs model", op), json!({"op": cases[k]["op"], "results": cases[k]["results"], "detail": cases[k]["detail"], "impl": impl_ans[k], "model": ans[k]}));
        }
    }
    rep.notes.push(format!("docs stream: {} result sets, {} documents tied to the model, {} ms", n, reqs.len(), t0.elapsed().as_millis()));
}

const TEXTS: [&str; 6] = ["int a = 1;", "  if (x < y && z > \"q\") {", "}", "", "// é ü 語 & <b>", "\treturn 'c' / 2;"];

/// source bytes with at least `min_lines` lines as `from_utf8_lossy(..).lines()` counts them. About
/// half of the sources are plain (valid UTF-8, LF); the others mix what real sources contain: CR LF,
/// a lone CR inside a line, a BOM, Latin-1 / invalid bytes (0xE9, 0xFF, a lone 0xC3) in a line, NUL,
/// a very long line, no final newline, an empty line at the end
fn gen_source(rng: &mut Rng, min_lines: usize, k: usize) -> Vec<u8> {
    let plain = rng.chance(1, 2);
    let n = min_lines + rng.below(3) as usize;
    let crlf = !plain && rng.chance(1, 3);
    let mut out: Vec<u8> = vec![];
    if !plain && rng.chance(1, 4) {
        out.extend_from_slice(&[0xEF, 0xBB, 0xBF]);
    }
    for i in 0..n {
        let mut line: Vec<u8> = TEXTS[(k * 7 + i * 5 + i / 3) % TEXTS.len()].as_bytes().to_vec();
        if !plain {
            match rng.below(12) {
                0 => line.extend_from_slice(b"caf\xe9 // latin-1"),
                1 => line.insert(0, 0xFF),
                2 => line.push(0xC3),
                3 => line.extend_from_slice(&[b'a', 13, b'b']),
                4 => line.extend_from_slice(&[0, b'x', 0]),
                5 => line.extend(std::iter::repeat(b'y').take(3000)),
                6 => line.extend_from_slice(&[0xE2, 0x82]),
                _ => {}
            }
        }
        out.extend_from_slice(&line);
        let last = i + 1 == n;
        if last && !plain && !line.is_empty() && rng.chance(1, 3) {
            break; // no final newline
        }
        if crlf || (!plain && rng.chance(1, 6)) {
            out.push(13);
        }
        out.push(10);
    }
    if !plain && n > 0 && out.last() == Some(&10) && rng.chance(1, 4) {
        out.push(10); // an empty line at the end
    }
    out
}

fn html_case(rep: &mut Report, rng: &mut Rng, rs: &RS, reqs: &mut Vec<String>, impl_ans: &mut Vec<String>, cases: &mut Vec<Value>) {
    let root = rep.workdir.join("docs_html_src");
    // a third of the html cases: source directories named like a page file / an index file, often
    // beside the file whose page that is (before or after it: the order decides which page survives)
    let mut rs: RS = rs.clone();
    if rng.chance(1, 3) {
        for _ in 0..rng.range(1, 3) {
            let d = *rng.pick(HTML_DIRS);
            let rel = format!("{}/{}", d, rng.pick(NAMES));
            let extra = (PathBuf::from(format!("/src_root/{}", rel)), PathBuf::from(&rel), gen_cov(rng, false));
            let file = d.strip_suffix(".html").filter(|f| !f.ends_with("index")).map(|f| f.to_string());
            let at = rng.below(rs.len() as u64 + 1) as usize;
            rs.insert(at, extra);
            if let Some(f) = file {
                if rng.chance(2, 3) {
                    let at = rng.below(rs.len() as u64 + 1) as usize;
                    rs.insert(at, (PathBuf::from(format!("/src_root/{}", f)), PathBuf::from(&f), gen_cov(rng, false)));
                }
            }
        }
    }
    let rs = &rs;
    let mut set: RS = vec![];
    let mut srcs: Vec<Option<Vec<u8>>> = vec![];
    let mut seen = BTreeSet::new();
    for (k, (_, rel, c)) in rs.iter().enumerate() {
        if !seen.insert(rel.clone()) {
            continue;
        }
        let mut c = c.clone();
        c.lines.retain(|l, _| *l <= 60);
        // the source of an absolute rel path lives below the root too (it gets no page anyway)
        let abs = root.join(format!("f{}", k)).join(rel.strip_prefix("/").unwrap_or(rel));
        let readable = !rng.chance(1, 8);
        srcs.push(if readable { Some(gen_source(rng, c.lines.keys().last().cloned().unwrap_or(0) as usize, k)) } else { None });
        set.push((abs, rel.clone(), c));
    }
    html_run(rep, &set, &srcs, Some((reqs, impl_ans, cases)));
}

/// the sources of an older case file: `n` lines of plain text
fn synth_source(n: usize, k: usize) -> Vec<u8> {
    let lines: Vec<&str> = (0..n).map(|i| TEXTS[(k * 7 + i * 5 + i / 3) % TEXTS.len()]).collect();
    (lines.join("\n") + if n > 0 { "\n" } else { "" }).into_bytes()
}

/// write the sources (None = no source file), run the real `output_html`, decode the output
/// directory, evaluate the oracles; tie to the model now (replay) or later (stream)
fn html_run(rep: &mut Report, set: &RS, srcs: &[Option<Vec<u8>>], mut sink: Option<(&mut Vec<String>, &mut Vec<String>, &mut Vec<Value>)>) {
    let root = rep.workdir.join("docs_html_src");
    let outd = rep.workdir.join("docs_html_out");
    let _ = std::fs::remove_dir_all(&root);
    let _ = std::fs::remove_dir_all(&outd);
    std::fs::create_dir_all(&root).unwrap();
    for ((abs, _, _), b) in set.iter().zip(srcs.iter()) {
        if let Some(b) = b {
            std::fs::create_dir_all(abs.parent().unwrap()).unwrap();
            std::fs::write(abs, b).unwrap();
        }
    }
    let set = set.clone();
    let srcs = srcs.to_vec();
    let r = guarded(|| output_html(&set, Some(&outd), 1, true, None, 2, &None, true, grcov::html::HtmlResources::Cdn));
    let detail = json!({"srcs": srcs.iter().map(|b| b.as_ref().map(|b| hex(b))).collect::<Vec<_>>()});
    let req = format!(
        "c03.docs.html {}",
        set.iter().zip(srcs.iter()).map(|((a, r, c), b)| format!("R{}={}={}={}", hex(a.to_str().unwrap().as_bytes()), hex(r.to_str().unwrap().as_bytes()), show_cov(c), b.as_ref().map(|b| format!("h{}", hex(b))).unwrap_or("x".into()))).collect::<Vec<_>>().join(" ")
    )
    .trim_end()
    .to_string();
    rep.count("docs.html.sets");
    let ans = match r {
        Err(e) => {
            rep.fail("oracle", None, format!("c03.docs.html: writer panicked: {}", e), case_json("c03.docs.html", &set, detail.clone()));
            "panic".to_string()
        }
        Ok(()) => match observe_html(&outd) {
            Err(e) => {
                rep.fail("oracle", None, format!("c03.docs.html: cannot decode the output: {}", e), case_json("c03.docs.html", &set, detail.clone()));
                "undecodable".into()
            }
            Ok(obs) => {
                // the pages the result set asks for (relative rel path, readable source)
                let all_pages: Vec<String> = set.iter().zip(srcs.iter()).filter(|((_, rel, _), b)| rel.is_relative() && b.is_some()).map(|((_, rel, _), _)| page_path(rel.to_str().unwrap())).collect();
                // matcher of C03-html-page-dir-collision: the path `p` (a page file, or a directory an index
                // is written into) cannot exist beside another page: it is a proper prefix (directory) of
                // another page's path, or another page's FILE is a proper prefix of it
                let page_dir_clash = |p: &str| all_pages.iter().any(|q| q.starts_with(&format!("{}/", p)) || p.starts_with(&format!("{}/", q)) || (p == q.as_str() && false));
                // matcher of C03-html-dir-named-index-html: `<dir>/index.html` is a directory of some page
                let index_is_dir = |dir: &str| { let ix = if dir.is_empty() { "index.html/".to_string() } else { format!("{}/index.html/", dir) }; all_pages.iter().any(|q| q.starts_with(&ix)) };
                let no_index_at_all = index_is_dir("") && obs.indexes.is_empty();
                if all_pages.iter().any(|p| page_dir_clash(p)) {
                    rep.count("docs.html.page_file_is_a_directory_of_another_page");
                }
                if set.iter().any(|r| r.1.to_str().unwrap().split('/').rev().skip(1).any(|c| c == "index.html")) {
                    rep.count("docs.html.source_directory_named_index.html");
                }
                // oracle: page iff relative and readable, at the place a reader expects, rows = counts
                let mut expected_pages = BTreeSet::new();
                let mut root_files = false;
                for ((_, rel, c), b) in set.iter().zip(srcs.iter()) {
                    let rels = rel.to_str().unwrap();
                    let pp = page_path(rels);
                    let should = rel.is_relative() && b.is_some();
                    if should {
                        expected_pages.insert(pp.clone());
                        rep.count("docs.html.page");
                        // one row per line of the source as `from_utf8_lossy(bytes).lines()` counts them
                        let bytes = b.as_ref().unwrap();
                        let lossy = String::from_utf8_lossy(bytes).to_string();
                        let src_lines: Vec<&str> = lossy.lines().collect();
                        if std::str::from_utf8(bytes).is_err() {
                            rep.count("docs.html.source_invalid_utf8");
                        }
                        if bytes.contains(&13) {
                            rep.count("docs.html.source_with_cr");
                        }
                        let want: Vec<Option<u64>> = (1..=src_lines.len() as u32).map(|l| c.lines.get(&l).cloned()).collect();
                        if let Some(texts) = obs.texts.get(&pp) {
                            // every instrumented line has its row with its exact count …
                            for (l, n) in c.lines.iter().filter(|(l, _)| **l >= 1 && (**l as usize) <= src_lines.len()) {
                                if obs.pages.get(&pp).and_then(|r| r.get(*l as usize - 1)) != Some(&Some(*n)) {
                                    rep.fail("oracle", None, format!("c03.docs.html: page of {:?}: instrumented line {} (count {}) has no row with that count", rel, l, n), case_json("c03.docs.html", &set, detail.clone()));
                                    break;
                                }
                            }
                            // … and the rows carry the lossily decoded text of their line
                            if texts.len() != src_lines.len() || texts.iter().zip(src_lines.iter()).any(|(a, b)| a != b) {
                                rep.fail("oracle", None, format!("c03.docs.html: page of {:?}: {} rows for {} source lines, or a row text differs from the lossily decoded line", rel, texts.len(), src_lines.len()), case_json("c03.docs.html", &set, detail.clone()));
                            }
                            // tie of `lossyLines` (Writers/Docs.lean) to what the page shows
                            let lreq = format!("c03.docs.lossylines {}", hex(bytes)).trim_end().to_string();
                            let limpl = format!("{}:{}", texts.len(), texts.iter().map(|t| hex(t.as_bytes())).collect::<Vec<_>>().join(","));
                            match sink.as_mut() {
                                Some((reqs, impl_ans, cases)) => {
                                    reqs.push(lreq);
                                    impl_ans.push(limpl);
                                    cases.push(json!({"op": "c03.docs.lossylines", "results": hex(bytes), "detail": rels}));
                                }
                                None => {
                                    let m = run_model(&[lreq], &rep.workdir, "c03docs_replay_l");
                                    if m[0].trim_end() != limpl {
                                        rep.disagreements_checked += 1;
                                        rep.fail("disagreement", None, "c03.docs.lossylines: the rows of the page differ from the model's lossyLines".into(), json!({"op": "c03.docs.lossylines", "results": hex(bytes), "impl": limpl, "model": m[0]}));
                                    }
                                }
                            }
                        }
                        if obs.pages.get(&pp) != Some(&want) {
                            // matcher of C03-html-index-named-source: the source file is named `index`, its page
                            // `<dir>/index.html` is the file the directory (or global) index is written to afterwards
                            let named = rels.rsplit('/').next() == Some("index") && obs.indexes.contains_key(rels.rsplit_once('/').map(|x| x.0).unwrap_or(""));
                            // the page is MISSING (not wrong) and its path clashes with another page's
                            let clash = !obs.pages.contains_key(&pp) && page_dir_clash(&pp);
                            let f = if named { Some("C03-html-index-named-source") } else if clash { Some(KNOWN_PAGE_DIR) } else { None };
                            rep.fail("oracle", f, format!("c03.docs.html: page of {:?} missing or its rows differ from (count | not instrumented) per source line", rel), case_json("c03.docs.html", &set, detail.clone()));
                        }
                        let (parent, fname) = match rels.rsplit_once('/') { Some((p, f)) => (p.to_string(), f.to_string()), None => (String::new(), rels.to_string()) };
                        root_files |= parent.is_empty();
                        // listed in exactly one directory index: that of its parent, once
                        let listed: Vec<&String> = obs.indexes.iter().filter(|(_, (k, rows))| k == "File" && rows.iter().any(|r| r.1 == fname)).map(|(loc, _)| loc).collect();
                        let in_parent = obs.indexes.get(&parent).map(|(k, rows)| if k == "File" { rows.iter().filter(|r| r.1 == fname).count() } else { 0 }).unwrap_or(0);
                        if in_parent != 1 {
                            // the index of the directory is MISSING because `<parent>/index.html` is a directory
                            // (or, at the root, `gen_index` returned before any directory index), or because the
                            // directory `<parent>` is (below) a page file
                            let missing = !obs.indexes.contains_key(&parent);
                            let f = if missing && (index_is_dir(&parent) || no_index_at_all) { Some(KNOWN_INDEX_DIR) } else if missing && !parent.is_empty() && all_pages.iter().any(|q| parent == *q || parent.starts_with(&format!("{}/", q))) { Some(KNOWN_PAGE_DIR) } else { None };
                            rep.fail("oracle", f, format!("c03.docs.html: {:?} is listed {} times in the index of its directory", rel, in_parent), case_json("c03.docs.html", &set, detail.clone()));
                        }
                        let _ = listed;
                        // the directory is listed in the global index
                        let in_global = obs.indexes.get("").map(|(k, rows)| if k == "Directory" { rows.iter().filter(|r| r.1 == parent).count() } else { 0 }).unwrap_or(0);
                        if in_global != 1 {
                            // matcher of C03-html-root-index-overwritten: some page lives at the root, so the index of
                            // directory "" was written over the global index.html
                            let named = obs.indexes.get("").map(|(k, _)| k == "File").unwrap_or(false);
                            let f = if named { Some("C03-html-root-index-overwritten") } else if no_index_at_all { Some(KNOWN_INDEX_DIR) } else { None };
                            rep.fail("oracle", f, format!("c03.docs.html: directory {:?} is listed {} times in the global index", parent, in_global), case_json("c03.docs.html", &set, detail.clone()));
                        }
                    }
                }
                let _ = root_files;
                // every row of every directory index links to a page file that exists (former finding
                // C03-html-link-without-extension, repaired in /repo b1b2416: reported again if it returns)
                for (loc, (kind, rows)) in &obs.indexes {
                    if kind != "File" {
                        continue;
                    }
                    for (url, name) in rows {
                        // where the link LEADS: resolved as a URI reference, not joined as a string
                        let in_loc = |n: &str| format!("{}{}", if loc.is_empty() { String::new() } else { format!("{}/", loc) }, n);
                        let target = in_loc(&served_rel(url));
                        let own_page = in_loc(&format!("{}.html", name));
                        rep.count("docs.html.index_link");
                        let special = name.contains('%') || name.contains('#') || name.contains('?');
                        if special {
                            rep.count("docs.html.index_link.name_with_%#?");
                        }
                        if target != own_page {
                            // matcher of C03-html-links-not-urlencoded: the name has one of % # ? and went into the
                            // href as it is
                            let f = if special && *url == format!("./{}.html", name) { Some(KNOWN_LINKS) } else { None };
                            rep.fail("oracle", f, format!("c03.docs.html: the index row {:?} of directory {:?} has href {:?}, which leads to {:?}, not to the page {:?} of that file", name, loc, url, target, own_page), case_json("c03.docs.html", &set, detail.clone()));
                        } else if !obs.pages.contains_key(&target) {
                            let named = name == "index" && url.trim_start_matches("./") == "index.html";
                            let clash = all_pages.contains(&target) && page_dir_clash(&target);
                            let f = if named { Some("C03-html-index-named-source") } else if clash { Some(KNOWN_PAGE_DIR) } else { None };
                            rep.fail("oracle", f, format!("c03.docs.html: the index row {:?} of directory {:?} links to {:?}, which is not a page file", name, loc, target), case_json("c03.docs.html", &set, detail.clone()));
                        }
                    }
                }
                for p in obs.pages.keys() {
                    if !expected_pages.contains(p) {
                        rep.fail("oracle", None, format!("c03.docs.html: page {:?} belongs to no relative readable result", p), case_json("c03.docs.html", &set, detail.clone()));
                    }
                }
                canon_html(&obs)
            }
        },
    };
    match sink {
        Some((reqs, impl_ans, cases)) => {
            reqs.push(req);
            impl_ans.push(ans);
            cases.push(case_json("c03.docs.html", &set, detail));
        }
        None => {
            let m = run_model(&[req], &rep.workdir, "c03docs_replay");
            if m[0].trim_end() != ans {
                rep.disagreements_checked += 1;
                rep.fail("disagreement", None, "c03.docs.html: the real site differs from the model".into(), json!({"op": "c03.docs.html", "results": show_set(&set), "detail": detail, "impl": ans, "model": m[0]}));
            }
        }
    }
}

pub fn replay(rep: &mut Report, case: &Value) {
    let op = case["op"].as_str().unwrap_or("");
    let rs = parse_set(case["results"].as_str().unwrap_or(""));
    let out = rep.workdir.join("docs_replay");
    std::fs::create_dir_all(&out).unwrap();
    let read = |p: &Path| std::fs::read_to_string(p).unwrap_or_default();
    let check = |rep: &mut Report, req: String, ans: String| {
        let m = run_model(&[req.clone()], &rep.workdir, "c03docs_replay");
        if m[0].trim_end() != ans {
            rep.disagreements_checked += 1;
            rep.fail("disagreement", None, format!("{}: the real document differs from the model", op), json!({"op": op, "results": case["results"], "impl": ans, "model": m[0]}));
        }
    };
    match op {
        "c03.docs.coveralls" | "c03.docs.coveralls+" => {
            let plus = op.ends_with('+');
            let p = out.join("c.json");
            let r = without_git(|| guarded(|| output_coveralls(&rs, Some("tok"), Some("svc"), "1", Some("2"), "3", None, "sha", plus, Some(&p), "main", false, false)));
            let ans = match r {
                Err(e) => {
                    let named = rs.iter().any(|r| r.2.lines.keys().last() == Some(&u32::MAX)) && e.contains("overflow");
                    rep.fail("oracle", if named { Some("C03-coveralls-last-line-overflow") } else { None }, format!("{}: writer panicked: {}", op, e), case.clone());
                    "panic".to_string()
                }
                Ok(()) => {
                    let v: Value = serde_json::from_str(&read(&p)).unwrap_or(json!(null));
                    if let Err(e) = oracle_coveralls(&v, &rs, plus) {
                        rep.fail("oracle", None, format!("{}: {}", op, e), case.clone());
                    }
                    canon_coveralls(&v).unwrap_or_default()
                }
            };
            check(rep, format!("c03.docs.coveralls 1 {} {}", if plus { 1 } else { 0 }, show_set(&rs)).trim_end().to_string(), ans);
        }
        "c03.docs.covdir" => {
            let p = out.join("d.json");
            let ans = match guarded(|| output_covdir(&rs, Some(&p), 2)) {
                Err(e) => {
                    rep.fail("oracle", None, format!("{}: writer panicked: {}", op, e), case.clone());
                    "panic".to_string()
                }
                Ok(()) => {
                    let v: Value = serde_json::from_str(&read(&p)).unwrap_or(json!(null));
                    if let Err((e, named)) = oracle_covdir(&v, &rs) {
                        rep.fail("oracle", if named { Some("C03-covdir-name-collision") } else { None }, format!("{}: {}", op, e), case.clone());
                    }
                    canon_covdir(&v).map(|s| format!("ok {}", s)).unwrap_or_default()
                }
            };
            check(rep, format!("c03.docs.covdir 1 {}", show_set(&rs)).trim_end().to_string(), ans);
        }
        "c03.docs.markdown" => {
            let p = out.join("m.md");
            let _ = guarded(|| output_markdown(&rs, Some(&p), 2));
            match dec_markdown(&read(&p)) {
                Err(e) => rep.fail("oracle", None, format!("{}: {}", op, e), case.clone()),
                Ok(rows) => {
                    if let Err(e) = oracle_markdown(&rows, &rs) {
                        rep.fail("oracle", None, format!("{}: {}", op, e), case.clone());
                    }
                }
            }
        }
        "c03.docs.html" => {
            let srcs: Vec<Option<Vec<u8>>> = match case["detail"]["srcs"].as_array() {
                Some(a) => a.iter().map(|x| x.as_str().map(unhex)).collect(),
                // older case files give the number of (plain) source lines
                None => case["detail"]["nsrc"].as_array().map(|a| a.iter().enumerate().map(|(k, x)| x.as_u64().map(|n| synth_source(n as usize, k))).collect()).unwrap_or_default(),
            };
            html_run(rep, &rs, &srcs, None);
        }
        "c03.docs.files" => {
            let p = out.join("f.txt");
            let _ = guarded(|| output_files(&rs, Some(&p)));
            let bytes = std::fs::read(&p).unwrap_or_default();
            let want: Vec<&str> = rs.iter().map(|r| r.1.to_str().unwrap()).collect();
            if std::str::from_utf8(&bytes).unwrap_or("").lines().collect::<Vec<_>>() != want {
                rep.fail("oracle", None, "c03.docs.files: not one rel path per result, in order".into(), case.clone());
            }
            check(rep, format!("c03.docs.files {}", show_set(&rs)).trim_end().to_string(), format!("ok {}", hex(&bytes)).trim_end().to_string());
        }
        _ => rep.notes.push(format!("replay of {}: re-run ./check C03 with the same seed", op)),
    }
}
