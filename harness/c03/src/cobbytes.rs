//! C03 / C18, part CobBytes — the byte layer of the Cobertura report, tied to the Lean model
//! `GrcovModel/Writers/CobBytes.lean`.
//!
//! * `ser`: the bytes written by the REAL `output_cobertura` (non-pretty) are compared BYTE FOR
//!   BYTE with `xmlSerialize` of the model (`c03.cobbytes.ser`); only the float attributes
//!   (`line-rate`, `branch-rate`) and `timestamp` are handed to the model as the implementation
//!   printed them; the function tables go to the model in the iteration order of the HARNESS's hash
//!   map (nothing about the order is read from the real report: the model sorts by name itself,
//!   `Writers.FnOrder.coberturaBytes`). A quarter of the sets is written with demangling ON, with
//!   names that really demangle (`dm.rs`); the model gets the printed names as a table.
//! * `parse`: the model's reader (`c03.cobbytes.parse`) on the real bytes, plain (strict) and pretty
//!   (indentation skipped), against quick-xml's reader (tree level) — and against expat
//!   (tools/c18_decode.py): same verdict, same attribute values, same character data, same number of
//!   elements.
//! * names: printable hostile names (metacharacters, entity look-alikes, `]]>`, quotes, non-ASCII)
//!   inside the quantifier; a separate stream with control characters / line terminators / U+FFFF
//!   (outside the quantifier) records what a real parser does with them and checks that the model's
//!   reader does the same.
use crate::cobade::{gen_set, parse_shown, parse_xml, shown, X, RS};
use corrlib::*;
use grcov::*;
use serde_json::{json, Value};
use std::path::{Path, PathBuf};

const HOSTILE: &[&str] = &[
    "\"><evil a=\"1",
    "]]>",
    "&amp;",
    "&#60;x&#x3c;",
    "' onload='x",
    "<!-- c -->",
    "<![CDATA[x]]>",
    "</coverage>",
    "a\u{7f}b",
    "😀 emoji",
    "&",
    "&;",
    "<",
    ">",
    "\"",
    "'",
    "a  b",
    " lead and trail ",
    "<?xml version=\"1.0\"?>",
    "<!DOCTYPE x [<!ENTITY e \"v\">]>&e;",
    "\u{85}\u{2028}next",
    "=\"",
    "/>",
];
/// outside the quantifier: control characters, line terminators, a non-character
const CONTROLS: &[&str] = &["a\tb", "a\nb", "a\rb", "a\r\nb", "\u{1}", "x\u{1f}", "\u{c}", "\u{ffff}", "\u{fffe}", "\t", " \n "];

fn rename_some(rng: &mut Rng, rs: &mut RS, pool: &[&str], all: bool) {
    for (_, rel, c) in rs.iter_mut() {
        let names: Vec<String> = c.functions.keys().cloned().collect();
        for n in names {
            if all || rng.chance(1, 2) {
                let f = c.functions.remove(&n).unwrap();
                let mut new = rng.pick(pool).to_string();
                if rng.chance(1, 3) {
                    new = format!("{}{}", n, new);
                }
                c.functions.insert(new, f);
            }
        }
        if rng.chance(1, 3) {
            // hostile path (kept relative, no '/' tricks needed: the writers take it as text)
            let p = format!("{}{}", rel.to_str().unwrap(), rng.pick(pool));
            *rel = PathBuf::from(p);
        }
    }
    // rel paths must stay distinct for the replay encoding
    let mut seen = std::collections::BTreeSet::new();
    rs.retain(|r| seen.insert(r.1.clone()));
}

/// (path, attr, value) of the masked attributes
fn masks_of(x: &X, path: &mut Vec<usize>, masks: &mut Vec<String>) {
    if let X::E { tag, attrs, kids } = x {
        for (k, v) in attrs {
            if k == "line-rate" || k == "branch-rate" || k == "timestamp" {
                masks.push(format!("{}/{}={}", path.iter().map(|i| i.to_string()).collect::<Vec<_>>().join("."), k, hex(v.as_bytes())));
            }
        }
        let _ = tag;
        for (i, k) in kids.iter().enumerate() {
            path.push(i);
            masks_of(k, path, masks);
            path.pop();
        }
    }
}

/// `K<hex>=<cov>` with the functions in the iteration order of the harness's own hash map
fn entry(rel: &str, c: &CovResult) -> String {
    let ls = c.lines.iter().map(|(l, n)| format!("{}:{}", l, n)).collect::<Vec<_>>().join(",");
    let bs = c.branches.iter().map(|(l, v)| format!("{}:{}", l, bits(v))).collect::<Vec<_>>().join(",");
    let fs = c.functions.iter().map(|(n, f)| format!("{}:{}:{}", hex(n.as_bytes()), f.start, if f.executed { 1 } else { 0 })).collect::<Vec<_>>().join(",");
    format!("K{}=L{};B{};F{}", hex(rel.as_bytes()), ls, bs, fs)
}

/// the text of `c03.cobbytes.parse` for quick-xml's tree (document order, nothing masked)
fn canon_full(x: &X, out: &mut String) {
    match x {
        X::T(s) => {
            out.push('"');
            out.push_str(&hex(s.as_bytes()));
        }
        X::E { tag, attrs, kids } => {
            out.push('(');
            out.push_str(tag);
            for (k, v) in attrs {
                out.push(' ');
                out.push_str(k);
                out.push_str("=x");
                out.push_str(&hex(v.as_bytes()));
            }
            for k in kids {
                out.push(' ');
                canon_full(k, out);
            }
            out.push(')');
        }
    }
}

/// from the driver's tree text: attribute (key, value) pairs and character data in document order,
/// number of elements
fn flatten_canon(t: &str) -> (Vec<(String, Vec<u8>)>, Vec<Vec<u8>>, usize) {
    let mut attrs = vec![];
    let mut texts = vec![];
    let mut elems = 0;
    for tok in t.split(' ') {
        let tok = tok.trim_end_matches(')');
        if let Some(rest) = tok.strip_prefix('(') {
            let _ = rest;
            elems += 1;
        } else if let Some(h) = tok.strip_prefix('"') {
            texts.push(unhex(h));
        } else if let Some((k, v)) = tok.split_once("=x") {
            attrs.push((k.to_string(), unhex(v)));
        }
    }
    (attrs, texts, elems)
}

struct Doc {
    rs: RS,
    src: Option<String>,
    controls: bool,
    plain: Vec<u8>,
    pretty: Vec<u8>,
    /// written with demangling on; `dmarg` = the `D…` argument, `printed` = mangled -> printed
    on: bool,
    dmarg: String,
    printed: std::collections::BTreeMap<String, String>,
}

fn write_real(rs: &RS, src: Option<&str>, out: &Path, pretty: bool, on: bool) -> Result<Vec<u8>, String> {
    let _ = std::fs::create_dir_all(out);
    let p = out.join(if pretty { "cb_pretty.xml" } else { "cb.xml" });
    let _ = std::fs::remove_file(&p);
    let srcp = src.map(PathBuf::from);
    guarded(|| output_cobertura(srcp.as_deref(), rs, Some(&p), on, pretty))?;
    std::fs::read(&p).map_err(|e| e.to_string())
}

fn ser_request(d: &Doc) -> Result<String, String> {
    let text = String::from_utf8(d.plain.clone()).map_err(|_| "report is not UTF-8".to_string())?;
    // quick-xml's reader is used only to find the masked values (floats, timestamp)
    let x = parse_xml(&text)?;
    let mut masks = vec![];
    masks_of(&x, &mut vec![], &mut masks);
    let entries: Vec<String> = d.rs.iter().map(|(_, rel, c)| entry(rel.to_str().unwrap(), c)).collect();
    let src = d.src.as_ref().map(|s| format!("S{}", hex(s.as_bytes()))).unwrap_or("-".into());
    let mut r = format!("c03.cobbytes.ser {} V{}", src, masks.join(","));
    if !d.dmarg.is_empty() {
        r.push(' ');
        r.push_str(&d.dmarg);
    }
    for e in entries {
        r.push(' ');
        r.push_str(&e);
    }
    Ok(r)
}

fn expat(workdir: &Path, docs: &[(String, &[u8])]) -> Value {
    let dir = workdir.join("cobbytes_expat");
    std::fs::create_dir_all(&dir).unwrap();
    let mut manifest = vec![];
    for (id, bytes) in docs {
        let p = dir.join(format!("{}.xml", id));
        std::fs::write(&p, bytes).unwrap();
        manifest.push(json!({"id": id, "kind": "xml", "path": p.to_str().unwrap()}));
    }
    let mp = dir.join("manifest.json");
    let op = dir.join("decoded.json");
    std::fs::write(&mp, serde_json::to_string(&manifest).unwrap()).unwrap();
    let st = std::process::Command::new("/usr/bin/python3").arg("/verif/tools/c18_decode.py").arg(&mp).arg(&op).status().expect("cannot run /usr/bin/python3 tools/c18_decode.py");
    if !st.success() {
        eprintln!("c18_decode.py failed");
        std::process::exit(2);
    }
    serde_json::from_str(&std::fs::read_to_string(&op).unwrap()).expect("decoder output is not JSON")
}

fn case_json(d: &Doc, what: &str) -> Value {
    json!({"op": "c03.cobbytes", "src": d.src, "results": shown(&d.rs), "controls": d.controls, "demangle": d.on, "detail": what})
}

/// every name of the result set, as the report must carry it
fn expected_names(d: &Doc) -> Vec<Vec<u8>> {
    let mut v = vec![];
    for (_, rel, c) in &d.rs {
        v.push(rel.to_str().unwrap().as_bytes().to_vec());
        for n in c.functions.keys() {
            v.push(d.printed.get(n).unwrap_or(n).as_bytes().to_vec());
        }
    }
    v
}

fn check_docs(rep: &mut Report, docs: &[Doc], tag: &str) {
    // model: serialisation and both readers
    let mut reqs = vec![];
    let mut ser_err: Vec<Option<String>> = vec![];
    for d in docs {
        match ser_request(d) {
            Ok(r) => {
                reqs.push(r);
                ser_err.push(None);
            }
            Err(e) => {
                reqs.push("c03.cobbytes.ser".to_string());
                ser_err.push(Some(e));
            }
        }
        reqs.push(format!("c03.cobbytes.parse 0 {}", hex(&d.plain)));
        reqs.push(format!("c03.cobbytes.parse 1 {}", hex(&d.pretty)));
    }
    let ans = run_model(&reqs, &rep.workdir, tag);
    let ex_docs: Vec<(String, &[u8])> = docs.iter().enumerate().map(|(i, d)| (format!("{}{}", tag, i), d.plain.as_slice())).collect();
    let ex = expat(&rep.workdir, &ex_docs);
    for (i, d) in docs.iter().enumerate() {
        let (a_ser, a_plain, a_pretty) = (&ans[3 * i], &ans[3 * i + 1], &ans[3 * i + 2]);
        // 1. bytes
        if let Some(e) = &ser_err[i] {
            if !d.controls {
                rep.fail("oracle", None, format!("cobbytes: the report cannot be read back by quick-xml: {}", e), case_json(d, "quick-xml"));
            } else {
                rep.count("cobbytes.controls.quickxml_rejects");
            }
        } else {
            let want = format!("ok {}", hex(&d.plain));
            rep.count("cobbytes.ser.compared");
            if *a_ser != want {
                rep.disagreements_checked += 1;
                let (m, r) = (a_ser.strip_prefix("ok ").map(unhex).unwrap_or_default(), &d.plain);
                let k = m.iter().zip(r.iter()).take_while(|(a, b)| a == b).count();
                rep.fail(
                    "disagreement",
                    None,
                    format!("cobbytes: the bytes written by output_cobertura differ from xmlSerialize at offset {} (impl {:?} / model {:?})", k, String::from_utf8_lossy(&r[k.saturating_sub(20)..(k + 30).min(r.len())]), String::from_utf8_lossy(&m[k.saturating_sub(20).min(m.len())..(k + 30).min(m.len())])),
                    case_json(d, "ser"),
                );
            }
        }
        // 2. expat on the plain bytes vs the model's strict reader
        let e = &ex[format!("{}{}", tag, i)];
        let e_ok = e["ok"].as_bool().unwrap_or(false);
        let m_ok = a_plain.starts_with("ok ");
        if e_ok != m_ok {
            rep.disagreements_checked += 1;
            rep.fail("disagreement", None, format!("cobbytes: expat {} the report but the model's reader {} it ({})", if e_ok { "accepts" } else { "rejects" }, if m_ok { "accepts" } else { "rejects" }, e["error"]), case_json(d, "expat-verdict"));
            continue;
        }
        if !e_ok {
            rep.count(if d.controls { "cobbytes.controls.not_well_formed" } else { "cobbytes.not_well_formed" });
            if !d.controls {
                rep.fail("oracle", None, format!("cobbytes: the report is not well-formed XML: {}", e["error"]), case_json(d, "well-formed"));
            }
            continue;
        }
        let (m_attrs, m_texts, m_elems) = flatten_canon(&a_plain[3..]);
        let e_attrs: Vec<(String, Vec<u8>)> = e["attrs"].as_array().unwrap().iter().map(|t| (t[1].as_str().unwrap().to_string(), t[2].as_str().unwrap().as_bytes().to_vec())).collect();
        let e_texts: Vec<Vec<u8>> = e["texts"].as_array().unwrap().iter().map(|t| t[1].as_str().unwrap().as_bytes().to_vec()).collect();
        let e_elems: u64 = e["shape"].as_object().unwrap().values().map(|v| v.as_u64().unwrap()).sum();
        if m_attrs != e_attrs || m_texts != e_texts || m_elems as u64 != e_elems {
            rep.disagreements_checked += 1;
            let k = m_attrs.iter().zip(e_attrs.iter()).position(|(a, b)| a != b);
            rep.fail("disagreement", None, format!("cobbytes: expat and the model's reader decode the report differently (elements {} / {}, first differing attribute {:?})", e_elems, m_elems, k.map(|k| (&m_attrs[k], &e_attrs[k]))), case_json(d, "expat-values"));
        }
        // 3. property oracle on what the independent parser (expat) decoded: every name arrives
        //    exactly, nothing added
        let mut got_names: Vec<Vec<u8>> = e_attrs.iter().filter(|(k, _)| k == "filename").map(|(_, v)| v.clone()).collect();
        let mut in_class_method: Vec<Vec<u8>> = e["attrs"].as_array().unwrap().iter().filter(|t| t[0].as_str().unwrap().ends_with("/method") && t[1] == "name").map(|t| t[2].as_str().unwrap().as_bytes().to_vec()).collect();
        got_names.append(&mut in_class_method);
        let mut want = expected_names(d);
        got_names.sort();
        want.sort();
        let lines: usize = d.rs.iter().map(|r| r.2.lines.len()).sum();
        let n_method_lines = e["shape"].as_object().unwrap().iter().filter(|(k, _)| k.starts_with("coverage/packages/package/classes/class/lines/line|")).map(|(_, v)| v.as_u64().unwrap()).sum::<u64>();
        let names_ok = got_names == want;
        let shape_ok = n_method_lines == lines as u64 && e["shape"].as_object().unwrap().keys().all(|k| k.starts_with("coverage"));
        if d.controls {
            rep.count(if names_ok { "cobbytes.controls.names_exact" } else { "cobbytes.controls.names_altered" });
        } else if !names_ok || !shape_ok {
            rep.fail("oracle", None, format!("cobbytes: an independent XML parser does not recover the exact names / the element structure (names ok {}, class lines {} for {} instrumented lines)", names_ok, n_method_lines, lines), case_json(d, "names"));
        }
        // 4. quick-xml's reader vs the model's readers, tree level (inside the quantifier: the
        //    two agree; with raw TAB/LF/CR quick-xml does not normalise, which is not XML)
        if !d.controls {
            for (bytes, a, what) in [(&d.plain, a_plain, "plain"), (&d.pretty, a_pretty, "pretty")] {
                match String::from_utf8(bytes.clone()).map_err(|_| "not UTF-8".to_string()).and_then(|t| parse_xml(&t)) {
                    Err(e) => rep.fail("oracle", None, format!("cobbytes: quick-xml cannot read the {} report: {}", what, e), case_json(d, what)),
                    Ok(x) => {
                        let mut s = String::from("ok ");
                        canon_full(&x, &mut s);
                        rep.count(&format!("cobbytes.parse.{}", what));
                        if *a != s {
                            rep.disagreements_checked += 1;
                            rep.fail("disagreement", None, format!("cobbytes: the model's reader and quick-xml's reader build different trees from the {} report", what), case_json(d, what));
                        }
                    }
                }
            }
        } else if a_pretty.starts_with("ok ") != m_ok {
            rep.fail("disagreement", None, "cobbytes: the model's reader accepts only one of the plain and the pretty report".into(), case_json(d, "pretty-verdict"));
        }
    }
}

fn make_doc(rep: &mut Report, rs: RS, src: Option<String>, controls: bool, on: bool) -> Option<Doc> {
    let out = rep.workdir.join("cobbytes_out");
    let (mut dmarg, mut printed) = (String::new(), std::collections::BTreeMap::new());
    if on {
        let mut dm = crate::dm::Dm::new(&rep.workdir);
        if let Err(e) = dm.resolve_set(&rs) {
            rep.fail("oracle", None, e, json!({"op": "c03.cobbytes", "src": src, "results": shown(&rs), "demangle": true}));
            return None;
        }
        dmarg = dm.arg(true, &rs);
        for n in rs.iter().flat_map(|r| r.2.functions.keys()) {
            printed.insert(n.clone(), dm.name(true, n));
        }
    }
    let plain = write_real(&rs, src.as_deref(), &out, false, on);
    let pretty = write_real(&rs, src.as_deref(), &out, true, on);
    match (plain, pretty) {
        (Ok(plain), Ok(pretty)) => Some(Doc { rs, src, controls, plain, pretty, on, dmarg, printed }),
        (a, _) => {
            rep.fail("oracle", None, format!("cobbytes: writer panicked: {:?}", a.err()), json!({"op": "c03.cobbytes", "src": src, "results": shown(&rs), "controls": controls}));
            None
        }
    }
}

pub fn run(rep: &mut Report) {
    rep.rule.push_str(
        " | CobBytes: the CobAde result sets with half of the function names and a third of the paths replaced by printable hostile \
         strings (markup, entity look-alikes, quotes, ]]>, DOCTYPE with entity, non-ASCII); bytes of output_cobertura compared byte \
         for byte with the model's serialiser, the model's reader compared with quick-xml's and expat's on the same bytes; \
         non-trivial = a name contains one of < > & ' \"",
    );
    let t0 = std::time::Instant::now();
    let mut rng = Rng::new(rep.seed ^ 0xC03_B17E5);
    std::fs::create_dir_all(rep.workdir.join("cobbytes_out")).unwrap();
    let n = rep.budget(1000, 10);
    let mut docs = vec![];
    for i in 0..n {
        let mut rs = gen_set(&mut rng);
        if rs.iter().any(|r| r.2.lines.keys().last() == Some(&u32::MAX)) {
            continue;
        }
        rename_some(&mut rng, &mut rs, HOSTILE, false);
        let on = i % 4 == 3;
        if on {
            crate::dm::sprinkle(&mut rng, &mut rs);
            rep.count("cobbytes.demangle_on");
        }
        let src = match rng.below(5) {
            0 => Some("/src root/é".to_string()),
            1 => Some(format!("dir{}", rng.pick(HOSTILE))),
            2 => Some("a  b".to_string()),
            _ => None,
        };
        let meta = expected_names_of(&rs).iter().any(|n| n.iter().any(|b| b"<>&'\"".contains(b)));
        rep.case(&format!("cobbytes {:?} {}", src, shown(&rs)), meta);
        if meta {
            rep.count("cobbytes.name_with_metacharacter");
        }
        if let Some(d) = make_doc(rep, rs, src, false, on) {
            if i == 3 {
                rep.sample(json!({"cobbytes.report": String::from_utf8_lossy(&d.plain[..d.plain.len().min(400)])}));
            }
            docs.push(d);
        }
    }
    check_docs(rep, &docs, "c03cobbytes");
    // outside the quantifier: control characters
    let mut cdocs = vec![];
    for _ in 0..rep.budget(40, 5) {
        let mut rs = gen_set(&mut rng);
        if rs.is_empty() || rs.iter().any(|r| r.2.lines.keys().last() == Some(&u32::MAX)) || rs.iter().all(|r| r.2.functions.is_empty()) {
            continue;
        }
        rename_some(&mut rng, &mut rs, CONTROLS, true);
        rep.case(&format!("cobbytes controls {}", shown(&rs)), false);
        rep.count("cobbytes.controls.sets");
        if let Some(d) = make_doc(rep, rs, None, true, false) {
            cdocs.push(d);
        }
    }
    check_docs(rep, &cdocs, "c03cobbytesctl");
    rep.notes.push(format!("CobBytes streams: {} + {} reports, {:.1} s", docs.len(), cdocs.len(), t0.elapsed().as_secs_f64()));
}

fn expected_names_of(rs: &RS) -> Vec<Vec<u8>> {
    let mut v = vec![];
    for (_, rel, c) in rs {
        v.push(rel.to_str().unwrap().as_bytes().to_vec());
        for n in c.functions.keys() {
            v.push(n.as_bytes().to_vec());
        }
    }
    v
}

pub fn replay(rep: &mut Report, case: &Value) {
    let rs = parse_shown(case["results"].as_str().unwrap_or(""));
    let src = case["src"].as_str().map(|s| s.to_string());
    let controls = case["controls"].as_bool().unwrap_or(false);
    std::fs::create_dir_all(rep.workdir.join("cobbytes_out")).unwrap();
    rep.case(&format!("cobbytes {:?} {}", src, shown(&rs)), true);
    if let Some(d) = make_doc(rep, rs, src, controls, case["demangle"].as_bool().unwrap_or(false)) {
        check_docs(rep, &[d], "c03cobbytesreplay");
    }
}
