//! C03 — report fidelity: every output format decodes back to the aggregated data.
//! For generated result sets every writer of /repo is called in-process; its output is read by an
//! independent decoder (serde_json, quick-xml, line scanners — none of grcov's own readers) and
//! the decoded per-file information must equal the projection of the input that the format
//! carries. The array encodings (coveralls, covdir, html rows, BRDA-style quadruples) are tied to
//! the Lean `Writers` model.
use corrlib::gen::*;
use corrlib::pipe::{decode_lcov_report, show_map};
use corrlib::*;
use grcov::*;
use quick_xml::events::Event;
use serde_json::{json, Value};
use std::collections::{BTreeMap, BTreeSet};
use std::path::{Path, PathBuf};

type RS = Vec<(PathBuf, PathBuf, CovResult)>;
mod cobade;
mod cobbytes;
mod docs;
mod jsonbytes;
mod mainglue;
mod htmlbytes;
mod dm;
mod bounds;

fn want_map(rs: &RS, lines: bool, branches: bool, fns: bool) -> BTreeMap<String, CovResult> {
    rs.iter()
        .map(|(_, rel, c)| {
            let mut c = c.clone();
            if !lines {
                c.lines.clear();
            }
            if !branches {
                c.branches.clear();
            }
            if !fns {
                c.functions.clear();
            }
            (rel.to_str().unwrap().to_string(), c)
        })
        .collect()
}

fn fail(rep: &mut Report, fmt: &str, finding: Option<&str>, what: &str, rs: &RS, extra: Value) {
    let shown: Vec<(String, CovResult)> = rs.iter().map(|r| (r.1.to_str().unwrap().to_string(), r.2.clone())).collect();
    rep.fail(
        "oracle",
        finding,
        format!("{}: {}", fmt, what),
        json!({"op": "writers", "format": fmt, "results": show_results_ordered(&shown), "detail": extra}),
    );
}

// ---- decoders ------------------------------------------------------------------------------
fn dec_coveralls(v: &Value, with_fns: bool) -> Result<BTreeMap<String, CovResult>, String> {
    let mut m = BTreeMap::new();
    for sf in v["source_files"].as_array().ok_or("no source_files")? {
        let mut c = CovResult::default();
        for (i, e) in sf["coverage"].as_array().ok_or("no coverage")?.iter().enumerate() {
            if !e.is_null() {
                c.lines.insert(i as u32 + 1, e.as_u64().ok_or("coverage entry is not a u64")?);
            }
        }
        let b = sf["branches"].as_array().ok_or("no branches")?;
        if b.len() % 4 != 0 {
            return Err("branches not a list of quadruples".into());
        }
        for q in b.chunks(4) {
            let (l, n, t) = (q[0].as_u64().unwrap() as u32, q[2].as_u64().unwrap() as usize, q[3].as_u64().unwrap());
            let vec = c.branches.entry(l).or_default();
            if vec.len() != n {
                return Err(format!("branch numbers of line {} are not 0,1,2,…", l));
            }
            vec.push(t != 0);
        }
        if with_fns {
            for f in sf["functions"].as_array().ok_or("no functions")? {
                c.functions.insert(
                    f["name"].as_str().unwrap().to_string(),
                    Function { start: f["start"].as_u64().unwrap() as u32, executed: f["exec"].as_bool().unwrap() },
                );
            }
        }
        if m.insert(sf["name"].as_str().ok_or("no name")?.to_string(), c).is_some() {
            return Err("file listed twice".into());
        }
    }
    Ok(m)
}

fn dec_covdir(v: &Value, prefix: &str, out: &mut BTreeMap<String, CovResult>) -> Result<(), String> {
    if let Some(ch) = v.get("children") {
        for (name, child) in ch.as_object().ok_or("children not an object")? {
            let p = if prefix.is_empty() { name.clone() } else { format!("{}/{}", prefix, name) };
            dec_covdir(child, &p, out)?;
        }
        Ok(())
    } else {
        let mut c = CovResult::default();
        for (i, e) in v["coverage"].as_array().ok_or("file node without coverage")?.iter().enumerate() {
            let n = e.as_i64().map(|x| x as i128).or_else(|| e.as_u64().map(|x| x as i128)).ok_or("coverage entry not an integer")?;
            if n != -1 {
                if n < 0 {
                    return Err(format!("negative count {} at line {}", n, i + 1));
                }
                c.lines.insert(i as u32 + 1, n as u64);
            }
        }
        if out.insert(prefix.to_string(), c).is_some() {
            return Err("file listed twice".into());
        }
        Ok(())
    }
}

fn dec_ade(text: &str) -> Result<BTreeMap<String, (BTreeSet<u32>, BTreeSet<u32>, BTreeMap<String, (BTreeSet<u32>, BTreeSet<u32>)>)>, String> {
    let mut m: BTreeMap<String, (BTreeSet<u32>, BTreeSet<u32>, BTreeMap<String, (BTreeSet<u32>, BTreeSet<u32>)>)> = BTreeMap::new();
    let set = |v: &Value| -> BTreeSet<u32> { v.as_array().map(|a| a.iter().map(|x| x.as_u64().unwrap() as u32).collect()).unwrap_or_default() };
    for l in text.lines() {
        let v: Value = serde_json::from_str(l).map_err(|e| e.to_string())?;
        let name = v["file"]["name"].as_str().ok_or("no file name")?.to_string();
        let e = m.entry(name).or_default();
        if v.get("is_file").is_some() {
            e.0 = set(&v["file"]["covered"]);
            e.1 = set(&v["file"]["uncovered"]);
            e.2.insert("<orphan>".into(), (set(&v["method"]["covered"]), set(&v["method"]["uncovered"])));
        } else {
            e.2.insert(v["method"]["name"].as_str().unwrap_or("").to_string(), (set(&v["method"]["covered"]), set(&v["method"]["uncovered"])));
        }
    }
    Ok(m)
}

/// per file: the class-level lines/branches, and per method name its (line -> hits) rows
type CobFile = (CovResult, BTreeMap<String, BTreeMap<u32, u64>>);

fn dec_cobertura(xml: &str) -> Result<BTreeMap<String, CobFile>, String> {
    let mut rd = quick_xml::Reader::from_str(xml);
    let mut m: BTreeMap<String, CobFile> = BTreeMap::new();
    let mut cur: Option<String> = None;
    let mut in_method = false;
    let mut cur_method = String::new();
    let mut cur_line: Option<u32> = None;
    let attr = |e: &quick_xml::events::BytesStart, k: &str| -> Option<String> {
        e.attributes().flatten().find(|a| a.key.as_ref() == k.as_bytes()).map(|a| a.unescape_value().unwrap().to_string())
    };
    loop {
        match rd.read_event() {
            Ok(Event::Eof) => break,
            Err(e) => return Err(format!("xml error: {}", e)),
            Ok(Event::Start(e)) | Ok(Event::Empty(e)) => {
                match e.name().as_ref() {
                    b"class" => {
                        let f = attr(&e, "filename").ok_or("class without filename")?;
                        if m.insert(f.clone(), Default::default()).is_some() {
                            return Err("file listed twice".into());
                        }
                        cur = Some(f);
                    }
                    b"method" => {
                        in_method = true;
                        cur_method = attr(&e, "name").unwrap_or_default();
                        if let Some(f) = &cur {
                            if m.get_mut(f).unwrap().1.insert(cur_method.clone(), BTreeMap::new()).is_some() {
                                return Err(format!("method {} listed twice", cur_method));
                            }
                        }
                    }
                    b"line" if in_method => {
                        let n: u32 = attr(&e, "number").ok_or("line without number")?.parse().map_err(|_| "bad number")?;
                        let h: u64 = attr(&e, "hits").ok_or("line without hits")?.parse().map_err(|_| "bad hits")?;
                        let f = cur.as_ref().ok_or("line outside class")?;
                        if m.get_mut(f).unwrap().1.get_mut(&cur_method).unwrap().insert(n, h).is_some() {
                            return Err(format!("line {} listed twice in method {}", n, cur_method));
                        }
                    }
                    b"line" if !in_method => {
                        let n: u32 = attr(&e, "number").ok_or("line without number")?.parse().map_err(|_| "bad number")?;
                        let h: u64 = attr(&e, "hits").ok_or("line without hits")?.parse().map_err(|_| "bad hits")?;
                        let f = cur.as_ref().ok_or("line outside class")?;
                        if m.get_mut(f).unwrap().0.lines.insert(n, h).is_some() {
                            return Err(format!("line {} listed twice", n));
                        }
                        cur_line = Some(n);
                    }
                    b"condition" if !in_method => {
                        let f = cur.as_ref().unwrap();
                        let l = cur_line.ok_or("condition outside line")?;
                        let n: usize = attr(&e, "number").unwrap().parse().unwrap();
                        let cov = attr(&e, "coverage").unwrap();
                        let v = m.get_mut(f).unwrap().0.branches.entry(l).or_default();
                        if v.len() != n {
                            return Err("condition numbers not 0,1,2,…".into());
                        }
                        v.push(cov != "0" && cov != "0.0");
                    }
                    _ => {}
                }
            }
            Ok(Event::End(e)) => {
                if e.name().as_ref() == b"method" {
                    in_method = false;
                }
                if e.name().as_ref() == b"class" {
                    cur = None;
                }
            }
            _ => {}
        }
    }
    Ok(m)
}

fn unescape_html(s: &str) -> String {
    s.replace("&lt;", "<").replace("&gt;", ">").replace("&quot;", "\"").replace("&#x27;", "'").replace("&#x2F;", "/").replace("&amp;", "&")
}

/// rows of a file page: (line number, Some(count) | None = not instrumented, source text)
fn dec_html_file(page: &str) -> Result<Vec<(u32, Option<u64>, String)>, String> {
    let mut rows = vec![];
    let mut rest = page;
    while let Some(i) = rest.find("role=\"row\">") {
        rest = &rest[i..];
        let id_i = rest.find("id=\"").ok_or("row without id")? + 4;
        let id_e = rest[id_i..].find('"').unwrap() + id_i;
        let no: u32 = rest[id_i..id_e].parse().map_err(|_| "bad id")?;
        let al_i = rest.find("aria-label=\"").ok_or("row without aria-label")? + 12;
        let al_e = rest[al_i..].find('"').unwrap() + al_i;
        let al = &rest[al_i..al_e];
        let count = if al == "no coverage" { None } else { Some(al.parse::<u64>().map_err(|_| format!("bad aria-label {:?}", al))?) };
        let pre_i = rest.find("<pre").ok_or("row without pre")?;
        let pre_s = rest[pre_i..].find('>').unwrap() + pre_i + 1;
        let pre_e = rest[pre_s..].find("</pre>").ok_or("unterminated pre")? + pre_s;
        rows.push((no, count, unescape_html(&rest[pre_s..pre_e])));
        rest = &rest[pre_e..];
    }
    Ok(rows)
}

fn cmp(rep: &mut Report, fmt: &str, rs: &RS, got: Result<BTreeMap<String, CovResult>, String>, want: BTreeMap<String, CovResult>) {
    match got {
        Err(e) => fail(rep, fmt, None, &format!("output cannot be decoded: {}", e), rs, json!(null)),
        Ok(g) => {
            if show_map(&g) != show_map(&want) {
                // attribute the known cobertura finding: a branch on a line without a line entry is not emitted
                let finding = if fmt.starts_with("cobertura") {
                    let mut w2 = want.clone();
                    for c in w2.values_mut() {
                        let keys: Vec<u32> = c.branches.keys().cloned().collect();
                        for k in keys {
                            if !c.lines.contains_key(&k) {
                                c.branches.remove(&k);
                            }
                        }
                    }
                    if show_map(&g) == show_map(&w2) { Some("C03-cobertura-branch-without-line") } else { None }
                } else {
                    None
                };
                fail(rep, fmt, finding, "decoded report differs from the results (a file, line, count, branch or function added, dropped or altered)", rs,
                    json!({"decoded": show_map(&g), "expected": show_map(&want)}));
            }
        }
    }
}

pub fn run(rep: &mut Report) {
    rep.rule = "result sets of 0-6 files (relative and absolute paths, lines >= 1 with gaps, counts incl. 2^53, 2^63, 2^64-1, \
                branch vectors on lines with and without a line entry, functions with non-ASCII/comma names) through every \
                writer and option variant (coveralls/coveralls+, cobertura/pretty, covdir, ade, files, markdown, lcov, html \
                with a generated source tree); non-trivial = the set has a count >= 2^63 or a branch on a line without line \
                entry or >= 3 files; distinct = distinct canonical result set"
        .to_string();
    let mut rng = Rng::new(rep.seed ^ 0xC03);
    let n = rep.budget(250, 56);
    let out = rep.workdir.join("out");
    std::fs::create_dir_all(&out).unwrap();
    let mut reqs: Vec<String> = vec![];
    let mut impl_arr: Vec<String> = vec![];
    for i in 0..n {
        if rep.verdict_clear() {
            break;
        }
        let mut rs = gen_result_set(&mut rng, 6);
        if i == 0 {
            // witness of the repaired covdir/html defect: counts >= 2^63
            let mut c = CovResult::default();
            c.lines.insert(1, u64::MAX);
            c.lines.insert(3, 1 << 63);
            rs = vec![(PathBuf::from("/src_root/big.c"), PathBuf::from("big.c"), c)];
        }
        let canon: Vec<(String, CovResult)> = rs.iter().map(|r| (r.1.to_str().unwrap().to_string(), r.2.clone())).collect();
        let big = rs.iter().any(|r| r.2.lines.values().any(|v| *v >= 1 << 63));
        let orphan_branch = rs.iter().any(|r| r.2.branches.keys().any(|k| !r.2.lines.contains_key(k)));
        rep.case(&show_results_ordered(&canon), big || orphan_branch || rs.len() >= 3);
        if big {
            rep.count("set.count_ge_2^63");
        }
        if orphan_branch {
            rep.count("set.branch_without_line_entry");
        }
        rep.count(&format!("set.files={}", rs.len()));
        if i == 1 {
            rep.sample(json!({"results": show_results_ordered(&canon)}));
        }
        let read = |p: &Path| std::fs::read_to_string(p).unwrap_or_default();
        // lcov
        let p = out.join("r.info");
        if guarded(|| output_lcov(&rs, Some(&p), false)).is_err() {
            fail(rep, "lcov", None, "writer panicked", &rs, json!(null));
        } else {
            cmp(rep, "lcov", &rs, decode_lcov_report(&read(&p)), want_map(&rs, true, true, true));
        }
        // coveralls / coveralls+
        for plus in [false, true] {
            let p = out.join("c.json");
            let r = guarded(|| output_coveralls(&rs, Some("tok"), Some("svc"), "1", Some("2"), "3", None, "sha", plus, Some(&p), "main", false, false));
            let fmt = if plus { "coveralls+" } else { "coveralls" };
            if let Err(e) = r {
                fail(rep, fmt, None, &format!("writer panicked: {}", e), &rs, json!(null));
                continue;
            }
            let v: Result<Value, _> = serde_json::from_str(&read(&p));
            match v {
                Err(e) => fail(rep, fmt, None, &format!("invalid JSON: {}", e), &rs, json!(null)),
                Ok(v) => cmp(rep, fmt, &rs, dec_coveralls(&v, plus), want_map(&rs, true, true, plus)),
            }
        }
        // covdir (absolute rel paths are keyed by their components; compare on relative ones)
        {
            let p = out.join("d.json");
            let rel_only: RS = rs.iter().filter(|r| r.1.is_relative()).cloned().collect();
            if let Err(e) = guarded(|| output_covdir(&rel_only, Some(&p), 2)) {
                fail(rep, "covdir", None, &format!("writer panicked: {}", e), &rel_only, json!(null));
            } else {
                match serde_json::from_str::<Value>(&read(&p)) {
                    Err(e) => fail(rep, "covdir", None, &format!("invalid JSON: {}", e), &rel_only, json!(null)),
                    Ok(v) => {
                        let mut m = BTreeMap::new();
                        let r = dec_covdir(&v, "", &mut m).map(|_| m);
                        // trailing uninstrumented lines do not exist in the array: compare line maps
                        cmp(rep, "covdir", &rel_only, r, want_map(&rel_only, true, false, false));
                        // model tie of the array encoding
                        for (_, rel, c) in rel_only.iter().take(2) {
                            let arr = v.pointer(&format!("/children/{}", rel.to_str().unwrap().replace('/', "/children/")));
                            if let Some(a) = arr.and_then(|x| x.get("coverage")) {
                                reqs.push(format!("c03.covdir {}", show_cov(c)));
                                impl_arr.push(a.as_array().unwrap().iter().map(|x| x.to_string()).collect::<Vec<_>>().join(","));
                            }
                        }
                    }
                }
            }
        }
        // ade
        {
            let p = out.join("a.json");
            if let Err(e) = guarded(|| output_activedata_etl(&rs, Some(&p), false)) {
                fail(rep, "ade", None, &format!("writer panicked: {}", e), &rs, json!(null));
            } else {
                match dec_ade(&read(&p)) {
                    Err(e) => fail(rep, "ade", None, &format!("cannot decode: {}", e), &rs, json!(null)),
                    Ok(m) => {
                        for (_, rel, c) in &rs {
                            let cov: BTreeSet<u32> = c.lines.iter().filter(|(_, v)| **v > 0).map(|(k, _)| *k).collect();
                            let unc: BTreeSet<u32> = c.lines.iter().filter(|(_, v)| **v == 0).map(|(k, _)| *k).collect();
                            match m.get(rel.to_str().unwrap()) {
                                None => fail(rep, "ade", None, "file missing", &rs, json!(rel.to_str())),
                                Some((gc, gu, parts)) => {
                                    let pc: BTreeSet<u32> = parts.values().flat_map(|p| p.0.iter().cloned()).collect();
                                    let pu: BTreeSet<u32> = parts.values().flat_map(|p| p.1.iter().cloned()).collect();
                                    let names: BTreeSet<String> = parts.keys().filter(|k| *k != "<orphan>").cloned().collect();
                                    let wn: BTreeSet<String> = c.functions.keys().cloned().collect();
                                    if gc != &cov || gu != &unc || pc != cov || pu != unc || names != wn {
                                        fail(rep, "ade", None, "covered/uncovered line sets or the function parts differ from the results", &rs, json!(rel.to_str()));
                                    }
                                }
                            }
                        }
                        if m.len() != rs.len() {
                            fail(rep, "ade", None, "number of files differs", &rs, json!(null));
                        }
                    }
                }
            }
        }
        // files
        {
            let p = out.join("f.txt");
            let _ = guarded(|| output_files(&rs, Some(&p)));
            let got: Vec<String> = read(&p).lines().map(|s| s.to_string()).collect();
            let want: Vec<String> = rs.iter().map(|r| r.1.to_str().unwrap().to_string()).collect();
            if got != want {
                fail(rep, "files", None, "path list differs", &rs, json!({"got": got}));
            }
        }
        // markdown
        {
            let p = out.join("m.md");
            if let Err(e) = guarded(|| output_markdown(&rs, Some(&p), 2)) {
                fail(rep, "markdown", None, &format!("writer panicked: {}", e), &rs, json!(null));
            } else {
                let text = read(&p);
                let rows: Vec<Vec<String>> = text.lines().filter(|l| l.starts_with('|')).skip(2).map(|l| l.trim_matches('|').split('|').map(|c| c.trim().to_string()).collect()).collect();
                if rows.len() != rs.len() {
                    fail(rep, "markdown", None, "number of rows differs from the number of files", &rs, json!({"text": text}));
                } else {
                    for (row, (_, rel, c)) in rows.iter().zip(rs.iter()) {
                        let missed: BTreeSet<u32> = c.lines.iter().filter(|(_, v)| **v == 0).map(|(k, _)| *k).collect();
                        let covered: BTreeSet<u32> = c.lines.iter().filter(|(_, v)| **v > 0).map(|(k, _)| *k).collect();
                        let want_ct = format!("{} / {}", covered.len(), c.lines.len());
                        let mut ok = row.len() == 4 && row[0] == rel.to_str().unwrap().trim() && row[2] == want_ct; // table cells are padded: outer blanks of a name are not recoverable from this format
                        let mut in_ranges: BTreeSet<u32> = BTreeSet::new();
                        if ok {
                            for r in row[3].split(", ").filter(|r| !r.is_empty()) {
                                let (a, b) = match r.split_once('-') {
                                    Some((a, b)) => (a.parse::<u32>().unwrap_or(0), b.parse::<u32>().unwrap_or(0)),
                                    None => (r.parse::<u32>().unwrap_or(0), r.parse::<u32>().unwrap_or(0)),
                                };
                                ok &= missed.contains(&a) && missed.contains(&b) && a <= b;
                                ok &= !covered.iter().any(|l| *l >= a && *l <= b);
                                in_ranges.extend(missed.iter().filter(|l| **l >= a && **l <= b));
                            }
                            ok &= in_ranges == missed;
                        }
                        if !ok {
                            fail(rep, "markdown", None, "row does not carry the file's covered/total and missed ranges", &rs, json!({"row": row}));
                        }
                    }
                }
            }
        }
        // cobertura / pretty
        for pretty in [false, true] {
            let p = out.join("x.xml");
            let fmt = if pretty { "cobertura-pretty" } else { "cobertura" };
            if let Err(e) = guarded(|| output_cobertura(None, &rs, Some(&p), false, pretty)) {
                fail(rep, fmt, None, &format!("writer panicked: {}", e), &rs, json!(null));
                continue;
            }
            match dec_cobertura(&read(&p)) {
                Err(e) => fail(rep, fmt, None, &format!("cannot decode: {}", e), &rs, json!(null)),
                Ok(m) => {
                    let names_ok = rs.iter().all(|(_, rel, c)| {
                        m.get(rel.to_str().unwrap()).map(|x| x.1.keys().cloned().collect::<BTreeSet<String>>() == c.functions.keys().cloned().collect::<BTreeSet<String>>()).unwrap_or(false)
                    });
                    if !names_ok {
                        fail(rep, fmt, None, "method names differ from the function names", &rs, json!(null));
                    }
                    // a method lists the file's lines from its start line up to the next function start
                    for (_, rel, c) in rs.iter() {
                        let Some(x) = m.get(rel.to_str().unwrap()) else { continue };
                        for (name, f) in &c.functions {
                            let next = c.functions.values().map(|g| g.start).filter(|s| *s > f.start).min();
                            let want: BTreeMap<u32, u64> = c.lines.iter().filter(|(l, _)| **l >= f.start && next.map(|n| **l < n).unwrap_or(true)).map(|(l, h)| (*l, *h)).collect();
                            rep.count(if want.is_empty() { "cobertura.method_without_lines" } else { "cobertura.method_with_lines" });
                            if c.functions.values().filter(|g| g.start == f.start).count() > 1 {
                                rep.count("cobertura.method_sharing_its_start_line");
                            }
                            if let Some(got) = x.1.get(name) {
                                if *got != want {
                                    fail(rep, fmt, None, &format!("method {:?} does not list the lines (with their hits) from its start line to the next function start: {:?} instead of {:?}", name, got, want), &rs, json!({"file": rel, "method": name}));
                                    break;
                                }
                            }
                        }
                    }
                    let g: BTreeMap<String, CovResult> = m.into_iter().map(|(k, v)| (k, v.0)).collect();
                    cmp(rep, fmt, &rs, Ok(g), want_map(&rs, true, true, false));
                }
            }
        }
        // html (every 4th set): source files at least as long as the highest instrumented line
        if i % 4 == 0 {
            html_case(rep, &mut rng, &rs, &mut reqs, &mut impl_arr);
        }
    }
    // model tie
    let ans = run_model(&reqs, &rep.workdir, "c03");
    for k in 0..reqs.len() {
        if ans[k] != impl_arr[k] {
            rep.disagreements_checked += 1;
            rep.fail("disagreement", None, "array encoding differs from the Writers model".into(),
                json!({"op": "array", "request": reqs[k], "impl": impl_arr[k], "model": ans[k]}));
        }
    }
    cobade::run(rep);
    docs::run(rep);
    jsonbytes::run(rep);
    cobbytes::run(rep);
    mainglue::run(rep);
    htmlbytes::run(rep);
    dm::run(rep);
    bounds::run(rep);
}

fn html_case(rep: &mut Report, rng: &mut Rng, rs: &RS, reqs: &mut Vec<String>, impl_arr: &mut Vec<String>) {
    let root = rep.workdir.join("html_src");
    let outd = rep.workdir.join("html_out");
    let _ = std::fs::remove_dir_all(&root);
    let _ = std::fs::remove_dir_all(&outd);
    let texts = ["int a = 1;", "  if (x < y && z > \"q\") {", "}", "", "// é ü 語 & <b>", "\treturn 'c' / 2;"];
    let mut set: RS = vec![];
    let mut srcs: BTreeMap<String, Vec<String>> = BTreeMap::new();
    for (_, rel, c) in rs.iter().filter(|r| r.1.is_relative()) {
        let mut c = c.clone();
        // keep the page small: drop far-away lines
        c.lines.retain(|k, _| *k <= 60);
        let abs = root.join(rel);
        std::fs::create_dir_all(abs.parent().unwrap()).unwrap();
        let nlines = c.lines.keys().last().cloned().unwrap_or(0) + rng.below(4) as u32;
        let lines: Vec<String> = (0..nlines).map(|_| rng.pick(&texts).to_string()).collect();
        std::fs::write(&abs, lines.join("\n") + if nlines > 0 { "\n" } else { "" }).unwrap();
        srcs.insert(rel.to_str().unwrap().to_string(), lines);
        set.push((abs, rel.clone(), c));
    }
    if set.is_empty() {
        return;
    }
    let r = guarded(|| output_html(&set, Some(&outd), 2, true, None, 2, &None, true, grcov::html::HtmlResources::Bundled));
    if let Err(e) = r {
        fail(rep, "html", None, &format!("writer panicked: {}", e), &set, json!(null));
        return;
    }
    rep.count("html.sets");
    for (_, rel, c) in &set {
        let page_path = {
            let mut s = rel.to_str().unwrap().to_string();
            s.push_str(".html");
            outd.join(s)
        };
        let page = match std::fs::read_to_string(&page_path) {
            Ok(p) => p,
            Err(_) => {
                fail(rep, "html", None, "file page missing", &set, json!(rel.to_str()));
                continue;
            }
        };
        match dec_html_file(&page) {
            Err(e) => fail(rep, "html", None, &format!("cannot decode page: {}", e), &set, json!(rel.to_str())),
            Ok(rows) => {
                let src = &srcs[rel.to_str().unwrap()];
                let mut ok = rows.len() == src.len();
                for (k, (no, count, text)) in rows.iter().enumerate() {
                    ok &= *no as usize == k + 1 && *count == c.lines.get(no).cloned() && Some(text) == src.get(k);
                }
                if !ok {
                    fail(rep, "html", None, "rows differ from (line number, count or not-instrumented, source text)", &set,
                        json!({"file": rel.to_str(), "rows": rows.iter().take(8).map(|r| format!("{:?}", r)).collect::<Vec<_>>()}));
                }
                if reqs.len() < 4000 {
                    reqs.push(format!("c03.html {} {}", src.len(), show_cov(c)));
                    impl_arr.push(rows.iter().map(|r| r.1.map(|x| x.to_string()).unwrap_or("-1".into())).collect::<Vec<_>>().join(","));
                }
            }
        }
    }
}

pub fn replay(rep: &mut Report, case: &serde_json::Value) {
    if case["op"].as_str().map(|o| o.starts_with("c03.cob") || o.starts_with("c03.ade")).unwrap_or(false) {
        return cobade::replay(rep, case);
    }
    if case["op"].as_str().map(|o| o.starts_with("c03.docs.")).unwrap_or(false) { return docs::replay(rep, case); }
    if case["op"].as_str().map(|o| o.starts_with("c03.json.")).unwrap_or(false) { return jsonbytes::replay(rep, case); }
    if case["op"].as_str().map(|o| o.starts_with("main.")).unwrap_or(false) { return mainglue::replay(rep, case); }
    if case["op"].as_str().map(|o| o.starts_with("c03.htmlb.")).unwrap_or(false) { return htmlbytes::replay(rep, case); }
    if case["op"].as_str() == Some("c03.lcov") { return dm::replay(rep, case); }
    rep.notes.push(format!("replay: re-run ./check C03 with the same seed (format {})", case["format"]));
}

fn main() {
    corrlib::run_main("C03", run, replay);
}
