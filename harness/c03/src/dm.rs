//! C03, part FnOrder / demangling ON (the default of the CLI; second review, item 5).
//!
//! `Dm`: the REAL demangler as data. The printed name of a function is whatever
//! `symbolic_demangle` makes of it (`DemangleOptions::name_only()`); the harness cannot link it, so
//! it asks the real code: every name is put, ALONE, into a one-function file and written by
//! `output_activedata_etl(.., demangle = true)`; the `method.name` of that file's single method
//! record is the printed name. (One function per file: no order, no collision can interfere.)
//! The table goes to the Lean driver as the `D<mangled>=<printed>,…` argument
//! (`Writers.dmOfTable`), so the model is never told in which ORDER anything is listed.
//!
//! Stream `c03.lcov`: result sets whose functions are Itanium C++ overloads, constructor variants,
//! template instantiations, Rust legacy symbols differing in the hash, Rust v0, MSVC and plain
//! names (many files have two names that print alike), through the real `output_lcov`,
//! `output_coveralls` (+), `output_cobertura` and `output_activedata_etl` with demangling on (and,
//! for a fifth of the sets, off). lcov is tied byte for byte to `Writers.FnOrder.lcov` (op
//! `c03.lcov`); the byte ties of the other three with demangling on are in `jsonbytes`, `cobbytes`
//! and `cobade`. Oracle for all four, independent of the model: the multiset of
//! (start, printed name, executed) triples of every file = the multiset read from the report
//! (names only where the format has no start/flag), record by record; and for lcov, whose `FNDA`
//! refers to `FN` BY NAME, the triples a name-keyed reader rebuilds – that is where two overloads
//! become one function: finding C03-demangle-collapses-overloads.
use corrlib::*;
use grcov::*;
use serde_json::{json, Value};
use std::collections::{BTreeMap, BTreeSet};
use std::path::{Path, PathBuf};

pub(crate) type RS = Vec<(PathBuf, PathBuf, CovResult)>;

pub const FINDING: &str = "C03-demangle-collapses-overloads";

/// names that really demangle (and groups that print alike), plus plain names – among them plain
/// names equal to a printed name (`foo`, `area`) and a pair whose mangled order differs from the
/// order of the printed names (`_Z1bv` < `_Z2aav` but `aa` < `b`)
pub const MANGLED: &[&str] = &[
    "_Z3fooi",
    "_Z3food",
    "_Z3foov",
    "_Z4areai",
    "_Z4aread",
    "_ZN3foo3barEv",
    "_ZN3foo3barEi",
    "_ZN1aC1Ev",
    "_ZN1aC2Ev",
    "_ZN1aD1Ev",
    "_Z3maxIiET_S0_S0_",
    "_Z3maxIdET_S0_S0_",
    "_Z1bv",
    "_Z2aav",
    "_ZN4core3fmt5Write9write_fmt17h0123456789abcdefE",
    "_ZN4core3fmt5Write9write_fmt17hfedcba9876543210E",
    "_ZN5alloc3vec12Vec$LT$T$GT$4push17h1111111111111111E",
    "_ZN5alloc3vec12Vec$LT$T$GT$4push17h2222222222222222E",
    "_RNvCs1234_7mycrate3foo",
    "_RNvCs1234_7mycrate3bar",
    "?foo@@YAHH@Z",
    "?foo@@YANN@Z",
    "__ZN3foo3barEv",
];
pub const PLAIN: &[&str] = &["main", "foo", "area", "foo::bar", "a::a", "b", "aa", "é_fn", "名前", "zeta", "Alpha", "alpha"];

pub(crate) struct Dm {
    cache: BTreeMap<String, String>,
    dir: PathBuf,
}

impl Dm {
    pub fn new(workdir: &Path) -> Dm {
        let dir = workdir.join("dm_probe");
        let _ = std::fs::create_dir_all(&dir);
        Dm { cache: BTreeMap::new(), dir }
    }

    /// ask the real code for the printed names of every name not yet known
    pub fn resolve<'a>(&mut self, names: impl Iterator<Item = &'a String>) -> Result<(), String> {
        let todo: Vec<String> = names.filter(|n| !self.cache.contains_key(*n)).cloned().collect::<BTreeSet<_>>().into_iter().collect();
        if todo.is_empty() {
            return Ok(());
        }
        let rs: RS = todo
            .iter()
            .enumerate()
            .map(|(i, n)| {
                let mut c = CovResult::default();
                c.functions.insert(n.clone(), Function { start: 1, executed: false });
                (PathBuf::from(format!("/dm/{}.c", i)), PathBuf::from(format!("{}.c", i)), c)
            })
            .collect();
        let _ = std::fs::create_dir_all(&self.dir);
        let p = self.dir.join("probe.json");
        let _ = std::fs::remove_file(&p);
        guarded(|| output_activedata_etl(&rs, Some(&p), true)).map_err(|e| format!("demangler probe: the writer panicked: {}", e))?;
        let text = std::fs::read_to_string(&p).map_err(|e| format!("demangler probe: {}", e))?;
        let mut got: BTreeMap<String, String> = BTreeMap::new();
        for l in text.lines() {
            let v: Value = serde_json::from_str(l).map_err(|e| format!("demangler probe: {}", e))?;
            if v.get("is_file").is_none() {
                let f = v["file"]["name"].as_str().unwrap_or("").to_string();
                let n = v["method"]["name"].as_str().ok_or("demangler probe: method without a name")?.to_string();
                if got.insert(f, n).is_some() {
                    return Err("demangler probe: two method records for a one-function file".into());
                }
            }
        }
        for (i, n) in todo.iter().enumerate() {
            let printed = got.get(&format!("{}.c", i)).ok_or_else(|| format!("demangler probe: no record for {:?}", n))?;
            self.cache.insert(n.clone(), printed.clone());
        }
        Ok(())
    }

    pub fn resolve_set(&mut self, rs: &RS) -> Result<(), String> {
        self.resolve(rs.iter().flat_map(|r| r.2.functions.keys()))
    }

    /// the printed name (`on` = demangling on)
    pub fn name(&self, on: bool, n: &str) -> String {
        if on {
            self.cache.get(n).cloned().unwrap_or_else(|| n.to_string())
        } else {
            n.to_string()
        }
    }

    /// the driver argument: every name of the set that prints differently; "" with demangling off
    pub fn arg(&self, on: bool, rs: &RS) -> String {
        if !on {
            return String::new();
        }
        let names: BTreeSet<&String> = rs.iter().flat_map(|r| r.2.functions.keys()).collect();
        let es: Vec<String> = names.iter().filter(|n| self.name(true, n) != ***n).map(|n| format!("{}={}", hex(n.as_bytes()), hex(self.name(true, n).as_bytes()))).collect();
        format!("D{}", es.join(","))
    }

    /// two functions of the file print alike
    pub fn collides(&self, on: bool, c: &CovResult) -> bool {
        let printed: BTreeSet<String> = c.functions.keys().map(|n| self.name(on, n)).collect();
        printed.len() < c.functions.len()
    }

    /// the multiset of (start, printed name, executed) of a file, sorted
    pub fn triples(&self, on: bool, c: &CovResult) -> Vec<(u32, String, bool)> {
        let mut v: Vec<(u32, String, bool)> = c.functions.iter().map(|(n, f)| (f.start, self.name(on, n), f.executed)).collect();
        v.sort();
        v
    }
}

/// insert a few functions that really demangle into the files of a generated set (used by the
/// byte-tie streams of the other modules)
pub(crate) fn sprinkle(rng: &mut Rng, rs: &mut RS) {
    for r in rs.iter_mut() {
        let group = rng.chance(1, 2);
        for _ in 0..rng.below(4) {
            let n = if group { MANGLED[(rng.below(6)) as usize] } else { *rng.pick(MANGLED) };
            r.2.functions.insert(n.to_string(), Function { start: rng.range(1, 30) as u32, executed: rng.chance(1, 2) });
        }
    }
}

fn gen_cov(rng: &mut Rng) -> CovResult {
    let mut c = CovResult::default();
    for _ in 0..rng.below(7) {
        c.lines.insert(rng.range(1, 24) as u32, if rng.chance(1, 3) { 0 } else if rng.chance(1, 10) { u64::MAX } else { rng.range(1, 90) });
    }
    for _ in 0..rng.below(3) {
        c.branches.insert(rng.range(1, 24) as u32, (0..rng.range(1, 4)).map(|_| rng.chance(1, 2)).collect());
    }
    // a group of names that print alike, or a free mix
    let k = rng.below(6);
    let base = (rng.below(MANGLED.len() as u64 - 2)) as usize;
    for _ in 0..k {
        let n = match rng.below(10) {
            0..=3 => MANGLED[base + rng.below(3) as usize],
            4..=6 => *rng.pick(MANGLED),
            _ => *rng.pick(PLAIN),
        };
        c.functions.insert(n.to_string(), Function { start: rng.range(1, 26) as u32, executed: rng.chance(1, 2) });
    }
    c
}

fn gen_set(rng: &mut Rng) -> RS {
    let paths = ["shapes.cpp", "src/lib.rs", "a/b/tmpl.hpp", "naïve/ünï.cc", "x.c"];
    let mut used = BTreeSet::new();
    let mut out = vec![];
    for _ in 0..rng.range(1, 4) {
        let p = rng.pick(&paths).to_string();
        if used.insert(p.clone()) {
            out.push((PathBuf::from("/src_root").join(&p), PathBuf::from(&p), gen_cov(rng)));
        }
    }
    out
}

pub(crate) fn shown(rs: &RS) -> String {
    rs.iter().map(|(_, rel, c)| format!("K{}={}", hex(rel.to_str().unwrap().as_bytes()), show_cov(c))).collect::<Vec<_>>().join(" ")
}

fn parse_shown(s: &str) -> RS {
    s.split(' ')
        .filter(|e| e.starts_with('K'))
        .map(|e| {
            let (k, c) = e[1..].split_once('=').unwrap();
            let p = String::from_utf8_lossy(&unhex(k)).to_string();
            (PathBuf::from("/src_root").join(&p), PathBuf::from(&p), parse_cov(c))
        })
        .collect()
}

// ---- an independent reader of the lcov report (record level) -----------------------------------
#[derive(Default, Debug)]
struct LRec {
    sf: String,
    fns: Vec<(u32, String)>,
    fndas: Vec<(u64, String)>,
    fnf: Option<u64>,
    fnh: Option<u64>,
    das: Vec<(u32, u64)>,
    brdas: usize,
}

fn read_lcov(text: &str) -> Result<Vec<LRec>, String> {
    let mut out = vec![];
    let mut cur: Option<LRec> = None;
    for l in text.lines() {
        let (k, v) = match l.split_once(':') {
            Some(x) => x,
            None => {
                if l == "end_of_record" {
                    out.push(cur.take().ok_or("end_of_record without SF")?);
                    continue;
                }
                return Err(format!("line without a key: {:?}", l));
            }
        };
        if k == "TN" {
            continue;
        }
        if k == "SF" {
            if cur.is_some() {
                return Err("SF inside a record".into());
            }
            cur = Some(LRec { sf: v.to_string(), ..Default::default() });
            continue;
        }
        let r = cur.as_mut().ok_or_else(|| format!("{} outside a record", k))?;
        let num = |s: &str| s.parse::<u64>().map_err(|_| format!("not a number in {:?}", l));
        match k {
            "FN" => {
                let (a, b) = v.split_once(',').ok_or("FN without a name")?;
                r.fns.push((num(a)? as u32, b.to_string()));
            }
            "FNDA" => {
                let (a, b) = v.split_once(',').ok_or("FNDA without a name")?;
                r.fndas.push((num(a)?, b.to_string()));
            }
            "FNF" => r.fnf = Some(num(v)?),
            "FNH" => r.fnh = Some(num(v)?),
            "DA" => {
                let (a, b) = v.split_once(',').ok_or("DA without a count")?;
                r.das.push((num(a)? as u32, num(b)?));
            }
            "BRDA" => r.brdas += 1,
            "BRF" | "BRH" | "LF" | "LH" => {}
            _ => return Err(format!("unknown record {:?}", l)),
        }
    }
    if cur.is_some() {
        return Err("record without end_of_record".into());
    }
    Ok(out)
}

type OErr = (Option<&'static str>, String);

/// the function clause of C03 on the decoded real lcov report
fn lcov_oracle(dm: &Dm, on: bool, rs: &RS, recs: &[LRec]) -> Result<(), OErr> {
    if recs.len() != rs.len() {
        return Err((None, format!("{} records for {} files", recs.len(), rs.len())));
    }
    for (r, (_, rel, c)) in recs.iter().zip(rs.iter()) {
        let rel = rel.to_str().unwrap();
        if r.sf != rel {
            return Err((None, format!("record {:?} where {:?} was expected", r.sf, rel)));
        }
        let want_das: Vec<(u32, u64)> = c.lines.iter().map(|(l, n)| (*l, *n)).collect();
        if r.das != want_das {
            return Err((None, format!("DA records of {:?} differ from the lines", rel)));
        }
        // record level: every function is listed once in FN and once in FNDA under its printed name
        let mut got_fn = r.fns.clone();
        got_fn.sort();
        let mut want_fn: Vec<(u32, String)> = c.functions.iter().map(|(n, f)| (f.start, dm.name(on, n))).collect();
        want_fn.sort();
        if got_fn != want_fn {
            return Err((None, format!("FN records of {:?}: {:?}; the functions are {:?} (a function added, dropped, duplicated or renumbered)", rel, got_fn, want_fn)));
        }
        let mut got_da: Vec<(bool, String)> = vec![];
        for (n, name) in &r.fndas {
            if *n > 1 {
                return Err((None, format!("FNDA count {} of {:?}", n, name)));
            }
            got_da.push((*n == 1, name.clone()));
        }
        got_da.sort();
        let mut want_da: Vec<(bool, String)> = c.functions.iter().map(|(n, f)| (f.executed, dm.name(on, n))).collect();
        want_da.sort();
        if got_da != want_da {
            return Err((None, format!("FNDA records of {:?}: {:?}; the functions are {:?}", rel, got_da, want_da)));
        }
        let (wf, wh) = (c.functions.len() as u64, c.functions.values().filter(|f| f.executed).count() as u64);
        let want_sum = if c.functions.is_empty() { (None, None) } else { (Some(wf), Some(wh)) };
        if (r.fnf, r.fnh) != want_sum {
            return Err((None, format!("FNF/FNH of {:?}: {:?}/{:?} for {} functions, {} executed", rel, r.fnf, r.fnh, wf, wh)));
        }
        // FN and FNDA in the same order (what a positional reader relies on)
        if r.fns.iter().map(|x| &x.1).collect::<Vec<_>>() != r.fndas.iter().map(|x| &x.1).collect::<Vec<_>>() {
            return Err((None, format!("FN and FNDA of {:?} list the names in different orders", rel)));
        }
        // a reader of the FORMAT: FNDA refers to FN by name
        let mut start: BTreeMap<&str, u32> = BTreeMap::new();
        for (s, n) in &r.fns {
            start.insert(n, *s);
        }
        let mut exec: BTreeMap<&str, bool> = BTreeMap::new();
        for (e, n) in &r.fndas {
            let x = exec.entry(n).or_insert(false);
            *x |= *e == 1;
        }
        let mut read: Vec<(u32, String, bool)> = start.iter().map(|(n, s)| (*s, n.to_string(), *exec.get(n).unwrap_or(&false))).collect();
        read.sort();
        let want = dm.triples(on, c);
        if read != want {
            // every record is there (checked above); only the join by name loses: the finding
            let f = if dm.collides(on, c) { Some(FINDING) } else { None };
            return Err((f, format!("the functions read from the records of {:?} by name are {:?}; the file has {:?} (two functions print under one name: FN/FNDA cannot tell them apart)", rel, read, want)));
        }
    }
    Ok(())
}

/// coveralls+: the `functions` array carries the triples themselves
fn coveralls_oracle(dm: &Dm, on: bool, rs: &RS, v: &Value) -> Result<(), OErr> {
    let sf = v["source_files"].as_array().ok_or((None, "no source_files".to_string()))?;
    if sf.len() != rs.len() {
        return Err((None, format!("{} source_files for {} files", sf.len(), rs.len())));
    }
    for (f, (_, rel, c)) in sf.iter().zip(rs.iter()) {
        if f["name"].as_str() != rel.to_str() {
            return Err((None, format!("entry {:?} where {:?} was expected", f["name"], rel)));
        }
        let mut got: Vec<(u32, String, bool)> = vec![];
        for g in f["functions"].as_array().ok_or((None, "no functions".to_string()))? {
            got.push((g["start"].as_u64().unwrap_or(u64::MAX) as u32, g["name"].as_str().unwrap_or("").to_string(), g["exec"].as_bool().unwrap_or(false)));
        }
        got.sort();
        if got != dm.triples(on, c) {
            return Err((None, format!("functions of {:?}: {:?}; the file has {:?}", rel, got, dm.triples(on, c))));
        }
    }
    Ok(())
}

fn names_of(dm: &Dm, on: bool, c: &CovResult) -> Vec<String> {
    let mut v: Vec<String> = c.functions.keys().map(|n| dm.name(on, n)).collect();
    v.sort();
    v
}

struct Case {
    rs: RS,
    on: bool,
    lcov_hex: String,
    req: String,
    oracle_failed: bool,
}

fn one_case(rep: &mut Report, dm: &mut Dm, rs: RS, on: bool, out: &Path) -> Option<Case> {
    let _ = std::fs::create_dir_all(out);
    if let Err(e) = dm.resolve_set(&rs) {
        rep.fail("oracle", None, e, json!({"op": "c03.lcov", "demangle": on, "results": shown(&rs)}));
        return None;
    }
    let case = json!({"op": "c03.lcov", "demangle": on, "results": shown(&rs), "dm": dm.arg(on, &rs)});
    let mut oracle_failed = false;
    let mut fail = |rep: &mut Report, fmt: &str, e: OErr| {
        if e.0.is_none() {
            oracle_failed = true;
        }
        rep.fail("oracle", e.0, format!("{} (demangle {}): {}", fmt, if on { "on" } else { "off" }, e.1), case.clone());
    };
    // lcov
    let p = out.join("dm.info");
    let _ = std::fs::remove_file(&p);
    let lcov_bytes = match guarded(|| output_lcov(&rs, Some(&p), on)) {
        Err(e) => {
            fail(rep, "lcov", (None, format!("writer panicked: {}", e)));
            return None;
        }
        Ok(()) => std::fs::read(&p).unwrap_or_default(),
    };
    match read_lcov(&String::from_utf8_lossy(&lcov_bytes)) {
        Err(e) => fail(rep, "lcov", (None, format!("cannot decode: {}", e))),
        Ok(recs) => {
            if let Err(e) = lcov_oracle(dm, on, &rs, &recs) {
                if e.0.is_some() {
                    rep.count("dm.lcov.name_keyed_reader_loses_a_function");
                }
                // the finding is reported once per run (every colliding set shows it)
                if e.0.is_none() || !rep.findings_seen.contains(FINDING) {
                    fail(rep, "lcov", e);
                }
            }
        }
    }
    // coveralls+
    let p = out.join("dm.json");
    let _ = std::fs::remove_file(&p);
    match crate::docs::without_git(|| guarded(|| output_coveralls(&rs, Some("tok"), Some("svc"), "1", Some("2"), "3", None, "sha", true, Some(&p), "main", false, on))) {
        Err(e) => fail(rep, "coveralls+", (None, format!("writer panicked: {}", e))),
        Ok(()) => match serde_json::from_str::<Value>(&std::fs::read_to_string(&p).unwrap_or_default()) {
            Err(e) => fail(rep, "coveralls+", (None, format!("invalid JSON: {}", e))),
            Ok(v) => {
                if let Err(e) = coveralls_oracle(dm, on, &rs, &v) {
                    fail(rep, "coveralls+", e);
                }
            }
        },
    }
    // cobertura: the method names of every class
    let p = out.join("dm.xml");
    let _ = std::fs::remove_file(&p);
    match guarded(|| output_cobertura(None, &rs, Some(&p), on, false)) {
        Err(e) => fail(rep, "cobertura", (None, format!("writer panicked: {}", e))),
        Ok(()) => match crate::cobade::parse_xml(&std::fs::read_to_string(&p).unwrap_or_default()).and_then(|x| crate::cobade::method_names(&x)) {
            Err(e) => fail(rep, "cobertura", (None, format!("cannot decode: {}", e))),
            Ok(per_class) => {
                let want: Vec<(String, Vec<String>)> = rs.iter().map(|(_, rel, c)| (rel.to_str().unwrap().to_string(), names_of(dm, on, c))).collect();
                let got: Vec<(String, Vec<String>)> = per_class.into_iter().map(|(f, mut ns)| { ns.sort(); (f, ns) }).collect();
                if got != want {
                    fail(rep, "cobertura", (None, format!("method names per class {:?}; the functions print as {:?}", got, want)));
                }
            }
        },
    }
    // ade: the names of the method records of every file
    let p = out.join("dm.ade");
    let _ = std::fs::remove_file(&p);
    match guarded(|| output_activedata_etl(&rs, Some(&p), on)) {
        Err(e) => fail(rep, "ade", (None, format!("writer panicked: {}", e))),
        Ok(()) => {
            let mut got: Vec<(String, Vec<String>)> = vec![];
            let mut cur: Vec<String> = vec![];
            let mut bad = None;
            for l in std::fs::read_to_string(&p).unwrap_or_default().lines() {
                match serde_json::from_str::<Value>(l) {
                    Err(e) => bad = Some(format!("invalid JSON line: {}", e)),
                    Ok(v) => {
                        if v.get("is_file").is_some() {
                            cur.sort();
                            got.push((v["file"]["name"].as_str().unwrap_or("").to_string(), std::mem::take(&mut cur)));
                        } else {
                            cur.push(v["method"]["name"].as_str().unwrap_or("").to_string());
                        }
                    }
                }
            }
            let want: Vec<(String, Vec<String>)> = rs.iter().map(|(_, rel, c)| (rel.to_str().unwrap().to_string(), names_of(dm, on, c))).collect();
            if let Some(e) = bad {
                fail(rep, "ade", (None, e));
            } else if got != want || !cur.is_empty() {
                fail(rep, "ade", (None, format!("method records per file {:?}; the functions print as {:?}", got, want)));
            }
        }
    }
    let s = shown(&rs);
    let req = ["c03.lcov".to_string(), dm.arg(on, &rs), s].into_iter().filter(|x| !x.is_empty()).collect::<Vec<_>>().join(" ");
    Some(Case { rs, on, lcov_hex: hex(&lcov_bytes), req, oracle_failed })
}

fn compare(rep: &mut Report, dm: &Dm, cases: &[Case], ans: &[String]) {
    for (c, a) in cases.iter().zip(ans.iter()) {
        rep.count(if c.on { "dm.lcov.tie.demangle_on" } else { "dm.lcov.tie.demangle_off" });
        if *a != format!("ok {}", c.lcov_hex) && !c.oracle_failed {
            rep.disagreements_checked += 1;
            let model = a.strip_prefix("ok ").map(|h| String::from_utf8_lossy(&unhex(h)).to_string()).unwrap_or_else(|| a.clone());
            rep.fail(
                "disagreement",
                None,
                format!("c03.lcov (demangle {}): the report bytes differ from the model's (functions sorted by mangled name, printed demangled)", if c.on { "on" } else { "off" }),
                json!({"op": "c03.lcov", "demangle": c.on, "results": shown(&c.rs), "dm": dm.arg(c.on, &c.rs), "request": c.req,
                       "impl": String::from_utf8_lossy(&unhex(&c.lcov_hex)).chars().take(800).collect::<String>(), "model": model.chars().take(800).collect::<String>()}),
            );
        }
    }
}

pub fn run(rep: &mut Report) {
    let t0 = std::time::Instant::now();
    rep.rule.push_str(
        " | demangling ON: files whose functions are C++ overloads / ctor variants / template instances / Rust legacy hashes / Rust v0 / MSVC \
         and plain names (printed names taken from the real demangler, one function per probe file); lcov tied byte for byte, all four \
         function-listing formats checked for the multiset of (start, printed name, executed); non-trivial = two functions of a file print alike",
    );
    let mut rng = Rng::new(rep.seed ^ 0xC03_D3A1);
    let mut dm = Dm::new(&rep.workdir);
    // non-vacuity of the table: names really change, groups really collide
    let all: Vec<String> = MANGLED.iter().chain(PLAIN.iter()).map(|s| s.to_string()).collect();
    if let Err(e) = dm.resolve(all.iter()) {
        rep.fail("oracle", None, e, json!({"op": "c03.lcov", "stage": "demangler table"}));
        return;
    }
    let changed = MANGLED.iter().filter(|n| dm.name(true, n) != **n).count();
    let printed: BTreeSet<String> = MANGLED.iter().map(|n| dm.name(true, n)).collect();
    rep.count_n("dm.table.names_that_really_demangle", changed as u64);
    rep.count_n("dm.table.distinct_printed_names", printed.len() as u64);
    if changed < 12 || printed.len() + 6 > MANGLED.len() || dm.name(true, "_Z3fooi") != dm.name(true, "_Z3food") {
        rep.fail("oracle", None, format!("harness: the demangler table is not what the stream needs ({} of {} names change, {} distinct printed names)", changed, MANGLED.len(), printed.len()),
            json!({"op": "c03.lcov", "stage": "demangler table", "table": MANGLED.iter().map(|n| format!("{} -> {}", n, dm.name(true, n))).collect::<Vec<_>>()}));
    }
    rep.sample(json!({"demangler": MANGLED.iter().map(|n| format!("{} -> {}", n, dm.name(true, n))).collect::<Vec<_>>()}));
    let out = rep.workdir.join("dm_out");
    let n = rep.budget(500, 10);
    let mut cases: Vec<Case> = vec![];
    for i in 0..n {
        if rep.verdict_clear() {
            break;
        }
        let mut rs = gen_set(&mut rng);
        let on = i % 5 != 4;
        if i == 0 {
            // the closed witness of Props/C03FnOrder.lean and of the review: foo(int), foo(double)
            let mut c = CovResult::default();
            c.lines.insert(3, 1);
            c.lines.insert(9, 0);
            c.functions.insert("_Z3fooi".into(), Function { start: 3, executed: true });
            c.functions.insert("_Z3food".into(), Function { start: 9, executed: false });
            rs = vec![(PathBuf::from("/src_root/shapes.cpp"), PathBuf::from("shapes.cpp"), c)];
        }
        let collide = rs.iter().any(|r| dm.collides(on, &r.2));
        rep.case(&format!("dm {} {}", on, shown(&rs)), collide);
        rep.count(match (on, collide) {
            (true, true) => "dm.set.on.two_functions_print_alike",
            (true, false) => "dm.set.on.injective",
            (false, _) => "dm.set.off",
        });
        if on && rs.iter().any(|r| {
            let mut m: Vec<&String> = r.2.functions.keys().collect();
            m.sort();
            let mut p = m.clone();
            p.sort_by_key(|n| dm.name(true, n));
            m != p
        }) {
            rep.count("dm.set.on.mangled_order_differs_from_printed_order");
        }
        if let Some(c) = one_case(rep, &mut dm, rs, on, &out) {
            cases.push(c);
        }
    }
    let reqs: Vec<String> = cases.iter().map(|c| c.req.clone()).collect();
    let ans = run_model(&reqs, &rep.workdir, "c03dm");
    compare(rep, &dm, &cases, &ans);
    rep.notes.push(format!("demangle stream: {} result sets, {} lcov reports tied byte for byte, {} ms", n, cases.len(), t0.elapsed().as_millis()));
}

pub fn replay(rep: &mut Report, case: &Value) {
    let rs = parse_shown(case["results"].as_str().unwrap_or(""));
    let on = case["demangle"].as_bool().unwrap_or(true);
    let mut dm = Dm::new(&rep.workdir);
    rep.case(&format!("dm {} {}", on, shown(&rs)), true);
    let out = rep.workdir.join("dm_out");
    if let Some(c) = one_case(rep, &mut dm, rs, on, &out) {
        let ans = run_model(&[c.req.clone()], &rep.workdir, "c03dm1");
        compare(rep, &dm, &[c], &ans);
    }
}
