//! Numeric bounds of the BRDA fields (mutation campaign mutM1: P27, P40, P41). Tracefiles whose BRDA
//! records carry boundary values: line 2^32-1 / 2^32 / 2^32+1, block 2^32-1 / 2^32 / 2^64-1 / 2^64
//! (with and without the lcov 2.x `e`), branch small / 2^32 / 2^32+1 / 2^64. ORACLE (the records'
//! meaning within the types of the report): with branch parsing on, a line or branch number beyond
//! u32, or a block number beyond u64, rejects the tracefile with InvalidRecord – it is never wrapped
//! into range; every block number up to 2^64-1 is accepted and ignored; otherwise the file reads to
//! what its records say. With branch parsing off the BRDA lines are skipped. All inputs also go to
//! the model tie. (A branch number in [10^6, 2^32-1] is an allocation size – known finding
//! C14-lcov-branch-alloc – and is not generated here.)
use corrlib::lcov::*;
use corrlib::*;
use serde_json::json;

const LINES: &[u128] = &[1, 7, 4294967295, 4294967296, 4294967297, 8589934593];
const BLOCKS: &[u128] = &[0, 3, 4294967295, 4294967296, 4294967297, 18446744073709551615, 18446744073709551616];
const BRANCHES: &[u128] = &[0, 1, 2, 5, 4294967296, 4294967297, 18446744073709551616];

#[derive(Clone)]
pub struct Br {
    pub line: u128,
    pub exc: bool,
    pub blk: u128,
    pub br: u128,
    pub taken: Option<u64>,
}

pub fn render_bounds(das: &[(u32, u64)], brs: &[Br], crlf: bool) -> Vec<u8> {
    let eol = if crlf { "\r\n" } else { "\n" };
    let mut s = format!("SF:b.c{}", eol);
    for (l, c) in das {
        s.push_str(&format!("DA:{},{}{}", l, c, eol));
    }
    for b in brs {
        let t = b.taken.map(|n| n.to_string()).unwrap_or("-".into());
        s.push_str(&format!("BRDA:{},{}{},{},{}{}", b.line, if b.exc { "e" } else { "" }, b.blk, b.br, t, eol));
    }
    s.push_str(&format!("end_of_record{}", eol));
    s.into_bytes()
}

/// what the records call for
pub fn spec(das: &[(u32, u64)], brs: &[Br], branch: bool) -> String {
    if branch && brs.iter().any(|b| b.line > u32::MAX as u128 || b.br > u32::MAX as u128 || b.blk > u64::MAX as u128) {
        return "err InvalidRecord".into();
    }
    let mut recs: Vec<Rec> = das.iter().map(|(l, c)| Rec::Da(*l, *c as i128, None)).collect();
    for b in brs {
        if b.line <= u32::MAX as u128 && b.br <= u32::MAX as u128 && b.blk <= u64::MAX as u128 {
            recs.push(Rec::Brda(b.line as u32, b.blk as u64, b.br as u32, b.taken));
        }
    }
    let sec = Section { pre: vec![], sf: "b.c".into(), recs };
    format!("ok {}", show_results_ordered(&sem_all(&[sec], branch))).trim_end().to_string()
}

pub fn gen_br(rng: &mut Rng) -> Br {
    let pick = |rng: &mut Rng, pool: &[u128], boundary: bool| if boundary { *rng.pick(pool) } else { pool[rng.below(2) as usize] };
    // mostly one boundary field per record, so that each bound is met alone
    let which = rng.below(4);
    let (bl, bb) = (which == 0 || rng.chance(1, 6), which == 1 || rng.chance(1, 6));
    Br {
        line: pick(rng, LINES, bl),
        exc: rng.chance(1, 3),
        blk: pick(rng, BLOCKS, bb),
        br: if which == 2 || rng.chance(1, 8) { *rng.pick(BRANCHES) } else { rng.below(4) as u128 },
        taken: match rng.below(3) {
            0 => None,
            1 => Some(0),
            _ => Some(rng.range(1, 9)),
        },
    }
}

pub fn run(
    rep: &mut Report,
    rng: &mut Rng,
    run_impl: &dyn Fn(&[u8], bool) -> String,
    reqs: &mut Vec<String>,
    impl_out: &mut Vec<String>,
    inputs: &mut Vec<(Vec<u8>, bool)>,
) {
    // every boundary value of every field alone, first
    let mut cases: Vec<(Vec<(u32, u64)>, Vec<Br>, bool, bool)> = Vec::new();
    let base = Br { line: 3, exc: false, blk: 0, br: 1, taken: Some(2) };
    for &l in LINES {
        cases.push((vec![(3, 1)], vec![Br { line: l, ..base.clone() }], false, true));
    }
    for &k in BLOCKS {
        for exc in [false, true] {
            cases.push((vec![], vec![Br { blk: k, exc, ..base.clone() }], false, true));
        }
    }
    for &b in BRANCHES {
        cases.push((vec![(3, 1)], vec![Br { br: b, ..base.clone() }, Br { br: 0, taken: None, ..base.clone() }], false, true));
    }
    let n = rep.budget(600, 20);
    while (cases.len() as u64) < n {
        let das: Vec<(u32, u64)> = (0..rng.below(3)).map(|_| (rng.range(1, 9) as u32, rng.below(50))).collect();
        let brs: Vec<Br> = (0..rng.range(1, 4)).map(|_| gen_br(rng)).collect();
        cases.push((das, brs, rng.chance(1, 3), rng.chance(4, 5)));
    }
    for (das, brs, crlf, branch) in cases {
        let bytes = render_bounds(&das, &brs, crlf);
        let got = run_impl(&bytes, branch);
        let want = spec(&das, &brs, branch);
        rep.case(&hex(&bytes), true);
        rep.count(if want.starts_with("err") { "bounds.rejected" } else { "bounds.accepted" });
        if brs.iter().any(|b| b.blk > u32::MAX as u128 && b.blk <= u64::MAX as u128) {
            rep.count("bounds.block_beyond_u32_within_u64");
        }
        if got != want && !rep.verdict_clear() {
            rep.fail(
                "oracle",
                None,
                "BRDA field bounds: a line or branch number beyond u32 (a block number beyond u64) must reject the tracefile, any block number within u64 is accepted, nothing is wrapped into range".into(),
                json!({"op": "lcov.fidelity", "branch": branch, "crlf": crlf, "tracefile_hex": hex(&bytes),
                       "tracefile": String::from_utf8_lossy(&bytes), "impl": got, "spec": want}),
            );
        }
        reqs.push(format!("lcov.parse {} {}", if branch { 1 } else { 0 }, hex(&bytes)));
        impl_out.push(got);
        inputs.push((bytes, branch));
    }
}
