//! lcov 2.x exception branches (second review, item 4): `BRDA:<line>,e<block>,<branch>,<taken>`.
//! Generated ASTs (the generator of corrlib::lcov) in which about half of the BRDA records carry
//! the `e` flag are rendered and parsed. ORACLE: what the records say (`sem`: the flag changes
//! nothing – branch `<branch>` of the line, taken iff the count is positive), with branch parsing on
//! and off. (Before /repo 66f7aba the reader took the block digits for the branch number and the
//! record for taken: former finding C04-lcov2-exception-branch; `sem_read` below is that old
//! reading, kept only to count how many generated cases distinguish the two.) All inputs also go to
//! the model tie (`Lcov.parse` = code).
use corrlib::lcov::*;
use corrlib::*;
use grcov::CovResult;
use serde_json::json;

pub struct ExcSection {
    pub sec: Section,
    /// `exc[i]`: record i is a BRDA record with the `e` flag
    pub exc: Vec<bool>,
}

pub fn render_exc(secs: &[ExcSection], crlf: bool) -> Vec<u8> {
    let eol: &[u8] = if crlf { b"\r\n" } else { b"\n" };
    let mut out: Vec<u8> = vec![];
    for s in secs {
        // everything but the flagged records is rendered by the shared renderer, record by record
        let head = Section { pre: s.sec.pre.clone(), sf: s.sec.sf.clone(), recs: vec![] };
        let h = render(&[head], crlf);
        // `h` = pre, SF line, end_of_record line: cut the last line off
        let eor_len = b"end_of_record".len() + eol.len();
        out.extend_from_slice(&h[..h.len() - eor_len]);
        for (i, r) in s.sec.recs.iter().enumerate() {
            match r {
                Rec::Brda(l, blk, b, t) if s.exc[i] => {
                    let t = match t {
                        None => "-".to_string(),
                        Some(n) => n.to_string(),
                    };
                    out.extend_from_slice(format!("BRDA:{},e{},{},{}", l, blk, b, t).as_bytes());
                    out.extend_from_slice(eol);
                }
                _ => {
                    let one = Section { pre: vec![], sf: String::new(), recs: vec![r.clone()] };
                    let b = render(&[one], crlf);
                    // strip the `SF:` line in front and the end_of_record line behind
                    let sf_len = 3 + eol.len();
                    out.extend_from_slice(&b[sf_len..b.len() - eor_len]);
                }
            }
        }
        out.extend_from_slice(b"end_of_record");
        out.extend_from_slice(eol);
    }
    out
}

/// the reading before the fix: an exception branch record counted as "branch <block> of the line, taken"
pub fn sem_read(s: &ExcSection, branch: bool) -> CovResult {
    let mut t = s.sec.clone();
    for (i, r) in t.recs.iter_mut().enumerate() {
        if let Rec::Brda(l, blk, _, _) = r {
            if s.exc[i] {
                *r = Rec::Brda(*l, 0, *blk as u32, Some(1));
            }
        }
    }
    sem(&t, branch)
}

fn show(rs: &[(String, CovResult)]) -> String {
    format!("ok {}", show_results_ordered(rs)).trim_end().to_string()
}

pub fn check(rep: &mut Report, secs: &[ExcSection], crlf: bool, branch: bool, got: &str, bytes: &[u8]) {
    let spec = show(&secs.iter().map(|s| (s.sec.sf.clone(), sem(&s.sec, branch))).collect::<Vec<_>>());
    let old = show(&secs.iter().map(|s| (s.sec.sf.clone(), sem_read(s, branch))).collect::<Vec<_>>());
    rep.count(if spec == old { "exc.old_reading_coincides" } else { "exc.old_reading_differs" });
    if got == spec {
        return;
    }
    rep.count(if got == old { "exc.misread_as_before_the_fix" } else { "exc.other_difference" });
    rep.fail(
        "oracle",
        None,
        "a tracefile with lcov 2.x exception branches BRDA:<line>,e<block>,<branch>,<taken> is not read to what its records say".into(),
        json!({"op": "lcov.fidelity", "branch": branch, "crlf": crlf, "tracefile_hex": hex(bytes),
               "tracefile": String::from_utf8_lossy(bytes), "impl": got, "spec": spec}),
    );
}

pub fn run(
    rep: &mut Report,
    rng: &mut Rng,
    run_impl: &dyn Fn(&[u8], bool) -> String,
    reqs: &mut Vec<String>,
    impl_out: &mut Vec<String>,
    inputs: &mut Vec<(Vec<u8>, bool)>,
) {
    // the witnesses of the review first: block digit becomes the branch number, reads as taken
    let fixed: Vec<(Vec<Rec>, Vec<bool>)> = vec![
        (vec![Rec::Brda(1, 0, 0, Some(1)), Rec::Brda(1, 0, 1, None)], vec![true, true]),
        (vec![Rec::Brda(5, 3, 1, Some(0))], vec![true]),
        (vec![Rec::Brda(5, 3, 1, Some(0)), Rec::Brda(5, 3, 0, None)], vec![true, true]),
        (vec![Rec::Brda(2, 0, 0, Some(4)), Rec::Brda(2, 1, 1, Some(0)), Rec::Da(2, 4, None)], vec![false, true, false]),
    ];
    let mut cases: Vec<(Vec<ExcSection>, bool, bool)> = fixed
        .into_iter()
        .map(|(recs, exc)| (vec![ExcSection { sec: Section { pre: vec![], sf: "a.c".into(), recs }, exc }], false, true))
        .collect();
    let n = rep.budget(800, 20);
    let cfg = GenCfg::full();
    while (cases.len() as u64) < n {
        let ns = rng.range(1, 3);
        let mut secs: Vec<ExcSection> = Vec::new();
        for _ in 0..ns {
            let sec = gen_section(rng, &cfg);
            let exc: Vec<bool> = sec.recs.iter().map(|r| matches!(r, Rec::Brda(..)) && rng.chance(1, 2)).collect();
            secs.push(ExcSection { sec, exc });
        }
        if !secs.iter().any(|s| s.exc.iter().any(|&e| e)) {
            continue;
        }
        cases.push((secs, rng.chance(1, 3), rng.chance(3, 4)));
    }
    for (secs, crlf, branch) in cases {
        let bytes = render_exc(&secs, crlf);
        let got = run_impl(&bytes, branch);
        rep.case(&hex(&bytes), true);
        rep.count(if branch { "exc.branch_on" } else { "exc.branch_off" });
        rep.count_n("exc.records", secs.iter().map(|s| s.exc.iter().filter(|&&e| e).count() as u64).sum());
        if !rep.verdict_clear() {
            check(rep, &secs, crlf, branch, &got, &bytes);
        }
        reqs.push(format!("lcov.parse {} {}", if branch { 1 } else { 0 }, hex(&bytes)));
        impl_out.push(got);
        inputs.push((bytes, branch));
    }
}
