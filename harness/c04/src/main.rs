//! C04 — LCOV input fidelity. (1) spec oracle `parse_lcov(render ast) = sem ast` on the
//! implementation for well-formed ASTs (any record order, FNDA before or after FN, DA checksum
//! fields), with shrinking, and `parse_lcov(render ast) = Err(Parse)` for ASTs with an FNDA whose
//! function is declared nowhere in its section; (2) tie of parse_lcov to the Lean byte-machine
//! `Lcov.parse` on well-formed and malformed inputs. Minimised past failures (corpus/C04/*.json and
//! `witnesses()`) are replayed first.
mod bounds;
mod exc;
use corrlib::*;
use corrlib::lcov::*;
use grcov::parse_lcov;
use serde_json::json;

fn run_impl(bytes: &[u8], branch: bool) -> String {
    let b = bytes.to_vec();
    show_outcome(&guarded(move || parse_lcov(b, branch)))
}

fn fidelity_fails(secs: &[Section], crlf: bool, branch: bool) -> Option<(String, String)> {
    let bytes = render(secs, crlf);
    let got = run_impl(&bytes, branch);
    let want = format!("ok {}", show_results_ordered(&sem_all(secs, branch)))
        .trim_end()
        .to_string();
    if got != want {
        Some((got, want))
    } else {
        None
    }
}

pub fn shrink(mut secs: Vec<Section>, crlf: bool, branch: bool) -> Vec<Section> {
    loop {
        let mut progressed = false;
        // drop whole sections
        let mut i = 0;
        while secs.len() > 1 && i < secs.len() {
            let mut t = secs.clone();
            t.remove(i);
            if fidelity_fails(&t, crlf, branch).is_some() {
                secs = t;
                progressed = true;
            } else {
                i += 1;
            }
        }
        // drop records (keeping FN for remaining FNDA is not required for shrinking: a candidate
        // that leaves the well-formed domain is rejected below)
        for s in 0..secs.len() {
            let mut j = 0;
            while j < secs[s].recs.len() {
                let mut t = secs.clone();
                t[s].recs.remove(j);
                if well_formed(&t) && fidelity_fails(&t, crlf, branch).is_some() {
                    secs = t;
                    progressed = true;
                } else {
                    j += 1;
                }
            }
            if !secs[s].pre.is_empty() {
                let mut t = secs.clone();
                t[s].pre.clear();
                if fidelity_fails(&t, crlf, branch).is_some() {
                    secs = t;
                    progressed = true;
                }
            }
        }
        if !progressed {
            return secs;
        }
    }
}

pub fn show_secs(secs: &[Section]) -> serde_json::Value {
    json!(secs
        .iter()
        .map(|s| json!({"pre": s.pre, "sf": s.sf, "recs": s.recs.iter().map(|r| format!("{:?}", r)).collect::<Vec<_>>()}))
        .collect::<Vec<_>>())
}

pub fn check_fidelity(rep: &mut Report, secs: &[Section], crlf: bool, branch: bool) {
    if rep.verdict_clear() {
        return;
    }
    if let Some(_) = fidelity_fails(secs, crlf, branch) {
        let min = shrink(secs.to_vec(), crlf, branch);
        let (got, want) = fidelity_fails(&min, crlf, branch).unwrap();
        let feats: Vec<&'static str> = min.iter().flat_map(|s| features(s)).collect();
        let bytes = render(&min, crlf);
        rep.fail(
            "oracle",
            None,
            format!(
                "parse_lcov(render ast) != what the records say (minimised; features of the AST: {:?})",
                feats
            ),
            json!({"op": "lcov.fidelity", "branch": branch, "crlf": crlf,
                   "tracefile_hex": hex(&bytes), "tracefile": String::from_utf8_lossy(&bytes),
                   "impl": got, "spec": want}),
        );
    }
}

/// the other half of the FN/FNDA rule (C04_fnda_without_fn_rejected): some FNDA record names a
/// function that no FN record of its section declares => Err(Parse), whatever else the file holds
pub fn check_undeclared(rep: &mut Report, secs: &[Section], crlf: bool, branch: bool) {
    if rep.verdict_clear() {
        return;
    }
    let bytes = render(secs, crlf);
    let got = run_impl(&bytes, branch);
    if got != "err Parse" {
        rep.fail(
            "oracle",
            None,
            "a tracefile with an FNDA record whose function is declared nowhere in its section is not rejected with Err(Parse)".into(),
            json!({"op": "lcov.fidelity", "branch": branch, "crlf": crlf,
                   "tracefile_hex": hex(&bytes), "tracefile": String::from_utf8_lossy(&bytes),
                   "impl": got, "spec": "err Parse"}),
        );
    }
}

/// make one FNDA of one section undeclared: drop the FN records of its function, or add an FNDA
/// for a function the section never declares
fn undeclare(rng: &mut Rng, secs: &mut Vec<Section>) {
    let k = rng.below(secs.len() as u64) as usize;
    let s = &mut secs[k];
    let named: Vec<String> = s
        .recs
        .iter()
        .filter_map(|r| if let Rec::Fnda(_, n) = r { Some(n.clone()) } else { None })
        .collect();
    if !named.is_empty() && rng.chance(2, 3) {
        let n = rng.pick(&named).clone();
        s.recs.retain(|r| !matches!(r, Rec::Fn(_, m) if *m == n));
    } else {
        let pos = rng.below(s.recs.len() as u64 + 1) as usize;
        let c = *rng.pick(&[0u64, 1, 5]);
        s.recs.insert(pos, Rec::Fnda(c, "ghost_fn".into()));
    }
}

/// corpus/C04/*.json: minimised past failures (tracefile bytes + the outcome the records call for);
/// each must hold on the current tree and agree with the model
fn corpus(rep: &mut Report, reqs: &mut Vec<String>, impl_out: &mut Vec<String>, inputs: &mut Vec<(Vec<u8>, bool)>) {
    let mut files: Vec<std::path::PathBuf> = std::fs::read_dir("/verif/corpus/C04")
        .map(|d| d.filter_map(|e| e.ok().map(|e| e.path())).collect())
        .unwrap_or_default();
    files.retain(|p| p.extension().map(|e| e == "json").unwrap_or(false));
    files.sort();
    for p in files {
        let v: serde_json::Value = match std::fs::read_to_string(&p).ok().and_then(|t| serde_json::from_str(&t).ok()) {
            Some(v) => v,
            None => {
                rep.notes.push(format!("corpus file {} is not JSON", p.display()));
                continue;
            }
        };
        let case = &v["case"];
        let (Some(h), Some(spec)) = (case["tracefile_hex"].as_str(), case["spec"].as_str()) else {
            rep.notes.push(format!("corpus file {} is not a C04 case", p.display()));
            continue;
        };
        let branch = case["branch"].as_bool().unwrap_or(true);
        let bytes = unhex(h);
        let got = run_impl(&bytes, branch);
        rep.count("corpus.cases");
        rep.case(&format!("corpus {}", hex(&bytes)), true);
        if got != spec && !rep.verdict_clear() {
            rep.fail(
                "oracle",
                None,
                format!("corpus case {}: parse_lcov(tracefile) != recorded outcome", p.display()),
                json!({"op": "lcov.fidelity", "branch": branch, "tracefile_hex": h,
                       "tracefile": String::from_utf8_lossy(&bytes), "impl": got, "spec": spec}),
            );
        }
        reqs.push(format!("lcov.parse {} {}", if branch { 1 } else { 0 }, hex(&bytes)));
        impl_out.push(got);
        inputs.push((bytes, branch));
    }
}

/// named matcher of the known finding C04-lcov2-fn-end-line: the tracefile contains an FN record
/// whose second field is all digits followed by a comma (`FN:<start>,<end>,<name>`, lcov 2.x)
pub fn has_fn_with_end_line(bytes: &[u8]) -> bool {
    bytes.split(|&c| c == b'\n').any(|l| {
        let Some(rest) = l.strip_prefix(b"FN:") else { return false };
        let mut fields = rest.splitn(3, |&c| c == b',');
        let (Some(a), Some(b), Some(_)) = (fields.next(), fields.next(), fields.next()) else { return false };
        !a.is_empty() && a.iter().all(u8::is_ascii_digit) && !b.is_empty() && b.iter().all(u8::is_ascii_digit)
    })
}

/// Fixed stream witnessing the known finding C04-lcov2-fn-end-line on every run: tracefiles as lcov
/// 2.x writes them (`FN:<start>,<end>,<name>`). The oracle states the property: the file is accepted,
/// the function is named <name>, starts at <start> and is executed iff some FNDA of it has a
/// non-zero count. The inputs also go to the model tie (model = code).
fn lcov2_stream(rep: &mut Report, reqs: &mut Vec<String>, impl_out: &mut Vec<String>, inputs: &mut Vec<(Vec<u8>, bool)>) {
    // (file, crlf, records): Fn(start, end, name) / Fnda(count, name) / Da(line, count)
    enum R { Fn(u32, u32, &'static str), Fnda(u64, &'static str), Da(u32, u64) }
    let files: Vec<(&str, bool, Vec<R>)> = vec![
        ("a.c", false, vec![R::Fn(1, 5, "f"), R::Fnda(1, "f"), R::Da(1, 1)]),
        ("a.c", false, vec![R::Fn(1, 5, "f"), R::Da(1, 1)]),
        ("src/x.cpp", false, vec![R::Fn(3, 9, "foo(int, char)"), R::Fnda(0, "foo(int, char)"), R::Da(3, 0)]),
        ("b.c", true, vec![R::Fnda(2, "g"), R::Fn(10, 12, "g"), R::Fn(20, 25, "h"), R::Fnda(0, "h"), R::Da(10, 2)]),
        ("c.c", false, vec![R::Fn(7, 7, "2,init"), R::Fnda(4, "2,init")]),
    ];
    for (sf, crlf, recs) in files {
        let eol = if crlf { "\r\n" } else { "\n" };
        let mut text = format!("TN:{}SF:{}{}", eol, sf, eol);
        let mut want = grcov::CovResult::default();
        for r in &recs {
            match r {
                R::Fn(st, en, n) => {
                    text.push_str(&format!("FN:{},{},{}{}", st, en, n, eol));
                    let executed = recs.iter().any(|q| matches!(q, R::Fnda(c, m) if m == n && *c != 0));
                    want.functions.insert(n.to_string(), grcov::Function { start: *st, executed });
                }
                R::Fnda(c, n) => text.push_str(&format!("FNDA:{},{}{}", c, n, eol)),
                R::Da(l, c) => {
                    text.push_str(&format!("DA:{},{}{}", l, c, eol));
                    *want.lines.entry(*l).or_insert(0) += *c;
                }
            }
        }
        text.push_str(&format!("end_of_record{}", eol));
        let bytes = text.into_bytes();
        let spec = format!("ok {}", show_results_ordered(&[(sf.to_string(), want)])).trim_end().to_string();
        let got = run_impl(&bytes, true);
        rep.count("lcov2.fn_with_end_line");
        rep.case(&hex(&bytes), true);
        if got != spec {
            let finding = if has_fn_with_end_line(&bytes) { Some("C04-lcov2-fn-end-line") } else { None };
            rep.fail(
                "oracle",
                finding,
                "a tracefile with lcov 2.x function records FN:<start>,<end>,<name> is not read to the function <name> starting at <start>".into(),
                json!({"op": "lcov.fidelity", "branch": true, "crlf": crlf,
                       "tracefile_hex": hex(&bytes), "tracefile": String::from_utf8_lossy(&bytes),
                       "impl": got, "spec": spec}),
            );
        }
        reqs.push(format!("lcov.parse 1 {}", hex(&bytes)));
        impl_out.push(got);
        inputs.push((bytes, true));
    }
}

pub fn run(rep: &mut Report) {
    rep.rule = "ASTs of 1-4 sections (shuffled DA/FN/FNDA/BRDA records - FNDA before or after its FN -, duplicates, \
                DA checksum fields (record-like, number-like, with commas, base64 MD5), '-'/0/positive taken counts, \
                several blocks per line, negative counts, other lcov record types, blank lines, LF/CRLF, UTF-8 \
                names with commas) rendered and parsed; the same with one FNDA made undeclared (must be Err(Parse)); \
                five fixed lcov 2.x tracefiles (FN:<start>,<end>,<name>; known finding C04-lcov2-fn-end-line); \
                generated ASTs in which about half of the BRDA records are lcov 2.x exception branches \
                (BRDA:<line>,e<block>,<branch>,<taken>: read like ordinary ones since /repo 66f7aba); \
                plus a malformed stream (mutated renders, random lcov-ish bytes) for the tie; non-trivial = the file \
                has ≥1 DA and (≥1 BRDA or ≥1 FN) or is malformed; distinct = distinct input bytes"
        .to_string();
    let mut rng = Rng::new(rep.seed ^ 0xC04);
    let mut reqs = vec![];
    let mut impl_out = vec![];
    let mut inputs = vec![];
    // ---- corpus of fixed witnesses (past failures) first ----------------------------------------
    corpus(rep, &mut reqs, &mut impl_out, &mut inputs);
    for w in witnesses() {
        let (name, secs, crlf, branch) = w;
        rep.count(&format!("witness.{}", name));
        rep.case(&format!("witness {}", name), true);
        check_fidelity(rep, &secs, crlf, branch);
    }
    // ---- generated ASTs ---------------------------------------------------------------------
    let n = rep.budget(6_000, 30);
    let cfg = GenCfg::full();
    for i in 0..n {
        let ns = rng.range(1, 4);
        let secs: Vec<Section> = (0..ns).map(|_| gen_section(&mut rng, &cfg)).collect();
        let crlf = rng.chance(1, 3);
        let branch = rng.chance(3, 4);
        let bytes = render(&secs, crlf);
        let nontrivial = secs.iter().any(|s| {
            s.recs.iter().any(|r| matches!(r, Rec::Da(..)))
                && s.recs
                    .iter()
                    .any(|r| matches!(r, Rec::Brda(..) | Rec::Fn(..)))
        });
        rep.case(&hex(&bytes), nontrivial);
        for s in &secs {
            for g in features(s) {
                rep.count(&format!("ast.feature.{}", g));
            }
        }
        rep.count(if branch { "ast.branch_on" } else { "ast.branch_off" });
        rep.count(if crlf { "ast.crlf" } else { "ast.lf" });
        check_fidelity(rep, &secs, crlf, branch);
        let out = run_impl(&bytes, branch);
        if i < 1 {
            rep.sample(json!({"tracefile": String::from_utf8_lossy(&bytes), "branch": branch, "impl": out}));
        }
        reqs.push(format!("lcov.parse {} {}", if branch { 1 } else { 0 }, hex(&bytes)));
        impl_out.push(out);
        inputs.push((bytes, branch));
    }
    // ---- an FNDA without its FN anywhere in the section ----------------------------------------
    let u = rep.budget(600, 30);
    for _ in 0..u {
        let ns = rng.range(1, 3);
        let mut secs: Vec<Section> = (0..ns).map(|_| gen_section(&mut rng, &cfg)).collect();
        undeclare(&mut rng, &mut secs);
        let crlf = rng.chance(1, 3);
        let branch = rng.chance(3, 4);
        let bytes = render(&secs, crlf);
        rep.case(&hex(&bytes), true);
        rep.count("ast.undeclared_fnda");
        check_undeclared(rep, &secs, crlf, branch);
        let out = run_impl(&bytes, branch);
        reqs.push(format!("lcov.parse {} {}", if branch { 1 } else { 0 }, hex(&bytes)));
        impl_out.push(out);
        inputs.push((bytes, branch));
    }
    // ---- lcov 2.x function records (known finding, witnessed on every run) -----------------------
    lcov2_stream(rep, &mut reqs, &mut impl_out, &mut inputs);
    // ---- lcov 2.x exception branches (former finding C04-lcov2-exception-branch) ---------------
    exc::run(rep, &mut rng, &run_impl, &mut reqs, &mut impl_out, &mut inputs);
    // ---- numeric bounds of the BRDA fields ---------------------------------------------------------
    bounds::run(rep, &mut rng, &run_impl, &mut reqs, &mut impl_out, &mut inputs);
    // ---- malformed stream ---------------------------------------------------------------------
    let m = rep.budget(6_000, 30);
    for _ in 0..m {
        let bytes = gen_malformed(&mut rng);
        let branch = rng.chance(3, 4);
        let out = run_impl(&bytes, branch);
        rep.case(&hex(&bytes), true);
        rep.count(&format!("malformed.{}", out.split(' ').next().unwrap()));
        if out == "panic" {
            let site = LAST_PANIC_SITE.with(|c| c.borrow().clone());
            rep.count(&format!("malformed.panic_site.{}", site));
        }
        reqs.push(format!("lcov.parse {} {}", if branch { 1 } else { 0 }, hex(&bytes)));
        impl_out.push(out);
        inputs.push((bytes, branch));
    }
    tie(rep, &reqs, &impl_out, &inputs);
    utf8_tie(rep, &mut rng);
}

/// String::from_utf8_lossy (what parse_lcov applies to names) against Lcov.utf8Lossy
fn utf8_tie(rep: &mut Report, rng: &mut Rng) {
    let n = rep.budget(3_000, 20);
    let pool: &[u8] = &[
        0x00, 0x41, 0x7f, 0x80, 0x8f, 0x90, 0x9f, 0xa0, 0xbf, 0xc0, 0xc1, 0xc2, 0xdf, 0xe0, 0xe1, 0xec, 0xed,
        0xee, 0xef, 0xf0, 0xf1, 0xf3, 0xf4, 0xf5, 0xff,
    ];
    let mut reqs = vec![];
    let mut outs = vec![];
    for _ in 0..n {
        let len = rng.below(9);
        let bs: Vec<u8> = if rng.chance(1, 4) {
            let s: String = (0..len)
                .map(|_| *rng.pick(&['a', 'é', '語', '😀', '\u{7ff}', '\u{800}', '\u{ffff}', '\u{10000}', '\u{10ffff}']))
                .collect();
            s.into_bytes()
        } else {
            (0..len).map(|_| *rng.pick(pool)).collect()
        };
        let out = hex(String::from_utf8_lossy(&bs).as_bytes());
        rep.case(&format!("utf8 {}", hex(&bs)), std::str::from_utf8(&bs).is_err());
        rep.count(if std::str::from_utf8(&bs).is_ok() { "utf8.valid" } else { "utf8.invalid" });
        reqs.push(format!("utf8lossy {}", hex(&bs)).trim_end().to_string());
        outs.push(out);
        // Lcov.validUtf8 (the hypothesis of C04_names_preserved) against std::str::from_utf8
        reqs.push(format!("utf8valid {}", hex(&bs)).trim_end().to_string());
        outs.push(if std::str::from_utf8(&bs).is_ok() { "1".to_string() } else { "0".to_string() });
        // the property clause on the implementation: well-formed names come back byte for byte
        if std::str::from_utf8(&bs).is_ok() && String::from_utf8_lossy(&bs).as_bytes() != &bs[..] {
            rep.fail("oracle", None, "from_utf8_lossy changed a well-formed UTF-8 name".into(),
                     json!({"op": "utf8lossy", "request": format!("utf8lossy {}", hex(&bs))}));
        }
    }
    let model = run_model(&reqs, &rep.workdir, "utf8");
    for i in 0..reqs.len() {
        if model[i] != outs[i] {
            rep.disagreements_checked += 1;
            rep.fail(
                "disagreement",
                None,
                "String::from_utf8_lossy / str::from_utf8 differ from Lcov.utf8Lossy / Lcov.validUtf8".into(),
                json!({"op": "utf8lossy", "request": reqs[i], "impl": outs[i], "model": model[i]}),
            );
        }
    }
}

pub fn tie(rep: &mut Report, reqs: &[String], impl_out: &[String], inputs: &[(Vec<u8>, bool)]) {
    if std::env::var("VERIF_NO_MODEL").is_ok() {
        return;
    }
    let model_out = run_model(reqs, &rep.workdir, "lcov");
    let mut shown = 0;
    for i in 0..reqs.len() {
        if impl_out[i] != model_out[i] {
            rep.disagreements_checked += 1;
            if shown >= 6 {
                continue; // count, but do not shrink more than a handful
            }
            // minimise the disagreeing input bytewise (drop lines, then drop bytes)
            let (bytes, branch) = &inputs[i];
            let min = shrink_bytes(bytes, *branch, &rep.workdir);
            let got = run_impl(&min, *branch);
            let model = run_model(
                &[format!("lcov.parse {} {}", if *branch { 1 } else { 0 }, hex(&min))],
                &rep.workdir,
                "lcov1",
            )
            .remove(0);
            let finding = if model.starts_with("panic") && got.starts_with("panic") {
                None
            } else {
                None
            };
            if shown < 40 {
                rep.fail(
                    "disagreement",
                    finding,
                    "parse_lcov differs from the Lean byte machine Lcov.parse (C04/C05/C14 theorems no longer transfer)".into(),
                    json!({"op": "lcov.parse", "branch": branch, "input_hex": hex(&min),
                           "input": String::from_utf8_lossy(&min), "impl": got, "model": model}),
                );
                shown += 1;
            }
        }
    }
}

fn shrink_bytes(bytes: &[u8], branch: bool, workdir: &std::path::Path) -> Vec<u8> {
    let differs = |b: &[u8]| -> bool {
        let got = run_impl(b, branch);
        let model = run_model(
            &[format!("lcov.parse {} {}", if branch { 1 } else { 0 }, hex(b))],
            workdir,
            "shrink",
        )
        .remove(0);
        got != model
    };
    let mut cur = bytes.to_vec();
    // drop lines
    loop {
        let lines: Vec<&[u8]> = cur.split_inclusive(|&c| c == b'\n').collect();
        let mut done = true;
        for i in 0..lines.len() {
            let t: Vec<u8> = lines
                .iter()
                .enumerate()
                .filter(|(j, _)| *j != i)
                .flat_map(|(_, l)| l.iter().cloned())
                .collect();
            if differs(&t) {
                cur = t;
                done = false;
                break;
            }
        }
        if done {
            break;
        }
    }
    // drop bytes (bounded effort)
    let mut i = 0;
    let mut budget = 300;
    while i < cur.len() && budget > 0 {
        let mut t = cur.clone();
        t.remove(i);
        budget -= 1;
        if differs(&t) {
            cur = t;
        } else {
            i += 1;
        }
    }
    cur
}

const TOKENS: &[&str] = &[
    "SF:", "DA:", "FN:", "FNDA:", "BRDA:", "end_of_record", "TN:", "LF:", "BRF:", "e", "\n", "\r\n", ",",
    "-", "0", "1", "12", "4294967295", "4294967296", "18446744073709551615", "18446744073709551616",
    "99999999999999999999999", "a.c", "main", "é", "\u{0}", " ", "S", "D", "F", "B", "FNL:", "ABCDE", ":", "-5",
    ",e", "e3", "BRDA:7,e",
];

/// a BRDA BRANCH number is an allocation size (known finding C14-lcov-branch-alloc): keep the
/// in-process tie away from inputs that could ask for gigabytes – and only from those: the branch
/// field (third digit run after a `BRDA` key: digits, one byte, optional `e`, digits, one byte,
/// digits – the way the reader walks the record) holds a value in [10^6, 2^32-1]. Line and block
/// numbers of any length, and branch numbers beyond u32 (rejected, never allocated), stay in.
fn huge_branch_risk(b: &[u8]) -> bool {
    let digits = |from: usize| -> (u128, usize) {
        let mut v: u128 = 0;
        let mut j = from;
        while j < b.len() && b[j].is_ascii_digit() {
            v = v.saturating_mul(10).saturating_add((b[j] - b'0') as u128);
            j += 1;
        }
        (v, j)
    };
    for i in 0..b.len().saturating_sub(3) {
        if &b[i..i + 4] != b"BRDA" {
            continue;
        }
        let (_, j1) = digits(i + 5);
        if j1 == i + 5 {
            continue; // no line number: the record is rejected before anything is allocated
        }
        let mut k = j1 + 1;
        if b.get(k) == Some(&b'e') {
            k += 1;
        }
        let (_, j2) = digits(k);
        let (v, j3) = digits(j2 + 1);
        if j3 > j2 + 1 && (1_000_000..=u32::MAX as u128).contains(&v) {
            return true;
        }
    }
    false
}

pub fn gen_malformed(rng: &mut Rng) -> Vec<u8> {
    loop {
        let b = gen_malformed0(rng);
        if !huge_branch_risk(&b) {
            return b;
        }
    }
}

fn gen_malformed0(rng: &mut Rng) -> Vec<u8> {
    match rng.below(5) {
        4 => {
            // a valid file with BRDA records at the numeric bounds of their fields spliced in
            // (line / block / branch at 2^32-1, 2^32, 2^64-1, 2^64), now and then cut short
            let secs: Vec<Section> = vec![gen_section(rng, &GenCfg::full())];
            let text = render(&secs, rng.chance(1, 4));
            let mut lines: Vec<Vec<u8>> = text.split_inclusive(|&c| c == b'\n').map(|l| l.to_vec()).collect();
            for _ in 0..rng.range(1, 2) {
                let br = bounds::gen_br(rng);
                let mut l = bounds::render_bounds(&[], &[br], false);
                // keep the BRDA line only
                let start = l.iter().position(|&c| c == b'\n').map(|p| p + 1).unwrap_or(0);
                l.drain(..start);
                let end = l.iter().position(|&c| c == b'\n').map(|p| p + 1).unwrap_or(l.len());
                l.truncate(end);
                if rng.chance(1, 5) {
                    let k = rng.below(l.len() as u64 + 1) as usize;
                    l.truncate(k);
                }
                let pos = rng.range(1, lines.len().max(2) as u64 - 1) as usize;
                lines.insert(pos.min(lines.len()), l);
            }
            lines.concat()
        }
        0 => {
            // token soup
            let n = rng.range(1, 25);
            let mut s = String::new();
            for _ in 0..n {
                s.push_str(*rng.pick(TOKENS));
            }
            s.into_bytes()
        }
        1 => {
            // valid file, truncated
            let secs: Vec<Section> = (0..rng.range(1, 2))
                .map(|_| gen_section(rng, &GenCfg::full()))
                .collect();
            let mut b = render(&secs, rng.chance(1, 3));
            let k = rng.below(b.len() as u64 + 1) as usize;
            b.truncate(k);
            b
        }
        2 => {
            // valid file with 1-3 local corruptions
            let secs: Vec<Section> = (0..rng.range(1, 2))
                .map(|_| gen_section(rng, &GenCfg::full()))
                .collect();
            let mut b = render(&secs, rng.chance(1, 3));
            for _ in 0..rng.range(1, 3) {
                if b.is_empty() {
                    break;
                }
                let k = rng.below(b.len() as u64) as usize;
                match rng.below(3) {
                    0 => {
                        b.remove(k);
                    }
                    1 => {
                        let t = rng.pick(TOKENS).as_bytes().to_vec();
                        b.splice(k..k, t);
                    }
                    _ => b[k] = *rng.pick(&[b'\n', b',', b'-', b'e', b'9', b':', b'S', 0xff, b'\r']),
                }
            }
            b
        }
        _ => {
            // one token substituted in a valid file
            let secs: Vec<Section> = vec![gen_section(rng, &GenCfg::full())];
            let text = render(&secs, false);
            let mut toks: Vec<Vec<u8>> = vec![];
            let mut cur = vec![];
            for &c in &text {
                if c == b',' || c == b':' || c == b'\n' {
                    toks.push(std::mem::take(&mut cur));
                    toks.push(vec![c]);
                } else {
                    cur.push(c);
                }
            }
            toks.push(cur);
            let k = rng.below(toks.len() as u64) as usize;
            toks[k] = rng.pick(TOKENS).as_bytes().to_vec();
            toks.concat()
        }
    }
}

/// minimal witnesses of the defects found on the original tree (kept as a corpus: they must pass
/// after the fix: commits and are re-checked first on every run)
pub fn witnesses() -> Vec<(&'static str, Vec<Section>, bool, bool)> {
    let sec = |recs: Vec<Rec>| Section {
        pre: vec![],
        sf: "a.c".into(),
        recs,
    };
    vec![
        ("taken_zero", vec![sec(vec![Rec::Brda(1, 0, 0, Some(0))])], false, true),
        (
            "first_branch_slot",
            vec![sec(vec![Rec::Brda(1, 0, 2, Some(1)), Rec::Brda(1, 0, 0, None)])],
            false,
            true,
        ),
        (
            "da_sum_overflow",
            vec![sec(vec![Rec::Da(1, u64::MAX as i128, None), Rec::Da(1, 2, None)])],
            false,
            true,
        ),
        (
            "latin1_names",
            vec![Section {
                pre: vec![],
                sf: "src/é/ü.c".into(),
                recs: vec![Rec::Fn(1, "名前".into()), Rec::Fnda(1, "名前".into())],
            }],
            false,
            true,
        ),
        (
            "fnda_precedes_fn",
            vec![sec(vec![Rec::Fnda(1, "f".into()), Rec::Fn(1, "f".into())])],
            false,
            true,
        ),
        (
            "fnda_around_fn",
            vec![sec(vec![
                Rec::Fnda(0, "f".into()),
                Rec::Fnda(2, "g".into()),
                Rec::Fn(3, "g".into()),
                Rec::Fn(1, "f".into()),
                Rec::Fnda(0, "g".into()),
            ])],
            true,
            true,
        ),
        (
            "da_checksum_like_end_of_record",
            vec![sec(vec![Rec::Da(1, 5, Some("eAbCd".into())), Rec::Da(2, 1, None)])],
            false,
            true,
        ),
        (
            "da_checksum_like_sf",
            vec![sec(vec![Rec::Da(2, 3, Some("SFxyz".into())), Rec::Fn(1, "f".into())])],
            false,
            true,
        ),
        (
            "da_checksum_md5_crlf",
            vec![sec(vec![
                Rec::Da(1, 5, Some("1B2M2Y8AsgTpgAmY7PhCfg".into())),
                Rec::Da(1, 2, Some("7,8".into())),
                Rec::Da(3, 0, Some("-".into())),
            ])],
            true,
            false,
        ),
    ]
}

pub fn replay(rep: &mut Report, case: &serde_json::Value) {
    let branch = case["branch"].as_bool().unwrap_or(true);
    match case["op"].as_str().unwrap_or("") {
        "lcov.fidelity" => {
            // the rendered tracefile and the spec outcome are both recorded
            let bytes = unhex(case["tracefile_hex"].as_str().unwrap());
            let got = run_impl(&bytes, branch);
            rep.case(&hex(&bytes), true);
            if got != case["spec"].as_str().unwrap() {
                rep.fail("oracle", None, "parse_lcov(tracefile) != recorded spec outcome".into(), case.clone());
            }
        }
        "lcov.parse" => {
            let bytes = unhex(case["input_hex"].as_str().unwrap());
            let got = run_impl(&bytes, branch);
            let model = run_model(
                &[format!("lcov.parse {} {}", if branch { 1 } else { 0 }, hex(&bytes))],
                &rep.workdir,
                "replay",
            )
            .remove(0);
            rep.case(&hex(&bytes), true);
            if got != model {
                rep.fail("disagreement", None, "parse_lcov differs from Lcov.parse".into(), case.clone());
            }
        }
        _ => {}
    }
}

fn main() {
    corrlib::run_main("C04", run, replay);
}
