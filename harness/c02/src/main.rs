//! C02 — every input is counted exactly once, for every thread count and interleaving.
//! Runs the hooked grcov binary on generated input sets with varying --threads, argument order
//! and schedule perturbation; (a) the per-thread event log must be realisable by a run of the
//! Lean `Pipeline` model; (b) the decoded lcov report must equal the independent aggregate of
//! what each input contains.
use corrlib::pipe::*;
use corrlib::*;
use serde_json::json;
use std::time::Duration;
mod runall;

pub fn run(rep: &mut Report) {
    rep.rule = "input sets of 2-10 overlapping .info/.xml files given as plain files or a directory, \
                --threads in {1,2,3,4,8}, shuffled argument order, seeded yield/sleep perturbation at every \
                hook point; non-trivial = at least two inputs share a source file and threads >= 2; \
                distinct = distinct (input set, threads, order, perturbation seed)"
        .to_string();
    let mut rng = Rng::new(rep.seed ^ 0xC02);
    let n_sets = rep.budget(40, 25);
    let runs_per_set = 5;
    let mut reqs: Vec<String> = vec![];
    let mut ctx: Vec<serde_json::Value> = vec![];
    for set in 0..n_sets {
        let k = rng.range(2, 10) as usize;
        let inputs = gen_inputs(&mut rng, k);
        let dir = rep.workdir.join(format!("set{}", set));
        let as_dir = rng.chance(1, 3);
        let data_dir = if as_dir { dir.join("data") } else { dir.clone() };
        write_inputs(&data_dir, &inputs);
        let refs: Vec<&Input> = inputs.iter().collect();
        let want = show_map(&aggregate(&refs));
        let shares = {
            let mut seen = std::collections::HashSet::new();
            inputs
                .iter()
                .flat_map(|i| i.parsed.iter().map(|p| p.0.clone()))
                .any(|k| !seen.insert(k))
        };
        // a worker that dies while holding an input: whatever the schedule, success (exit 0) is
        // never reported for a report that lacks an input
        for _ in 0..2 {
            let threads = *rng.pick(&[1usize, 2, 3, 4, 8]);
            let victim = rng.below(k as u64) as usize;
            let mut args: Vec<String> = if as_dir { vec!["data".to_string()] } else { inputs.iter().map(|i| i.name.clone()).collect() };
            rng.shuffle(&mut args);
            let perturb = if rng.chance(1, 2) { None } else { Some(rng.next() % 100000) };
            let out = run_grcov(&RunCfg {
                dir: &dir,
                args: args.clone(),
                threads,
                perturb,
                fault: Some(format!("panic:{}", inputs[victim].id)),
                limit: Duration::from_secs(60),
                extra: vec!["-t".into(), "lcov".into(), "--branch".into(), "--no-demangle".into()],
            });
            rep.case(&format!("{} {} {:?} {:?} dies {}", set, threads, args, perturb, victim), threads >= 2);
            rep.count("lost_input.runs");
            rep.count(&format!("lost_input.exit={}", match out.exit { Some(0) => "0", Some(_) => "nonzero", None => "timeout" }));
            let case = json!({"op": "pipeline-lost-input", "set": set, "threads": threads, "args": args, "perturb": perturb, "dies_on": inputs[victim].name,
                "inputs": inputs.iter().map(|i| json!({"name": i.name, "hex": hex(&i.bytes)})).collect::<Vec<_>>(), "as_dir": as_dir});
            match out.exit {
                None => rep.fail("oracle", None, "grcov did not terminate within 60 s after a worker died".into(), case),
                Some(0) => {
                    let got = decode_lcov_report(&out.stdout).map(|m| show_map(&m)).unwrap_or_default();
                    if got != want {
                        rep.fail("oracle", None, "grcov exited with status 0 although an input was lost with the worker that held it: the report is not the aggregate of all inputs".into(),
                            json!({"case": case, "report": got, "aggregate": want}));
                    }
                }
                Some(_) => {}
            }
        }
        for r in 0..runs_per_set {
            let threads = *rng.pick(&[1usize, 2, 2, 3, 4, 8]);
            let mut args: Vec<String> = if as_dir {
                vec!["data".to_string()]
            } else {
                inputs.iter().map(|i| i.name.clone()).collect()
            };
            rng.shuffle(&mut args);
            let perturb = if r == 0 { None } else { Some(rng.next() % 100000) };
            let cfg = RunCfg {
                dir: &dir,
                args: args.clone(),
                threads,
                perturb,
                fault: None,
                limit: Duration::from_secs(60),
                extra: vec!["-t".into(), "lcov".into(), "--branch".into(), "--no-demangle".into()],
            };
            let out = run_grcov(&cfg);
            let case = json!({"op": "pipeline", "set": set, "threads": threads, "args": args,
                "perturb": perturb, "inputs": inputs.iter().map(|i| json!({"name": i.name, "hex": hex(&i.bytes)})).collect::<Vec<_>>(),
                "as_dir": as_dir});
            rep.case(
                &format!("{} {} {:?} {:?}", set, threads, args, perturb),
                shares && threads >= 2,
            );
            rep.count(&format!("threads={}", threads));
            rep.count(if as_dir { "layout.dir" } else { "layout.plain" });
            // (b) end to end
            match out.exit {
                None => {
                    rep.fail("oracle", None, "grcov did not terminate within 60 s on well-formed inputs".into(), case.clone());
                    continue;
                }
                Some(0) => {}
                Some(c) => {
                    rep.fail("oracle", None, format!("grcov exited with status {} on well-formed inputs: {}", c, out.stderr.lines().last().unwrap_or("")), case.clone());
                    continue;
                }
            }
            match decode_lcov_report(&out.stdout) {
                Ok(m) => {
                    let got = show_map(&m);
                    if got != want {
                        rep.fail(
                            "oracle",
                            None,
                            "the report differs from the aggregation of what each input contains (an input dropped, counted twice or mixed)".into(),
                            json!({"case": case, "report": got, "aggregate": want}),
                        );
                    }
                }
                Err(e) => rep.fail("oracle", None, format!("report is not a valid lcov file: {}", e), case.clone()),
            }
            // (a) trace validation
            let interleaved = out
                .log
                .windows(2)
                .filter(|w| w[0].0 != w[1].0)
                .count();
            rep.count_n("log.thread_switches", interleaved as u64);
            // every batch goes into the map under exactly one lock / unlock pair
            let cnt = |k: &str| out.log.iter().filter(|e| e.1 == k).count();
            rep.count_n("log.lock_events", cnt("lock") as u64);
            if cnt("lock") != inputs.len() || cnt("unlock") != inputs.len() || cnt("merged") != inputs.len() {
                rep.fail("oracle", None, format!("{} inputs merged under {} lock and {} unlock events ({} merged events): a batch must be written under one acquisition of the result-map mutex",
                    inputs.len(), cnt("lock"), cnt("unlock"), cnt("merged")), case.clone());
            }
            match log_to_request(&out, threads, false, inputs.len(), &[]) {
                Ok(req) => {
                    if reqs.is_empty() {
                        rep.sample(json!({"threads": threads, "args": args, "request": req}));
                    }
                    reqs.push(req);
                    ctx.push(json!({"case": case, "log": out.log.iter().map(|e| format!("{} {} {}", e.0, e.1, e.2)).collect::<Vec<_>>(), "n_inputs": inputs.len()}));
                }
                Err(e) => rep.fail("oracle", None, format!("event log is inconsistent: {}", e), case.clone()),
            }
        }
    }
    let answers = run_model(&reqs, &rep.workdir, "pipe");
    for (i, a) in answers.iter().enumerate() {
        let n_inputs = ctx[i]["n_inputs"].as_u64().unwrap() as usize;
        let all: Vec<String> = (1..=n_inputs).map(|k| k.to_string()).collect();
        let expect_prefix = "accepted exit=0 merged=".to_string() + &all.join(",") + " ";
        if !a.starts_with(&expect_prefix) {
            rep.disagreements_checked += 1;
            rep.fail(
                "disagreement",
                None,
                format!("the event log is not a run of the Pipeline model that merges every input once ({}); theorems C02_* no longer transfer", a),
                json!({"context": ctx[i], "request": reqs[i], "model": a}),
            );
        }
    }
    rep.count_n("traces_validated", reqs.len() as u64);
    lock_negatives(rep, &reqs);
    capacity_cases(rep, &mut rng);
    runall::run(rep);
}

/// Unit-style negative tests of the trace validator on REAL logs: the accepted request of a run is
/// edited the way a broken mutex discipline would show in the log, and the model must refuse it.
///  * overlap: the lock lines of two workers swapped so that the second section opens before the
///    first is closed;
///  * split: one batch written under two lock/unlock pairs (what an `add_results` that releases the
///    mutex between taking an entry out and putting it back logs, if its acquisitions are logged);
///  * no-unlock: a `merged` without the `unlock` of its section;
///  * no-lock: a `merged` with no section at all.
fn lock_negatives(rep: &mut Report, reqs: &[String]) {
    let mut tests: Vec<(String, String)> = vec![];
    let mut used = 0;
    // the shortest logs first: refusing a log means exhausting the search for a realisation
    let mut sorted: Vec<&String> = reqs.iter().collect();
    sorted.sort_by_key(|r| r.len());
    for req in sorted {
        if used >= 6 {
            break;
        }
        let toks: Vec<&str> = req.split(' ').collect();
        let xi = match toks.iter().position(|t| t.starts_with("X:")) {
            Some(i) => i,
            None => continue,
        };
        let x: Vec<&str> = toks[xi][2..].split(',').collect();
        // two consecutive sections of different workers
        let pos = (0..x.len().saturating_sub(3)).step_by(2).find(|&i| x[i].trim_end_matches('l') != x[i + 2].trim_end_matches('l'));
        let wi = match toks.iter().position(|t| t.starts_with("W:") && t.contains(",l,u,")) {
            Some(i) => i,
            None => continue,
        };
        used += 1;
        let rebuild = |ti: usize, new: String| -> String {
            toks.iter().enumerate().map(|(i, t)| if i == ti { new.clone() } else { t.to_string() }).collect::<Vec<_>>().join(" ")
        };
        if let Some(i) = pos {
            let mut y: Vec<String> = x.iter().map(|s| s.to_string()).collect();
            y.swap(i + 1, i + 2);
            tests.push(("overlap".into(), rebuild(xi, format!("X:{}", y.join(",")))));
        }
        let w = toks[wi].to_string();
        let widx = toks[..wi].iter().filter(|t| t.starts_with("W:")).count();
        // the edited worker list plus a consistent X (the extra pair right after the first one of that worker)
        let split_w = w.replacen(",l,u,", ",l,u,l,u,", 1);
        let mut y: Vec<String> = x.iter().map(|s| s.to_string()).collect();
        if let Some(j) = y.iter().position(|e| *e == format!("{}u", widx)) {
            y.insert(j + 1, format!("{}l", widx));
            y.insert(j + 2, format!("{}u", widx));
        }
        let split_req = rebuild(wi, split_w);
        tests.push(("split".into(), split_req.replace(toks[xi], &format!("X:{}", y.join(",")))));
        tests.push(("no-unlock".into(), rebuild(wi, w.replacen(",l,u,", ",l,", 1))));
        tests.push(("no-lock".into(), rebuild(wi, w.replacen(",l,u,", ",", 1))));
    }
    let reqs2: Vec<String> = tests.iter().map(|t| t.1.clone()).collect();
    let ans = run_model(&reqs2, &rep.workdir, "locknegatives");
    for (i, a) in ans.iter().enumerate() {
        rep.case(&format!("lock-negative {} {}", tests[i].0, i), true);
        rep.count(&format!("lock_negative.{}", tests[i].0));
        if a.starts_with("rejected fuel") {
            rep.notes.push(format!("lock-negative {}: search budget exhausted (inconclusive)", tests[i].0));
            rep.count("lock_negative.inconclusive");
        } else if !a.starts_with("rejected") {
            rep.disagreements_checked += 1;
            rep.fail("disagreement", None, format!("the trace validator accepts a log edited to show a broken mutex discipline ({}): {}", tests[i].0, a),
                json!({"op": "lock-negative", "kind": tests[i].0, "request": tests[i].1, "model": a}));
        } else {
            rep.count(&format!("lock_negative.rejected.{}", a.split(' ').nth(1).unwrap_or("?")));
        }
    }
}

/// Capacity of the work queue: one worker, eight inputs that take long to parse. The producer
/// runs ahead until the queue (capacity 2N) is full; the number of items announced as sent but not
/// yet logged as received can then reach 2N + N and never more. A larger (or unbounded) channel
/// lets it grow to the number of inputs.
fn capacity_cases(rep: &mut Report, rng: &mut Rng) {
    let n = rep.budget(3, 4);
    let mut reqs = vec![];
    let mut ctx = vec![];
    for c in 0..n {
        let dir = rep.workdir.join(format!("capacity{}", c));
        let _ = std::fs::remove_dir_all(&dir);
        std::fs::create_dir_all(&dir).unwrap();
        let threads = if c % 3 == 2 { 2 } else { 1 };
        let k = 8 + 4 * (threads - 1);
        let mut args = vec![];
        for i in 0..k {
            let mut s = String::new();
            for f in 0..6 {
                s.push_str(&format!("SF:big{}_{}.c\n", i, f));
                for l in 1..20000 {
                    s.push_str(&format!("DA:{},{}\n", l, l % 7));
                }
                s.push_str("end_of_record\n");
            }
            let name = format!("big{}.info", i);
            std::fs::write(dir.join(&name), s).unwrap();
            args.push(name);
        }
        let cfg = RunCfg { dir: &dir, args: args.clone(), threads, perturb: Some(rng.next() % 100000), fault: None,
            limit: Duration::from_secs(120), extra: vec!["-t".into(), "lcov".into(), "--no-demangle".into()] };
        let out = run_grcov(&cfg);
        let case = json!({"op": "capacity", "threads": threads, "inputs": k});
        let backlog = max_backlog(&out);
        rep.case(&format!("capacity {} {} {}", c, threads, k), backlog >= 2 * threads);
        rep.count(&format!("capacity.threads={}.max_backlog={}", threads, backlog));
        if out.exit != Some(0) {
            rep.fail("oracle", None, format!("grcov exited with {:?} on large well-formed inputs", out.exit), case);
            continue;
        }
        if backlog > 2 * threads + threads {
            rep.fail("oracle", None,
                format!("{} items were announced as sent while not yet received, with --threads {}: the work queue holds more than 2 x threads items", backlog, threads), case.clone());
        }
        if backlog < 2 * threads {
            rep.notes.push(format!("capacity case {}: the queue was never full (backlog {})", c, backlog));
        }
        match log_to_request(&out, threads, false, k, &[]) {
            Ok(req) => {
                reqs.push(req);
                ctx.push(case);
            }
            Err(e) => rep.fail("oracle", None, format!("event log is inconsistent: {}", e), case),
        }
        let _ = std::fs::remove_dir_all(&dir);
    }
    let answers = run_model(&reqs, &rep.workdir, "capacity");
    for (i, a) in answers.iter().enumerate() {
        if !a.starts_with("accepted exit=0 ") {
            rep.disagreements_checked += 1;
            rep.fail("disagreement", None, format!("the event log of a run that fills the queue is not a run of the Pipeline model with capacity 2N ({})", a),
                json!({"context": ctx[i], "request": reqs[i], "model": a}));
        }
    }
    rep.count_n("traces_validated", reqs.len() as u64);
}

pub fn replay(rep: &mut Report, case: &serde_json::Value) {
    if runall::replay(rep, case) { return; }
    // re-run the recorded input set / thread count / order / perturbation seed
    let c = if case.get("case").is_some() { &case["case"] } else { case };
    let c = if c.get("case").is_some() { &c["case"] } else { c };
    let dir = rep.workdir.join("replay");
    let as_dir = c["as_dir"].as_bool().unwrap_or(false);
    let data_dir = if as_dir { dir.join("data") } else { dir.clone() };
    std::fs::create_dir_all(&data_dir).unwrap();
    let mut inputs = vec![];
    for i in c["inputs"].as_array().unwrap() {
        let name = i["name"].as_str().unwrap().to_string();
        let bytes = unhex(i["hex"].as_str().unwrap());
        std::fs::write(data_dir.join(&name), &bytes).unwrap();
        let parsed = if name.ends_with(".xml") {
            grcov::parse_jacoco_xml_report(std::io::BufReader::new(std::io::Cursor::new(bytes.clone()))).unwrap()
        } else {
            grcov::parse_lcov(bytes.clone(), true).unwrap()
        };
        inputs.push(Input { name, format: "Info", id: String::new(), bytes, parsed });
    }
    let refs: Vec<&Input> = inputs.iter().collect();
    let want = show_map(&aggregate(&refs));
    let cfg = RunCfg {
        dir: &dir,
        args: c["args"].as_array().unwrap().iter().map(|a| a.as_str().unwrap().to_string()).collect(),
        threads: c["threads"].as_u64().unwrap() as usize,
        perturb: c["perturb"].as_u64(),
        fault: None,
        limit: Duration::from_secs(60),
        extra: vec!["-t".into(), "lcov".into(), "--branch".into(), "--no-demangle".into()],
    };
    for _ in 0..20 {
        let out = run_grcov(&cfg);
        rep.case("replay", true);
        let got = decode_lcov_report(&out.stdout).map(|m| show_map(&m)).unwrap_or_default();
        if out.exit != Some(0) || got != want {
            rep.fail("oracle", None, "replayed run: report differs from the aggregate or non-zero exit".into(), case.clone());
            return;
        }
    }
}

fn main() {
    corrlib::run_main("C02", run, replay);
}
