//! C02 — every input is counted exactly once, for every thread count and interleaving.
//! Runs the hooked grcov binary on generated input sets with varying --threads, argument order
//! and schedule perturbation; (a) the per-thread event log must be realisable by a run of the
//! Lean `Pipeline` model; (b) the decoded lcov report must equal the independent aggregate of
//! what each input contains.
use corrlib::pipe::*;
use corrlib::*;
use serde_json::json;
use std::time::Duration;
mod qfull;
mod runall;
mod runmore;
mod runpair;

pub fn run(rep: &mut Report) {
    rep.rule = "input sets of 2-10 overlapping .info/.xml artifacts packed at random into 2-3 directories (with sub-directories), \
                1-2 zip archives and plain-file arguments (now and then the same relative name in several archives), in a third of the \
                sets an LLVM gcno/gcda pair in a directory or zip, in a third a source tree given as -s whose files the tracefiles name \
                under ./ /./ // spellings; --threads in {1,2,3,4,8}, the path arguments in a different (really permuted) order for every run, \
                seeded yield/sleep perturbation at every hook point; non-trivial = at least two artifacts share a source file and threads >= 2; \
                distinct = distinct (input set, threads, order, perturbation seed)"
        .to_string();
    // first: the stream whose REPORT oracle sees a producer that merges artifacts into one work item
    qfull::run(rep);
    // GCC inputs through a scripted $GCOV: a gcov run that fails AFTER writing output (gcov 12, stale
    // gcda) as the first gcno item of its consumer, and gcov 7 text output with an unparsable file
    rep.rule.push_str("; gcovstub stream: gcno/gcda units handed to a scripted $GCOV (gcov 12.2 JSON output with runs that fail after writing output, role-swapped pairs of sets; gcov 7.5 text output with one unparsable file among several per unit), --threads 1/2/4, two argument orders: report == aggregate of the units that were not rejected");
    let (nt, nj) = (rep.budget(2, 6), rep.budget(6, 6));
    gcov_stub_stream(rep, 0xC02_57B, nt, nj, "C02");
    let mut rng = Rng::new(rep.seed ^ 0xC02);
    let n_sets = rep.budget(40, 25);
    let runs_per_set = 5;
    let mut reqs: Vec<String> = vec![];
    let mut ctx: Vec<serde_json::Value> = vec![];
    // a run that does not terminate may take 30 s once, 5 s afterwards; after 3 of them no further
    // run with an injected death is started
    let mut hb = HangBudget::new(30, 5, 3);
    let extra0: Vec<String> = vec!["-t".into(), "lcov".into(), "--branch".into(), "--no-demangle".into()];
    for set in 0..n_sets {
        let k = rng.range(2, 10) as usize;
        let dir = rep.workdir.join(format!("set{}", set));
        let layout = build_layout(&mut rng, &dir, k);
        layout.materialise(&dir);
        let inputs = &layout.inputs;
        let n_items = layout.n_items;
        let want = show_map(&layout.expected());
        let shares = {
            let mut seen = std::collections::HashSet::new();
            inputs
                .iter()
                .flat_map(|i| i.parsed.iter().map(|p| normalise_spelling(&p.0)))
                .any(|k| !seen.insert(k))
        };
        let mut extra = extra0.clone();
        extra.extend(layout.extra.iter().cloned());
        let lay_json = layout.to_json();
        let mut last_args: Vec<String> = layout.args_canonical.clone();
        let mut next_args = |rng: &mut Rng| -> Vec<String> {
            let mut a = last_args.clone();
            if a.len() >= 2 {
                for _ in 0..8 {
                    rng.shuffle(&mut a);
                    if a != last_args {
                        break;
                    }
                }
                if a == last_args {
                    a.rotate_left(1);
                }
            }
            last_args = a.clone();
            a
        };
        // a worker that dies while holding an input: whatever the schedule, success (exit 0) is
        // never reported for a report that lacks an input
        for _ in 0..2 {
            let threads = *rng.pick(&[1usize, 2, 3, 4, 8]);
            let victim = rng.below(inputs.len() as u64) as usize;
            let args = next_args(&mut rng);
            let perturb = if rng.chance(1, 2) { None } else { Some(rng.next() % 100000) };
            if hb.exhausted() {
                hb.skip();
                rep.count("lost_input.skipped_after_hangs");
                continue;
            }
            let out = run_grcov(&RunCfg {
                dir: &dir,
                args: args.clone(),
                threads,
                perturb,
                fault: Some(format!("panic:{}", inputs[victim].id)),
                limit: hb.limit(),
                extra: extra.clone(),
            });
            hb.note(&out);
            rep.case(&format!("{} {} {:?} {:?} dies {}", set, threads, args, perturb, victim), threads >= 2);
            rep.count("lost_input.runs");
            rep.count(&format!("lost_input.exit={}", match out.exit { Some(0) => "0", Some(_) => "nonzero", None => "timeout" }));
            let case = json!({"op": "pipeline-lost-input", "set": set, "threads": threads, "args": args, "perturb": perturb, "dies_on": inputs[victim].name,
                "layout": lay_json});
            match out.exit {
                None => rep.fail("oracle", None, format!("grcov did not terminate within {} s after a worker died", hb.first.as_secs()), case),
                Some(0) => {
                    let got = decode_lcov_report(&out.stdout).map(|m| show_map(&m)).unwrap_or_default();
                    if got != want {
                        rep.fail("oracle", None, "grcov exited with status 0 although an input was lost with the worker that held it: the report is not the aggregate of all inputs".into(),
                            json!({"case": case, "report": got, "aggregate": want}));
                    }
                }
                Some(_) => {}
            }
        }
        for r in 0..runs_per_set {
            let threads = *rng.pick(&[1usize, 2, 2, 3, 4, 8]);
            let args = next_args(&mut rng);
            let perturb = if r == 0 { None } else { Some(rng.next() % 100000) };
            let cfg = RunCfg {
                dir: &dir,
                args: args.clone(),
                threads,
                perturb,
                fault: None,
                limit: hb.limit(),
                extra: extra.clone(),
            };
            let out = run_grcov(&cfg);
            hb.note(&out);
            let case = json!({"op": "pipeline", "set": set, "threads": threads, "args": args,
                "perturb": perturb, "layout": lay_json});
            rep.case(
                &format!("{} {} {:?} {:?}", set, threads, args, perturb),
                shares && threads >= 2,
            );
            rep.count(&format!("threads={}", threads));
            if r == 0 {
                rep.count(&format!("layout.{}", layout.shape));
                rep.count(&format!("layout.args={}", args.len().min(6)));
            }
            rep.count(if args != layout.args_canonical { "args.permuted" } else { "args.in_generation_order" });
            // (b) end to end
            match out.exit {
                None => {
                    rep.fail("oracle", None, format!("grcov did not terminate within {} s on well-formed inputs", cfg.limit.as_secs()), case.clone());
                    continue;
                }
                Some(0) => {}
                Some(c) => {
                    rep.fail("oracle", None, format!("grcov exited with status {} on well-formed inputs: {}", c, out.stderr.lines().last().unwrap_or("")), case.clone());
                    continue;
                }
            }
            match decode_lcov_report(&out.stdout) {
                Ok(m) => {
                    let got = show_map(&m);
                    if got != want {
                        rep.fail(
                            "oracle",
                            None,
                            "the report differs from the aggregation of what each input contains (an input dropped, counted twice or mixed)".into(),
                            json!({"case": case, "report": got, "aggregate": want}),
                        );
                    }
                }
                Err(e) => rep.fail("oracle", None, format!("report is not a valid lcov file: {}", e), case.clone()),
            }
            // (a) trace validation
            let interleaved = out
                .log
                .windows(2)
                .filter(|w| w[0].0 != w[1].0)
                .count();
            rep.count_n("log.thread_switches", interleaved as u64);
            // every batch goes into the map under exactly one lock / unlock pair
            let cnt = |k: &str| out.log.iter().filter(|e| e.1 == k).count();
            rep.count_n("log.lock_events", cnt("lock") as u64);
            if cnt("lock") != n_items || cnt("unlock") != n_items || cnt("merged") != n_items {
                rep.fail("oracle", None, format!("{} artifacts merged under {} lock and {} unlock events ({} merged events): every discovered artifact is one work item and a batch must be written under one acquisition of the result-map mutex",
                    n_items, cnt("lock"), cnt("unlock"), cnt("merged")), case.clone());
            }
            match log_to_request(&out, threads, false, n_items, &[]) {
                Ok(req) => {
                    if reqs.is_empty() {
                        rep.sample(json!({"threads": threads, "args": args, "request": req}));
                    }
                    reqs.push(req);
                    ctx.push(json!({"case": case, "log": out.log.iter().map(|e| format!("{} {} {}", e.0, e.1, e.2)).collect::<Vec<_>>(), "n_inputs": n_items}));
                }
                Err(e) => rep.fail("oracle", None, format!("event log is inconsistent: {}", e), case.clone()),
            }
        }
        let _ = std::fs::remove_dir_all(&dir);
    }
    let answers = run_model(&reqs, &rep.workdir, "pipe");
    for (i, a) in answers.iter().enumerate() {
        let n_inputs = ctx[i]["n_inputs"].as_u64().unwrap() as usize;
        let all: Vec<String> = (1..=n_inputs).map(|k| k.to_string()).collect();
        let expect_prefix = "accepted exit=0 merged=".to_string() + &all.join(",") + " ";
        if !a.starts_with(&expect_prefix) {
            rep.disagreements_checked += 1;
            rep.fail(
                "disagreement",
                None,
                format!("the event log is not a run of the Pipeline model that merges every input once ({}); theorems C02_* no longer transfer", a),
                json!({"context": ctx[i], "request": reqs[i], "model": a}),
            );
        }
    }
    rep.count_n("traces_validated", reqs.len() as u64);
    lock_negatives(rep, &reqs);
    capacity_cases(rep, &mut rng);
    runpair::run(rep);
    runall::run(rep);
    runmore::run(rep);
}

/// Unit-style negative tests of the trace validator on REAL logs: the accepted request of a run is
/// edited the way a broken mutex discipline would show in the log, and the model must refuse it.
///  * overlap: the lock lines of two workers swapped so that the second section opens before the
///    first is closed;
///  * split: one batch written under two lock/unlock pairs (what an `add_results` that releases the
///    mutex between taking an entry out and putting it back logs, if its acquisitions are logged);
///  * no-unlock: a `merged` without the `unlock` of its section;
///  * no-lock: a `merged` with no section at all.
fn lock_negatives(rep: &mut Report, reqs: &[String]) {
    let mut tests: Vec<(String, String)> = vec![];
    let mut used = 0;
    // the shortest logs first: refusing a log means exhausting the search for a realisation
    let mut sorted: Vec<&String> = reqs.iter().collect();
    sorted.sort_by_key(|r| r.len());
    // "overlap" needs a log in which two DIFFERENT workers hold the mutex one after the other: take
    // the three shortest such logs (the six shortest logs overall are single-worker runs)
    let mut n_overlap = 0;
    for req in &sorted {
        if n_overlap >= 3 {
            break;
        }
        let toks: Vec<&str> = req.split(' ').collect();
        let Some(xi) = toks.iter().position(|t| t.starts_with("X:")) else { continue };
        let x: Vec<&str> = toks[xi][2..].split(',').collect();
        let ids: std::collections::BTreeSet<&str> = x.iter().map(|e| e.trim_end_matches(|c| c == 'l' || c == 'u')).collect();
        if ids.len() < 2 {
            continue;
        }
        let Some(i) = (0..x.len().saturating_sub(3)).step_by(2).find(|&i| x[i].trim_end_matches('l') != x[i + 2].trim_end_matches('l')) else { continue };
        let mut y: Vec<String> = x.iter().map(|s| s.to_string()).collect();
        y.swap(i + 1, i + 2);
        let new = format!("X:{}", y.join(","));
        tests.push(("overlap".into(), toks.iter().enumerate().map(|(j, t)| if j == xi { new.clone() } else { t.to_string() }).collect::<Vec<_>>().join(" ")));
        n_overlap += 1;
    }
    if n_overlap == 0 {
        rep.notes.push("lock-negative overlap: no log with two workers holding the mutex in turn".into());
    }
    for req in sorted {
        if used >= 6 {
            break;
        }
        let toks: Vec<&str> = req.split(' ').collect();
        let xi = match toks.iter().position(|t| t.starts_with("X:")) {
            Some(i) => i,
            None => continue,
        };
        let x: Vec<&str> = toks[xi][2..].split(',').collect();
        // two consecutive sections of different workers
        let pos = (0..x.len().saturating_sub(3)).step_by(2).find(|&i| x[i].trim_end_matches('l') != x[i + 2].trim_end_matches('l'));
        let wi = match toks.iter().position(|t| t.starts_with("W:") && t.contains(",l,u,")) {
            Some(i) => i,
            None => continue,
        };
        used += 1;
        let rebuild = |ti: usize, new: String| -> String {
            toks.iter().enumerate().map(|(i, t)| if i == ti { new.clone() } else { t.to_string() }).collect::<Vec<_>>().join(" ")
        };
        if let Some(i) = pos {
            let mut y: Vec<String> = x.iter().map(|s| s.to_string()).collect();
            y.swap(i + 1, i + 2);
            tests.push(("overlap".into(), rebuild(xi, format!("X:{}", y.join(",")))));
        }
        let w = toks[wi].to_string();
        let widx = toks[..wi].iter().filter(|t| t.starts_with("W:")).count();
        // the edited worker list plus a consistent X (the extra pair right after the first one of that worker)
        let split_w = w.replacen(",l,u,", ",l,u,l,u,", 1);
        let mut y: Vec<String> = x.iter().map(|s| s.to_string()).collect();
        if let Some(j) = y.iter().position(|e| *e == format!("{}u", widx)) {
            y.insert(j + 1, format!("{}l", widx));
            y.insert(j + 2, format!("{}u", widx));
        }
        let split_req = rebuild(wi, split_w);
        tests.push(("split".into(), split_req.replace(toks[xi], &format!("X:{}", y.join(",")))));
        tests.push(("no-unlock".into(), rebuild(wi, w.replacen(",l,u,", ",l,", 1))));
        tests.push(("no-lock".into(), rebuild(wi, w.replacen(",l,u,", ",", 1))));
    }
    let reqs2: Vec<String> = tests.iter().map(|t| t.1.clone()).collect();
    let ans = run_model(&reqs2, &rep.workdir, "locknegatives");
    for (i, a) in ans.iter().enumerate() {
        rep.case(&format!("lock-negative {} {}", tests[i].0, i), true);
        rep.count(&format!("lock_negative.{}", tests[i].0));
        if a.starts_with("rejected fuel") {
            rep.notes.push(format!("lock-negative {}: search budget exhausted (inconclusive)", tests[i].0));
            rep.count("lock_negative.inconclusive");
        } else if !a.starts_with("rejected") {
            rep.disagreements_checked += 1;
            rep.fail("disagreement", None, format!("the trace validator accepts a log edited to show a broken mutex discipline ({}): {}", tests[i].0, a),
                json!({"op": "lock-negative", "kind": tests[i].0, "request": tests[i].1, "model": a}));
        } else {
            rep.count(&format!("lock_negative.rejected.{}", a.split(' ').nth(1).unwrap_or("?")));
        }
    }
}

/// Capacity of the work queue: one worker, eight inputs that take long to parse. The producer
/// runs ahead until the queue (capacity 2N) is full; the number of items announced as sent but not
/// yet logged as received can then reach 2N + N and never more. A larger (or unbounded) channel
/// lets it grow to the number of inputs.
fn capacity_cases(rep: &mut Report, rng: &mut Rng) {
    let n = rep.budget(3, 4);
    let mut reqs = vec![];
    let mut ctx = vec![];
    for c in 0..n {
        let dir = rep.workdir.join(format!("capacity{}", c));
        let _ = std::fs::remove_dir_all(&dir);
        std::fs::create_dir_all(&dir).unwrap();
        let threads = if c % 3 == 2 { 2 } else { 1 };
        let k = 8 + 4 * (threads - 1);
        let mut args = vec![];
        for i in 0..k {
            let mut s = String::new();
            for f in 0..6 {
                s.push_str(&format!("SF:big{}_{}.c\n", i, f));
                for l in 1..20000 {
                    s.push_str(&format!("DA:{},{}\n", l, l % 7));
                }
                s.push_str("end_of_record\n");
            }
            let name = format!("big{}.info", i);
            std::fs::write(dir.join(&name), s).unwrap();
            args.push(name);
        }
        let cfg = RunCfg { dir: &dir, args: args.clone(), threads, perturb: Some(rng.next() % 100000), fault: None,
            limit: Duration::from_secs(120), extra: vec!["-t".into(), "lcov".into(), "--no-demangle".into()] };
        let out = run_grcov(&cfg);
        let case = json!({"op": "capacity", "threads": threads, "inputs": k});
        let backlog = max_backlog(&out);
        rep.case(&format!("capacity {} {} {}", c, threads, k), backlog >= 2 * threads);
        rep.count(&format!("capacity.threads={}.max_backlog={}", threads, backlog));
        if out.exit != Some(0) {
            rep.fail("oracle", None, format!("grcov exited with {:?} on large well-formed inputs", out.exit), case);
            continue;
        }
        if backlog > 2 * threads + threads {
            rep.fail("oracle", None,
                format!("{} items were announced as sent while not yet received, with --threads {}: the work queue holds more than 2 x threads items", backlog, threads), case.clone());
        }
        if backlog < 2 * threads {
            rep.notes.push(format!("capacity case {}: the queue was never full (backlog {})", c, backlog));
        }
        match log_to_request(&out, threads, false, k, &[]) {
            Ok(req) => {
                reqs.push(req);
                ctx.push(case);
            }
            Err(e) => rep.fail("oracle", None, format!("event log is inconsistent: {}", e), case),
        }
        let _ = std::fs::remove_dir_all(&dir);
    }
    let answers = run_model(&reqs, &rep.workdir, "capacity");
    for (i, a) in answers.iter().enumerate() {
        if !a.starts_with("accepted exit=0 ") {
            rep.disagreements_checked += 1;
            rep.fail("disagreement", None, format!("the event log of a run that fills the queue is not a run of the Pipeline model with capacity 2N ({})", a),
                json!({"context": ctx[i], "request": reqs[i], "model": a}));
        }
    }
    rep.count_n("traces_validated", reqs.len() as u64);
}

pub fn replay(rep: &mut Report, case: &serde_json::Value) {
    if runmore::replay(rep, case) { return; }
    if runall::replay(rep, case) { return; }
    if runpair::replay(rep, case) { return; }
    if qfull::replay(rep, case) { return; }
    if gcov_stub_replay(rep, case, "C02") { return; }
    // re-run the recorded layout / thread count / order / perturbation seed
    let c = if case.get("case").is_some() { &case["case"] } else { case };
    let c = if c.get("context").is_some() { &c["context"]["case"] } else { c };
    let c = if c.get("case").is_some() { &c["case"] } else { c };
    let Some(lay) = c.get("layout") else {
        rep.notes.push("replay: the case has no layout".into());
        return;
    };
    let dir = rep.workdir.join("replay");
    let _ = std::fs::remove_dir_all(&dir);
    for f in lay["files"].as_array().unwrap() {
        let path = dir.join(f[0].as_str().unwrap());
        std::fs::create_dir_all(path.parent().unwrap()).unwrap();
        std::fs::write(path, unhex(f[1].as_str().unwrap())).unwrap();
    }
    let want = lay["expected"].as_str().unwrap_or("").to_string();
    let mut extra: Vec<String> = vec!["-t".into(), "lcov".into(), "--branch".into(), "--no-demangle".into()];
    extra.extend(lay["extra"].as_array().unwrap().iter().map(|a| a.as_str().unwrap().to_string()));
    let cfg = RunCfg {
        dir: &dir,
        args: c["args"].as_array().unwrap().iter().map(|a| a.as_str().unwrap().to_string()).collect(),
        threads: c["threads"].as_u64().unwrap() as usize,
        perturb: c["perturb"].as_u64(),
        fault: None,
        limit: Duration::from_secs(30),
        extra,
    };
    for _ in 0..20 {
        let out = run_grcov(&cfg);
        rep.case("replay", true);
        let got = decode_lcov_report(&out.stdout).map(|m| show_map(&m)).unwrap_or_default();
        if out.exit != Some(0) || got != want {
            rep.fail("oracle", None, "replayed run: report differs from the aggregate or non-zero exit".into(), case.clone());
            return;
        }
    }
}

fn main() {
    corrlib::run_main("C02", run, replay);
}
