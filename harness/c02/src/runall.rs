//! C02 / C16, part RunAll — the tie of the Lean model of ONE WHOLE RUN (`Cli.RunAll.run`,
//! lean/GrcovModel/Cli/RunAll.lean; driver op `run.all`) to the real grcov binary.
//!
//! A case is a generated source tree (`src/…`, texts with exclusion markers, LF / CRLF, with and
//! without final newline, empty, not UTF-8, missing), 1-5 inputs (lcov tracefiles and JaCoCo XML
//! reports that overlap in the files they describe, now and then one its parser rejects), an output
//! type out of {lcov, covdir, coveralls, coveralls+, cobertura, ade, files}, with or without
//! `--sort-output-types <type>`, `--branch`, `-s`, `--ignore`, `--keep-only`, `--filter`,
//! `--ignore-not-existing`, any subset of the six `--excl-*` options, the inputs in shuffled argument
//! order and `--threads 1..4`.
//!
//! Tie: the bytes the binary writes to stdout == the bytes of `run` on the same inputs, file tree and
//! options, BYTE FOR BYTE for every type. The parameters of the model are read off the real report
//! and handed to the model: the order of the FILE records (the result map is a hash map; the
//! property allows that order to vary for unsorted types), floats / timestamp / git / digests (C13's
//! and C03's subjects). They can only rearrange file records or fill in those fields: any difference
//! in coverage data, names, structure, exclusion or in the order of the FUNCTION records of a file
//! (name order since fix 73c9152, computed by the model) is a byte difference.
//!
//! Oracles, independent of the model (own decoders of the seven report formats, own aggregate, own
//! marker rule): C02 – the decoded report is the aggregate of what each input individually contains,
//! a rejected input contributes nothing, a second run with another argument order, thread count and
//! perturbation seed writes the same BYTES up to the order of the file records (the same bytes when
//! the type is sorted); C16 –
//! against the same run without `--excl-*` options, a line / branch entry is absent iff the marker
//! rule says so on the file's text, and nothing else differs.
#![allow(dead_code)]
use corrlib::pipe::*;
use corrlib::*;
use grcov::CovResult;
use serde_json::{json, Value};
use std::collections::{BTreeMap, BTreeSet};
use std::path::{Path, PathBuf};
use std::time::Duration;

pub const TYPES: &[&str] = &["lcov", "covdir", "coveralls", "coveralls+", "cobertura", "ade", "files"];
const MARKERS: [&str; 6] = ["NOCOV", "BEGINX", "ENDX", "NOBR", "BRBEGIN", "BREND"];
const EXCL_OPTS: [&str; 6] = ["--excl-line", "--excl-start", "--excl-stop", "--excl-br-line", "--excl-br-start", "--excl-br-stop"];
const SRC_POOL: &[&str] = &["a.c", "b.c", "lib/c.rs", "lib/deep/d.cpp", "e.h"];
const JAVA_POOL: &[&str] = &["A.java", "B.java"];
const FN_POOL: &[(&str, u32)] = &[("main", 1), ("f", 3), ("g_h", 5), ("Cls::m", 7), ("top-level", 2)];

#[derive(Clone, Debug)]
pub struct Case {
    /// files below the case directory: (relative path, bytes)
    pub tree: Vec<(String, Vec<u8>)>,
    /// "." or "src"
    pub cwd: String,
    /// `-s src` given
    pub source_dir: bool,
    /// input files in argument order: (path relative to the cwd, is JaCoCo)
    pub inputs: Vec<(String, bool)>,
    pub ty: String,
    pub sorted: bool,
    pub branch: bool,
    pub ignore: Vec<String>,
    pub keep: Vec<String>,
    pub filter: Option<bool>,
    pub ignore_not_existing: bool,
    /// which of the six `--excl-*` options are given
    pub excl: [bool; 6],
    pub threads: usize,
}

impl Case {
    pub fn to_json(&self, op: &str) -> Value {
        json!({"op": op,
            "tree": self.tree.iter().map(|(p, b)| json!([p, hex(b)])).collect::<Vec<_>>(),
            "cwd": self.cwd, "source_dir": self.source_dir,
            "inputs": self.inputs.iter().map(|(p, j)| json!([p, j])).collect::<Vec<_>>(),
            "type": self.ty, "sorted": self.sorted, "branch": self.branch, "ignore": self.ignore, "keep": self.keep,
            "filter": self.filter, "ignore_not_existing": self.ignore_not_existing,
            "excl": self.excl.to_vec(), "threads": self.threads})
    }
    pub fn from_json(v: &Value) -> Option<Case> {
        let strs = |k: &str| -> Vec<String> { v[k].as_array().map(|a| a.iter().filter_map(|x| x.as_str().map(|s| s.to_string())).collect()).unwrap_or_default() };
        let mut excl = [false; 6];
        for (i, b) in v["excl"].as_array()?.iter().enumerate().take(6) {
            excl[i] = b.as_bool()?;
        }
        Some(Case {
            tree: v["tree"].as_array()?.iter().map(|e| (e[0].as_str().unwrap_or("").to_string(), unhex(e[1].as_str().unwrap_or("")))).collect(),
            cwd: v["cwd"].as_str()?.to_string(),
            source_dir: v["source_dir"].as_bool()?,
            inputs: v["inputs"].as_array()?.iter().map(|e| (e[0].as_str().unwrap_or("").to_string(), e[1].as_bool().unwrap_or(false))).collect(),
            ty: v["type"].as_str()?.to_string(),
            sorted: v["sorted"].as_bool()?,
            branch: v["branch"].as_bool()?,
            ignore: strs("ignore"),
            keep: strs("keep"),
            filter: v["filter"].as_bool(),
            ignore_not_existing: v["ignore_not_existing"].as_bool()?,
            excl,
            threads: v["threads"].as_u64()? as usize,
        })
    }
    pub fn canonical(&self) -> String {
        format!("{:?}", self)
    }
    fn has_excl(&self) -> bool {
        self.excl[0] || self.excl[1] || self.excl[3] || self.excl[4]
    }
    fn plain_selection(&self) -> bool {
        self.ignore.is_empty() && self.keep.is_empty() && self.filter.is_none() && !self.ignore_not_existing
    }
}

// ---- generation -------------------------------------------------------------------------------

fn gen_text(rng: &mut Rng, markers: bool) -> Vec<u8> {
    let kind = rng.below(20);
    if kind == 0 {
        return vec![]; // empty file
    }
    let n = rng.range(1, 14);
    let crlf = rng.chance(1, 3);
    let mut lines: Vec<String> = vec![];
    for i in 0..n {
        let mut l = format!("line {} x = y;", i + 1);
        if markers {
            // up to two markers on one line (same-line start/stop, both single-line markers, …)
            for _ in 0..2 {
                if rng.chance(1, 4) {
                    l.push_str(" // ");
                    let mk: &str = *rng.pick(&MARKERS[..]); l.push_str(mk);
                }
            }
        }
        if rng.chance(1, 12) {
            l.clear(); // an empty line
        }
        lines.push(l);
    }
    let eol = if crlf { "\r\n" } else { "\n" };
    let mut s = lines.join(eol);
    match rng.below(6) {
        0 => {}                                // no final newline
        1 => { s.push_str(eol); s.push_str(eol); } // ends in an empty line
        _ => s.push_str(eol),
    }
    let mut b = s.into_bytes();
    if kind == 1 {
        // not UTF-8: `read_to_string` fails, the record must come through unchanged
        let at = rng.below(b.len() as u64 + 1) as usize;
        b.insert(at, 0xE9);
    }
    b
}

fn gen_lcov(rng: &mut Rng, tag: usize) -> Vec<u8> {
    let mut s = String::new();
    if rng.chance(1, 2) {
        s.push_str(&format!("TN:t{}\n", tag));
    }
    let ns = rng.range(1, 3);
    for _ in 0..ns {
        let sf = *rng.pick(SRC_POOL);
        s.push_str(&format!("SF:{}\n", sf));
        let nf = rng.below(3);
        let mut fns: Vec<(&str, u32)> = vec![];
        for _ in 0..nf {
            let f = *rng.pick(FN_POOL);
            if !fns.iter().any(|g| g.0 == f.0) {
                fns.push(f);
            }
        }
        for (n, st) in &fns {
            s.push_str(&format!("FN:{},{}\n", st, n));
        }
        for (n, _) in &fns {
            s.push_str(&format!("FNDA:{},{}\n", rng.below(3), n));
        }
        let mut used = BTreeSet::new();
        for _ in 0..rng.range(0, 7) {
            let l = rng.range(1, 14);
            if used.insert(l) {
                let c = match rng.below(8) {
                    0 => u64::MAX - rng.below(3),
                    1 | 2 | 3 => 0,
                    _ => rng.range(1, 40),
                };
                s.push_str(&format!("DA:{},{}\n", l, c));
            }
        }
        for _ in 0..rng.below(4) {
            let l = rng.range(1, 14);
            let nb = rng.range(1, 3);
            for b in 0..nb {
                let t = match rng.below(3) { 0 => "-".to_string(), 1 => "0".to_string(), _ => rng.range(1, 9).to_string() };
                s.push_str(&format!("BRDA:{},0,{},{}\n", l, b, t));
            }
        }
        s.push_str("end_of_record\n");
    }
    // contents unique per input
    s.push_str(&format!("TN:u{}\n", tag));
    s.into_bytes()
}

/// a tracefile the parser rejects (after a good section: nothing of it may reach the report)
fn gen_rejected_lcov(rng: &mut Rng, tag: usize) -> Vec<u8> {
    let sf = *rng.pick(SRC_POOL);
    format!("TN:r{}\nSF:{}\nDA:1,7\nDA:2,3\nend_of_record\nSF:{}\nDA:x{},1\nend_of_record\n", tag, sf, sf, tag).into_bytes()
}

pub fn gen_case(rng: &mut Rng, force_markers: bool, ty: &str) -> Case {
    let mode = rng.below(20);
    let (cwd, source_dir) = if mode < 12 { (".", true) } else if mode < 17 { ("src", false) } else { (".", false) };
    let markers = force_markers || rng.chance(1, 2);
    let n_in = rng.range(1, 5) as usize;
    let mut tree: Vec<(String, Vec<u8>)> = vec![];
    let mut inputs: Vec<(String, bool)> = vec![];
    let mut any_jacoco = false;
    let pre = if cwd == "src" { "../in/" } else { "in/" };
    for i in 0..n_in {
        let k = rng.below(10);
        if k < 2 {
            let n = rng.range(1, 2) as usize;
            let files: Vec<&str> = JAVA_POOL[..n].to_vec();
            let mut bytes = gen_jacoco(rng, &files);
            bytes.extend_from_slice(format!("<!-- {} -->\n", i).as_bytes());
            tree.push((format!("in/in{}.xml", i), bytes));
            inputs.push((format!("{}in{}.xml", pre, i), true));
            any_jacoco = true;
        } else if k == 2 {
            tree.push((format!("in/in{}.info", i), gen_rejected_lcov(rng, i)));
            inputs.push((format!("{}in{}.info", pre, i), false));
        } else {
            tree.push((format!("in/in{}.info", i), gen_lcov(rng, i)));
            inputs.push((format!("{}in{}.info", pre, i), false));
        }
    }
    rng.shuffle(&mut inputs);
    // the source tree; with JaCoCo inputs and `-s` every file exists (otherwise the Java partial-path
    // lookup runs, which this model leaves to C11's `rewritePathsJ`)
    let may_miss = !(any_jacoco && source_dir);
    for f in SRC_POOL {
        if may_miss && rng.chance(1, 8) {
            continue;
        }
        tree.push((format!("src/{}", f), gen_text(rng, markers)));
    }
    for f in JAVA_POOL {
        tree.push((format!("src/pkg/{}", f), gen_text(rng, markers)));
    }
    let mut excl = [false; 6];
    if markers {
        for e in excl.iter_mut() {
            *e = rng.chance(2, 3);
        }
        if force_markers && !(excl[0] || excl[1] || excl[3] || excl[4]) {
            excl[*rng.pick(&[0usize, 1, 3, 4])] = true;
        }
    }
    let mut ignore = vec![];
    let mut keep = vec![];
    let mut filter = None;
    let mut ignore_not_existing = false;
    if rng.chance(1, 2) {
        if rng.chance(1, 3) {
            ignore.push(rng.pick(&["lib/*", "*.h", "pkg/*", "b.c"]).to_string());
        }
        if rng.chance(1, 4) {
            keep.push(rng.pick(&["lib/*", "*.c", "*.java", "*"]).to_string());
        }
        if rng.chance(1, 3) {
            filter = Some(rng.chance(1, 2));
        }
        ignore_not_existing = rng.chance(1, 4);
    }
    Case {
        tree,
        cwd: cwd.to_string(),
        source_dir,
        inputs,
        ty: ty.to_string(),
        sorted: rng.chance(1, 2),
        branch: rng.chance(3, 4),
        ignore,
        keep,
        filter,
        ignore_not_existing,
        excl,
        threads: rng.range(1, 4) as usize,
    }
}

// ---- running the real binary ------------------------------------------------------------------

pub fn materialise(dir: &Path, c: &Case) {
    let _ = std::fs::remove_dir_all(dir);
    std::fs::create_dir_all(dir.join("src")).unwrap();
    std::fs::create_dir_all(dir.join("in")).unwrap();
    for (p, b) in &c.tree {
        let path = dir.join(p);
        std::fs::create_dir_all(path.parent().unwrap()).unwrap();
        std::fs::write(path, b).unwrap();
    }
}

pub fn extra_args(c: &Case, with_excl: bool) -> Vec<String> {
    let mut a: Vec<String> = vec!["-t".into(), c.ty.clone(), "--no-demangle".into()];
    if c.sorted {
        a.push("--sort-output-types".into());
        a.push(c.ty.clone());
    }
    if c.branch {
        a.push("--branch".into());
    }
    if c.source_dir {
        a.push("-s".into());
        a.push("src".into());
    }
    for g in &c.ignore {
        a.push("--ignore".into());
        a.push(g.clone());
    }
    for g in &c.keep {
        a.push("--keep-only".into());
        a.push(g.clone());
    }
    if let Some(f) = c.filter {
        a.push("--filter".into());
        a.push(if f { "covered" } else { "uncovered" }.into());
    }
    if c.ignore_not_existing {
        a.push("--ignore-not-existing".into());
    }
    if with_excl {
        for i in 0..6 {
            if c.excl[i] {
                a.push(EXCL_OPTS[i].into());
                a.push(MARKERS[i].into());
            }
        }
    }
    if c.ty.starts_with("coveralls") {
        for (k, v) in [("--token", "tok"), ("--service-name", "svc"), ("--service-number", "1"), ("--service-job-id", "2"),
                       ("--service-pull-request", "3"), ("--commit-sha", "sha"), ("--vcs-branch", "main")] {
            a.push(k.into());
            a.push(v.into());
        }
    }
    a
}

pub fn run_real(dir: &Path, c: &Case, args: &[String], threads: usize, with_excl: bool) -> RunOut {
    run_real_p(dir, c, args, threads, with_excl, None)
}

pub fn run_real_p(dir: &Path, c: &Case, args: &[String], threads: usize, with_excl: bool, perturb: Option<u64>) -> RunOut {
    let cwd = if c.cwd == "." { dir.to_path_buf() } else { dir.join(&c.cwd) };
    run_grcov(&RunCfg {
        dir: &cwd,
        args: args.to_vec(),
        threads,
        perturb,
        fault: None,
        limit: Duration::from_secs(60),
        extra: extra_args(c, with_excl),
    })
}

// ---- reading the model's parameters off the real report ----------------------------------------

#[derive(Default, Debug)]
pub struct Params {
    pub rec_order: Vec<String>,
    pub fn_order: Vec<(String, Vec<String>)>,
    pub items: Vec<String>,
}

fn push_fn(p: &mut Params, rel: &str, f: &str) {
    if let Some(e) = p.fn_order.iter_mut().find(|e| e.0 == rel) {
        e.1.push(f.to_string());
    } else {
        p.fn_order.push((rel.to_string(), vec![f.to_string()]));
    }
}

fn unescape_xml(s: &str) -> String {
    s.replace("&lt;", "<").replace("&gt;", ">").replace("&quot;", "\"").replace("&apos;", "'").replace("&amp;", "&")
}

/// attributes of a start tag body (`name k="v" …`), document order
fn tag_attrs(body: &str) -> (String, Vec<(String, String)>) {
    let body = body.trim_end_matches('/');
    let (name, mut rest) = match body.find(' ') {
        Some(i) => (&body[..i], &body[i + 1..]),
        None => (body, ""),
    };
    let mut attrs = vec![];
    while let Some(eq) = rest.find("=\"") {
        let k = rest[..eq].trim().to_string();
        let after = &rest[eq + 2..];
        let end = after.find('"').unwrap_or(after.len());
        attrs.push((k, unescape_xml(&after[..end])));
        rest = if end < after.len() { &after[end + 1..] } else { "" };
    }
    (name.to_string(), attrs)
}

/// walk the tags of a cobertura report: f(path of child indices, tag, attrs)
fn walk_cobertura(text: &str, mut f: impl FnMut(&[usize], &str, &[(String, String)])) {
    let start = match text.find("<coverage") {
        Some(i) => i,
        None => return,
    };
    let mut rest = &text[start..];
    let mut counters: Vec<usize> = vec![];
    let mut path: Vec<usize> = vec![];
    while let Some(lt) = rest.find('<') {
        if lt > 0 && !counters.is_empty() {
            *counters.last_mut().unwrap() += 1; // character data is a child
        }
        let gt = match rest[lt..].find('>') {
            Some(g) => lt + g,
            None => return,
        };
        let body = &rest[lt + 1..gt];
        rest = &rest[gt + 1..];
        if body.starts_with('/') {
            counters.pop();
            path.pop();
            continue;
        }
        let depth0 = counters.is_empty();
        if !depth0 {
            let idx = *counters.last().unwrap();
            *counters.last_mut().unwrap() += 1;
            path.push(idx);
        }
        let (tag, attrs) = tag_attrs(body);
        f(&path, &tag, &attrs);
        if body.ends_with('/') {
            if !depth0 {
                path.pop();
            }
        } else {
            counters.push(0);
            if depth0 {
                // the root has the empty path; mark it so that its end tag pops nothing but the counter
                path.clear();
            }
        }
    }
}

fn covdir_fills(v: &Value, path: &mut Vec<String>, out: &mut Vec<String>) {
    if let Some(p) = v.get("coveragePercent") {
        out.push(format!("p{}={}", hex(path.join("/").as_bytes()), hex(p.to_string().as_bytes())));
    }
    if let Some(ch) = v.get("children").and_then(|c| c.as_object()) {
        for (k, c) in ch {
            path.push(k.clone());
            covdir_fills(c, path, out);
            path.pop();
        }
    }
}

pub fn read_params(ty: &str, text: &str) -> Params {
    let mut p = Params::default();
    match ty {
        "lcov" => {
            let mut cur = String::new();
            for l in text.lines() {
                if let Some(sf) = l.strip_prefix("SF:") {
                    cur = sf.to_string();
                    p.rec_order.push(cur.clone());
                } else if let Some(r) = l.strip_prefix("FN:") {
                    if let Some((_, n)) = r.split_once(',') {
                        push_fn(&mut p, &cur.clone(), n);
                    }
                }
            }
        }
        "files" => p.rec_order = text.lines().map(|l| l.to_string()).collect(),
        "coveralls" | "coveralls+" => {
            if let Ok(v) = serde_json::from_str::<Value>(text) {
                for f in v["source_files"].as_array().cloned().unwrap_or_default() {
                    let name = f["name"].as_str().unwrap_or("").to_string();
                    p.rec_order.push(name.clone());
                    p.items.push(format!("g{}", hex(f["source_digest"].as_str().unwrap_or("").as_bytes())));
                    for g in f["functions"].as_array().cloned().unwrap_or_default() {
                        push_fn(&mut p, &name, g["name"].as_str().unwrap_or(""));
                    }
                }
                p.items.push(format!("c{}", hex(serde_json::to_string(&v["git"]).unwrap().as_bytes())));
            }
        }
        "covdir" => {
            if let Ok(v) = serde_json::from_str::<Value>(text) {
                covdir_fills(&v, &mut vec![], &mut p.items);
            }
        }
        "ade" => {
            for l in text.lines() {
                if let Ok(v) = serde_json::from_str::<Value>(l) {
                    let name = v["file"]["name"].as_str().unwrap_or("").to_string();
                    if v.get("is_file").is_some() {
                        p.rec_order.push(name);
                    } else {
                        push_fn(&mut p, &name, v["method"]["name"].as_str().unwrap_or(""));
                    }
                }
            }
            let pat = "\"percentage_covered\":";
            let mut rest = text;
            while let Some(i) = rest.find(pat) {
                rest = &rest[i + pat.len()..];
                let e = rest.find(|c| c == ',' || c == '}').unwrap_or(rest.len());
                let t = &rest[..e];
                p.items.push(if t == "null" { "tn".to_string() } else { format!("t{}", hex(t.as_bytes())) });
                rest = &rest[e..];
            }
        }
        "cobertura" => {
            let mut masks: Vec<String> = vec![];
            let mut cur = String::new();
            let mut recs: Vec<String> = vec![];
            let mut fns: Vec<(String, String)> = vec![];
            walk_cobertura(text, |path, tag, attrs| {
                for (k, v) in attrs {
                    if k == "line-rate" || k == "branch-rate" || k == "timestamp" {
                        masks.push(format!("{}/{}={}", path.iter().map(|i| i.to_string()).collect::<Vec<_>>().join("."), k, hex(v.as_bytes())));
                    }
                }
                if tag == "package" {
                    cur = attrs.iter().find(|a| a.0 == "name").map(|a| a.1.clone()).unwrap_or_default();
                    recs.push(cur.clone());
                } else if tag == "method" {
                    fns.push((cur.clone(), attrs.iter().find(|a| a.0 == "name").map(|a| a.1.clone()).unwrap_or_default()));
                }
            });
            p.rec_order = recs;
            for (r, f) in fns {
                push_fn(&mut p, &r, &f);
            }
            p.items.push(format!("v{}", masks.join(",")));
        }
        _ => {}
    }
    p
}

// ---- the request ------------------------------------------------------------------------------

pub fn scan_fs(cwd: &Path) -> (Vec<String>, Vec<String>) {
    let mut dirs = vec![];
    let mut files = vec![];
    let mut p = cwd.to_path_buf();
    loop {
        let s = p.to_str().unwrap().to_string();
        if s != "/" {
            dirs.push(s);
        }
        if !p.pop() {
            break;
        }
    }
    // the whole case directory is below or above the cwd: scan from the case root
    fn walk(d: &Path, dirs: &mut Vec<String>, files: &mut Vec<String>) {
        if let Ok(rd) = std::fs::read_dir(d) {
            let mut es: Vec<PathBuf> = rd.flatten().map(|e| e.path()).collect();
            es.sort();
            for path in es {
                let s = path.to_str().unwrap().to_string();
                if path.is_dir() {
                    if !dirs.contains(&s) {
                        dirs.push(s);
                    }
                    walk(&path, dirs, files);
                } else {
                    files.push(s);
                }
            }
        }
    }
    walk(cwd, &mut dirs, &mut files);
    (dirs, files)
}

pub fn opt_arg(tag: char, o: &Option<String>) -> String {
    match o {
        None => format!("{}-", tag),
        Some(s) => format!("{}+{}", tag, hex(s.as_bytes())),
    }
}
pub fn list_arg(tag: char, elt: char, xs: &[String]) -> String {
    format!("{}{}", tag, xs.iter().map(|x| format!("{}{}", elt, hex(x.as_bytes()))).collect::<Vec<_>>().join(","))
}

/// `dir` must be canonical. `args` = the input paths in the order given on the command line.
pub fn request(dir: &Path, c: &Case, args: &[String], with_excl: bool, params: &Params) -> String {
    let root_scan = scan_fs(dir);
    let cwd = if c.cwd == "." { dir.to_path_buf() } else { dir.join(&c.cwd) };
    // ancestors of the case directory + everything below it
    let (dirs, files) = root_scan;
    let sd = if c.source_dir { Some(dir.join("src").to_str().unwrap().to_string()) } else { None };
    let mut s = format!(
        "run.all T{} U{} B{} {} {} M- {} {} E{} F{} W{} {} {} Q{} |",
        c.ty,
        if c.sorted { c.ty.clone() } else { "markdown".to_string() },
        if c.branch { 1 } else { 0 },
        opt_arg('S', &sd),
        opt_arg('P', &sd),
        list_arg('I', 'g', &c.ignore),
        list_arg('K', 'g', &c.keep),
        if c.ignore_not_existing { 1 } else { 0 },
        match c.filter { None => "n", Some(true) => "t", Some(false) => "f" },
        hex(cwd.to_str().unwrap().as_bytes()),
        list_arg('D', 'p', &dirs),
        list_arg('X', 'p', &files),
        (0..6).map(|i| if with_excl && c.excl[i] { hex(MARKERS[i].as_bytes()) } else { "-".to_string() }).collect::<Vec<_>>().join(","),
    );
    for a in args {
        let (_, jac) = c.inputs.iter().find(|i| &i.0 == a).expect("argument is an input of the case");
        let bytes = std::fs::read(cwd.join(a)).unwrap();
        s.push_str(&format!(" {}{}", if *jac { 'j' } else { 'l' }, hex(&bytes)));
    }
    // `read_to_string` succeeds exactly on the regular files that hold UTF-8
    for f in &files {
        if f.contains("/src/") {
            if let Ok(t) = std::fs::read_to_string(f) {
                s.push_str(&format!(" y{}={}", hex(f.as_bytes()), hex(t.as_bytes())));
            }
        }
    }
    for r in &params.rec_order {
        s.push_str(&format!(" h{}", hex(r.as_bytes())));
    }
    // (no order of function records is handed to the model: since fix 73c9152 the writers list the
    // functions of a file by name, and so does `RunAll.present`)
    for i in &params.items {
        s.push(' ');
        s.push_str(i);
    }
    s
}

// ---- independent decoders of the seven report formats -------------------------------------------

/// what a report says: per file, a canonical text of what the format carries
pub type Obs = BTreeMap<String, String>;

fn show_lines(m: &BTreeMap<u32, u64>) -> String {
    m.iter().map(|(l, n)| format!("{}:{}", l, n)).collect::<Vec<_>>().join(",")
}
fn show_branches(m: &BTreeMap<u32, Vec<bool>>) -> String {
    m.iter().map(|(l, v)| format!("{}:{}", l, bits(v))).collect::<Vec<_>>().join(",")
}

fn covdir_collect(v: &Value, path: &mut Vec<String>, out: &mut Obs) -> Result<(), String> {
    if let Some(cov) = v.get("coverage") {
        let mut m = BTreeMap::new();
        for (i, e) in cov.as_array().ok_or("coverage is not an array")?.iter().enumerate() {
            if e.as_i64() == Some(-1) {
                continue;
            }
            m.insert(i as u32 + 1, e.as_u64().ok_or("coverage entry is not -1 or a count")?);
        }
        if out.insert(path.join("/"), format!("L{}", show_lines(&m))).is_some() {
            return Err("file listed twice".into());
        }
    }
    if let Some(ch) = v.get("children").and_then(|c| c.as_object()) {
        for (k, c) in ch {
            path.push(k.clone());
            covdir_collect(c, path, out)?;
            path.pop();
        }
    }
    Ok(())
}

/// (observations, file names in document order)
pub fn decode(ty: &str, text: &str) -> Result<(Obs, Vec<String>), String> {
    let mut obs = Obs::new();
    let mut order = vec![];
    let put = |obs: &mut Obs, order: &mut Vec<String>, k: String, v: String| -> Result<(), String> {
        order.push(k.clone());
        if obs.insert(k.clone(), v).is_some() {
            return Err(format!("file {} listed twice", k));
        }
        Ok(())
    };
    match ty {
        "lcov" => {
            // order of the SF records, then the independent reader of corrlib
            for l in text.lines() {
                if let Some(sf) = l.strip_prefix("SF:") {
                    order.push(sf.to_string());
                }
            }
            for (k, c) in decode_lcov_report(text)? {
                obs.insert(k, show_cov(&c));
            }
        }
        "files" => {
            for l in text.lines() {
                put(&mut obs, &mut order, l.to_string(), String::new())?;
            }
        }
        "covdir" => {
            let v: Value = serde_json::from_str(text).map_err(|e| format!("not JSON: {}", e))?;
            covdir_collect(&v, &mut vec![], &mut obs)?;
        }
        "coveralls" | "coveralls+" => {
            let v: Value = serde_json::from_str(text).map_err(|e| format!("not JSON: {}", e))?;
            for f in v["source_files"].as_array().ok_or("no source_files")? {
                let name = f["name"].as_str().ok_or("no name")?.to_string();
                let mut lines = BTreeMap::new();
                for (i, e) in f["coverage"].as_array().ok_or("no coverage")?.iter().enumerate() {
                    if !e.is_null() {
                        lines.insert(i as u32 + 1, e.as_u64().ok_or("coverage entry")?);
                    }
                }
                let mut br: BTreeMap<u32, Vec<bool>> = BTreeMap::new();
                let b: Vec<u64> = f["branches"].as_array().ok_or("no branches")?.iter().map(|x| x.as_u64().unwrap_or(99)).collect();
                if b.len() % 4 != 0 {
                    return Err("branches is not a list of quadruples".into());
                }
                for q in b.chunks(4) {
                    let v = br.entry(q[0] as u32).or_default();
                    if q[2] as usize != v.len() || q[3] > 1 {
                        return Err("branch numbers are not consecutive".into());
                    }
                    v.push(q[3] == 1);
                }
                let mut s = format!("L{};B{}", show_lines(&lines), show_branches(&br));
                if ty == "coveralls+" {
                    let mut fs: Vec<String> = f["functions"].as_array().ok_or("no functions")?.iter()
                        .map(|g| format!("{}:{}:{}", hex(g["name"].as_str().unwrap_or("").as_bytes()), g["start"], if g["exec"] == json!(true) { 1 } else { 0 })).collect();
                    fs.sort();
                    s.push_str(&format!(";F{}", fs.join(",")));
                }
                put(&mut obs, &mut order, name, s)?;
            }
        }
        "ade" => {
            let mut fns: BTreeMap<String, Vec<String>> = BTreeMap::new();
            for l in text.lines() {
                let v: Value = serde_json::from_str(l).map_err(|e| format!("not JSON: {}", e))?;
                let name = v["file"]["name"].as_str().ok_or("no file name")?.to_string();
                if v.get("is_file").is_some() {
                    let mut m = BTreeMap::new();
                    for x in v["file"]["covered"].as_array().ok_or("no covered")? {
                        m.insert(x.as_u64().unwrap_or(0) as u32, 1u64);
                    }
                    for x in v["file"]["uncovered"].as_array().ok_or("no uncovered")? {
                        if m.insert(x.as_u64().unwrap_or(0) as u32, 0u64).is_some() {
                            return Err("a line is both covered and uncovered".into());
                        }
                    }
                    let mut fs = fns.remove(&name).unwrap_or_default();
                    fs.sort();
                    put(&mut obs, &mut order, name, format!("L{};F{}", show_lines(&m), fs.join(",")))?;
                } else {
                    fns.entry(name).or_default().push(hex(v["method"]["name"].as_str().unwrap_or("").as_bytes()));
                }
            }
        }
        "cobertura" => {
            let mut cur: Option<String> = None;
            let mut lines: BTreeMap<u32, u64> = BTreeMap::new();
            let mut br: BTreeMap<u32, Vec<bool>> = BTreeMap::new();
            let mut fns: Vec<String> = vec![];
            let mut in_method = false;
            let mut cur_line = 0u32;
            let mut done: Vec<(String, String)> = vec![];
            let flush = |cur: &mut Option<String>, lines: &mut BTreeMap<u32, u64>, br: &mut BTreeMap<u32, Vec<bool>>, fns: &mut Vec<String>, done: &mut Vec<(String, String)>| {
                if let Some(k) = cur.take() {
                    fns.sort();
                    done.push((k, format!("L{};B{};F{}", show_lines(lines), show_branches(br), fns.join(","))));
                }
                lines.clear();
                br.clear();
                fns.clear();
            };
            // method lines repeat class lines; the class-level `lines` element comes after `methods`
            let mut depth_methods: Option<usize> = None;
            walk_cobertura(text, |path, tag, attrs| {
                let get = |k: &str| attrs.iter().find(|a| a.0 == k).map(|a| a.1.clone());
                if let Some(d) = depth_methods {
                    if path.len() <= d {
                        depth_methods = None;
                        in_method = false;
                    }
                }
                match tag {
                    "package" => {
                        flush(&mut cur, &mut lines, &mut br, &mut fns, &mut done);
                        cur = get("name");
                    }
                    "methods" => {
                        depth_methods = Some(path.len());
                        in_method = true;
                    }
                    "method" => fns.push(hex(get("name").unwrap_or_default().as_bytes())),
                    "line" if !in_method => {
                        cur_line = get("number").and_then(|n| n.parse().ok()).unwrap_or(0);
                        lines.insert(cur_line, get("hits").and_then(|n| n.parse().ok()).unwrap_or(0));
                    }
                    "condition" if !in_method => {
                        br.entry(cur_line).or_default().push(get("coverage").as_deref() == Some("1"));
                    }
                    _ => {}
                }
            });
            flush(&mut cur, &mut lines, &mut br, &mut fns, &mut done);
            for (k, v) in done {
                put(&mut obs, &mut order, k, v)?;
            }
        }
        _ => return Err("unknown type".into()),
    }
    Ok((obs, order))
}

/// what a report of that type carries of a record
pub fn project(ty: &str, c: &CovResult) -> String {
    let fn_names = || {
        let mut fs: Vec<String> = c.functions.keys().map(|n| hex(n.as_bytes())).collect();
        fs.sort();
        fs.join(",")
    };
    match ty {
        "lcov" => {
            // the tracefile format has no record for a line without branches
            let mut c = c.clone();
            c.branches.retain(|_, v| !v.is_empty());
            show_cov(&c)
        }
        "files" => String::new(),
        "covdir" => format!("L{}", show_lines(&c.lines)),
        "coveralls" => format!("L{};B{}", show_lines(&c.lines), show_branches(&c.branches.iter().filter(|(_, v)| !v.is_empty()).map(|(l, v)| (*l, v.clone())).collect())),
        "coveralls+" => {
            let base = show_cov(c);
            let f = &base[base.rfind(";F").unwrap()..];
            let mut fs: Vec<&str> = f[2..].split(',').filter(|x| !x.is_empty()).collect();
            fs.sort();
            format!("L{};B{};F{}", show_lines(&c.lines), show_branches(&c.branches.iter().filter(|(_, v)| !v.is_empty()).map(|(l, v)| (*l, v.clone())).collect()), fs.join(","))
        }
        "ade" => {
            let m: BTreeMap<u32, u64> = c.lines.iter().map(|(l, n)| (*l, if *n > 0 { 1 } else { 0 })).collect();
            format!("L{};F{}", show_lines(&m), fn_names())
        }
        "cobertura" => {
            // branch data is written inside the line element: only for lines that have a line entry
            // (known finding C03-cobertura-branch-without-line), and only when there is a branch
            let br: BTreeMap<u32, Vec<bool>> = c.branches.iter().filter(|(l, v)| c.lines.contains_key(l) && !v.is_empty()).map(|(l, v)| (*l, v.clone())).collect();
            format!("L{};B{};F{}", show_lines(&c.lines), show_branches(&br), fn_names())
        }
        _ => String::new(),
    }
}

// ---- the independent expectation ----------------------------------------------------------------

/// the marker rule of C16, written from the property text: (lines removed, branches removed)
pub fn marker_rule(text: &str, excl: &[bool; 6]) -> (BTreeSet<u32>, BTreeSet<u32>) {
    let body = text.strip_suffix('\n').unwrap_or(text);
    let lines: Vec<&str> = if text.is_empty() { vec![] } else { body.split('\n').map(|l| l.strip_suffix('\r').unwrap_or(l)).collect() };
    let hit = |i: usize, l: &str| excl[i] && l.contains(MARKERS[i]);
    let dim = |mk: usize, st: usize, sp: usize| -> BTreeSet<u32> {
        let mut out = BTreeSet::new();
        for n in 1..=lines.len() {
            let marker = hit(mk, lines[n - 1]);
            // a start line s <= n such that no line in (s, n] matches the stop marker
            let region = (1..=n).any(|s| hit(st, lines[s - 1]) && !((s + 1)..=n).any(|t| hit(sp, lines[t - 1])));
            if marker || region {
                out.insert(n as u32);
            }
        }
        out
    };
    (dim(0, 1, 2), dim(3, 4, 5))
}

pub struct Parsed {
    /// per input: the records the real parser returns in-process (`None`: it rejects the input)
    pub per_input: Vec<Option<Vec<(String, CovResult)>>>,
}

pub fn parse_inputs(dir: &Path, c: &Case) -> Parsed {
    let cwd = if c.cwd == "." { dir.to_path_buf() } else { dir.join(&c.cwd) };
    let per_input = c.inputs.iter().map(|(p, jac)| {
        let bytes = std::fs::read(cwd.join(p)).unwrap();
        if *jac {
            grcov::parse_jacoco_xml_report(std::io::BufReader::new(std::io::Cursor::new(bytes))).ok()
        } else {
            grcov::parse_lcov(bytes, c.branch).ok()
        }
    }).collect();
    Parsed { per_input }
}

/// the C01 aggregate of what each accepted input contains, then the marker rule on the file's text
pub fn expected(dir: &Path, c: &Case, parsed: &Parsed, with_excl: bool) -> BTreeMap<String, CovResult> {
    let ins: Vec<Input> = parsed.per_input.iter().flatten().map(|p| Input { name: String::new(), format: "Info", bytes: vec![], id: String::new(), parsed: p.clone() }).collect();
    let refs: Vec<&Input> = ins.iter().collect();
    let mut agg = aggregate(&refs);
    if with_excl && c.cwd != "." || with_excl && c.source_dir {
        for (k, cov) in agg.iter_mut() {
            if let Ok(text) = std::fs::read_to_string(dir.join("src").join(k)) {
                let (ls, bs) = marker_rule(&text, &c.excl);
                cov.lines.retain(|l, _| !ls.contains(l));
                cov.branches.retain(|l, _| !bs.contains(l));
            }
        }
    }
    agg
}

fn obs_of_expected(ty: &str, m: &BTreeMap<String, CovResult>) -> Obs {
    m.iter().map(|(k, c)| (k.clone(), project(ty, c))).collect()
}

// ---- file records as opaque byte strings (the byte-level oracle of two runs) ---------------------

/// what legitimately differs between two runs on the same inputs is masked: the cobertura
/// `timestamp` attribute and the coveralls `source_digest` of a source file that cannot be read (a
/// fresh random UUID per run; the digest of a readable file is its MD5 and stays)
pub fn mask_timestamp(text: &str) -> String {
    let mut out = String::new();
    let mut rest = text;
    while let Some(i) = rest.find("timestamp=\"") {
        out.push_str(&rest[..i]);
        out.push_str("timestamp=\"T\"");
        let after = &rest[i + 11..];
        let e = after.find('"').map(|e| e + 1).unwrap_or(after.len());
        rest = &after[e..];
    }
    out.push_str(rest);
    let pat = "\"source_digest\":\"";
    let text = out;
    let mut out = String::new();
    let mut rest = text.as_str();
    while let Some(i) = rest.find(pat) {
        out.push_str(&rest[..i + pat.len()]);
        let after = &rest[i + pat.len()..];
        let e = after.find('"').unwrap_or(after.len());
        let val = &after[..e];
        out.push_str(if val.len() == 36 && val.matches('-').count() == 4 { "UUID" } else { val });
        rest = &after[e..];
    }
    out.push_str(rest);
    out
}

/// the report with its FILE records (as opaque byte strings) in sorted order; nothing inside a
/// file record is touched
pub fn canon(ty: &str, text: &str) -> Result<String, String> {
    match ty {
        "lcov" => {
            let mut head = String::new();
            let mut recs: Vec<String> = vec![];
            let mut cur: Option<String> = None;
            for l in text.split_inclusive('\n') {
                if l.starts_with("SF:") {
                    if cur.is_some() {
                        return Err("SF inside a record".into());
                    }
                    cur = Some(l.to_string());
                } else if let Some(c) = cur.as_mut() {
                    c.push_str(l);
                    if l.trim_end() == "end_of_record" {
                        recs.push(cur.take().unwrap());
                    }
                } else {
                    head.push_str(l);
                }
            }
            if cur.is_some() {
                return Err("unterminated record".into());
            }
            recs.sort();
            Ok(head + &recs.concat())
        }
        "files" => {
            let mut ls: Vec<&str> = text.split_inclusive('\n').collect();
            ls.sort();
            Ok(ls.concat())
        }
        "ade" => {
            let mut groups: Vec<String> = vec![];
            let mut cur = String::new();
            for l in text.split_inclusive('\n') {
                cur.push_str(l);
                let v: Value = serde_json::from_str(l).map_err(|e| format!("not JSON: {}", e))?;
                if v.get("is_file").is_some() {
                    groups.push(std::mem::take(&mut cur));
                }
            }
            if !cur.is_empty() {
                return Err("function records without their file record".into());
            }
            groups.sort();
            Ok(groups.concat())
        }
        "coveralls" | "coveralls+" => {
            let mut v: Value = serde_json::from_str(&mask_timestamp(text)).map_err(|e| format!("not JSON: {}", e))?;
            let files = v["source_files"].as_array_mut().ok_or("no source_files")?;
            let mut ser: Vec<(String, Value)> = files.drain(..).map(|f| (serde_json::to_string(&f).unwrap(), f)).collect();
            ser.sort_by(|a, b| a.0.cmp(&b.0));
            *files = ser.into_iter().map(|e| e.1).collect();
            Ok(serde_json::to_string(&v).unwrap())
        }
        "covdir" => Ok(text.to_string()),
        "cobertura" => {
            let t = mask_timestamp(text);
            let Some(first) = t.find("<package ") else { return Ok(t) };
            let end = t.find("</packages>").ok_or("no </packages>")?;
            let head = &t[..first];
            let tail = &t[end..];
            let mut chunks: Vec<&str> = vec![];
            let mut rest = &t[first..end];
            while !rest.is_empty() {
                let next = rest[1..].find("<package ").map(|i| i + 1).unwrap_or(rest.len());
                chunks.push(&rest[..next]);
                rest = &rest[next..];
            }
            chunks.sort();
            Ok(format!("{}{}{}", head, chunks.concat(), tail))
        }
        _ => Err("unknown type".into()),
    }
}

// ---- one case, evaluated ------------------------------------------------------------------------

pub struct Pending {
    pub req: String,
    pub real: Vec<u8>,
    pub exit: Option<i32>,
    pub case: Value,
    pub what: String,
}

/// runs the binary (with the markers), evaluates the oracles, returns the tie request
pub fn eval_case(rep: &mut Report, dir: &Path, c: &Case, op: &str, c16: bool) -> Option<Pending> {
    materialise(dir, c);
    let case = c.to_json(op);
    let args: Vec<String> = c.inputs.iter().map(|i| i.0.clone()).collect();
    let out = run_real(dir, c, &args, c.threads, true);
    rep.count(&format!("runall.type.{}", c.ty));
    rep.count(if c.sorted { "runall.sorted" } else { "runall.unsorted" });
    rep.count(&format!("runall.threads={}", c.threads));
    rep.count(if c.has_excl() { "runall.markers.effective" } else { "runall.markers.none_or_inert" });
    rep.count(&format!("runall.layout.{}{}", c.cwd, if c.source_dir { "+s" } else { "" }));
    if c.inputs.iter().any(|i| i.1) {
        rep.count("runall.inputs.with_jacoco");
    }
    if out.exit.is_none() {
        rep.fail("oracle", None, "grcov did not terminate within 60 s".into(), case);
        return None;
    }
    let parsed = parse_inputs(dir, c);
    let n_rej = parsed.per_input.iter().filter(|p| p.is_none()).count();
    if n_rej > 0 {
        rep.count("runall.inputs.with_rejected");
    }
    if parsed.per_input.iter().all(|p| p.is_none()) {
        // nothing usable: the run ends in the producer or with an empty report; tie only
        rep.count("runall.all_rejected");
    }
    if out.exit != Some(0) {
        rep.count("runall.exit_nonzero");
    }
    // ---- oracles on the real report
    if out.exit == Some(0) {
        match decode(&c.ty, &out.stdout) {
            Err(e) => rep.fail("oracle", None, format!("the {} report cannot be decoded: {}", c.ty, e), case.clone()),
            Ok((obs, order)) => {
                if c.plain_selection() {
                    rep.count("runall.oracle.aggregate");
                    let want = obs_of_expected(&c.ty, &expected(dir, c, &parsed, true));
                    if obs != want {
                        let what = if c16 || c.has_excl() {
                            "the decoded report is not the aggregate of the inputs with exactly the marked lines / branches removed"
                        } else {
                            "the decoded report is not the aggregate of what each input contains (an input dropped, counted twice, or a rejected input leaked)"
                        };
                        rep.fail("oracle", None, format!("{} [{}]", what, c.ty), json!({"case": case, "report": obs, "expected": want}));
                    }
                }
                if c.sorted && c.ty != "covdir" {
                    // main sorts by the displayed ABSOLUTE path: the canonical path of a file that is
                    // found, the path below the source directory otherwise, the key itself without one
                    let abs_of = |rel: &String| -> String {
                        let p = dir.join("src").join(rel);
                        if c.source_dir || (c.cwd == "src" && p.exists()) { p.to_str().unwrap().to_string() } else { rel.clone() }
                    };
                    let mut s = order.clone();
                    s.sort_by_key(|r| abs_of(r));
                    if s != order {
                        rep.fail("oracle", None, format!("--sort-output-types {}: the file records are not in path order", c.ty), json!({"case": case, "order": order}));
                    }
                }
                // a second run: other argument order, other thread count
                let mut args2 = args.clone();
                let mut r2 = Rng::new(fnv64(c.canonical().as_bytes()));
                r2.shuffle(&mut args2);
                args2.reverse();
                let t2 = 1 + (c.threads % 4);
                let out2 = run_real_p(dir, c, &args2, t2, true, Some(fnv64(c.canonical().as_bytes()) % 100000));
                rep.count("runall.oracle.second_run");
                match decode(&c.ty, &out2.stdout) {
                    Ok((obs2, order2)) if out2.exit == Some(0) => {
                        // bytes: identical up to the order of the file records (identical, when sorted)
                        let same_bytes = match (canon(&c.ty, &out.stdout), canon(&c.ty, &out2.stdout)) {
                            (Ok(a), Ok(b)) => a == b,
                            _ => true, // the decoders above report an undecodable report
                        };
                        let same_sorted = !c.sorted || mask_timestamp(&out.stdout) == mask_timestamp(&out2.stdout);
                        if obs2 == obs && (!same_bytes || !same_sorted) {
                            rep.fail("oracle", None, format!("two runs on the same inputs (argument order {:?} / {:?}, --threads {} / {}) write {} reports whose bytes differ in more than the order of the file records", args, args2, c.threads, t2, c.ty),
                                json!({"case": case, "sorted": c.sorted}));
                        }
                        if obs2 != obs {
                            rep.fail("oracle", None, format!("two runs on the same inputs (argument order {:?} / {:?}, --threads {} / {}) decode to different {} reports", args, args2, c.threads, t2, c.ty), json!({"case": case, "first": obs, "second": obs2}));
                        } else if c.sorted && order2 != order {
                            rep.fail("oracle", None, format!("sorted {} reports of two runs list the files in different orders", c.ty), json!({"case": case, "first": order, "second": order2}));
                        }
                    }
                    _ => rep.fail("oracle", None, "the second run (other argument order and thread count) failed although the first succeeded".into(), case.clone()),
                }
                // C16: against the run without markers
                if c16 || c.has_excl() {
                    let out0 = run_real(dir, c, &args, c.threads, false);
                    rep.count("runall.oracle.marker_free_run");
                    if let (Some(0), Ok((obs0, _))) = (out0.exit, decode(&c.ty, &out0.stdout)) {
                        if !c.has_excl() && out0.stdout != out.stdout && !c.ty.starts_with("cober") && !c.ty.starts_with("coveralls") {
                            // stop markers alone exclude nothing (timestamp / uuid digests aside)
                            let (p0, p1) = (read_params(&c.ty, &out0.stdout), read_params(&c.ty, &out.stdout));
                            if p0.rec_order == p1.rec_order && p0.fn_order == p1.fn_order {
                                rep.fail("oracle", None, "stop-marker options alone changed the report".into(), case.clone());
                            }
                        }
                        if c.plain_selection() {
                            let want0 = obs_of_expected(&c.ty, &expected(dir, c, &parsed, false));
                            if obs0 != want0 {
                                rep.fail("oracle", None, format!("the marker-free run does not report the plain aggregate [{}]", c.ty), json!({"case": case, "report": obs0, "expected": want0}));
                            }
                        }
                        // whatever the selection options: files that are in both reports differ only by the rule
                        let _ = obs0;
                    }
                }
            }
        }
    }
    // ---- the tie
    let params = read_params(&c.ty, &out.stdout);
    let req = request(dir, c, &args, true, &params);
    Some(Pending { req, real: out.stdout.clone().into_bytes(), exit: out.exit, case, what: format!("{} {}", c.ty, if c.sorted { "sorted" } else { "unsorted" }) })
}

pub fn compare(rep: &mut Report, pend: &[Pending], tag: &str) {
    let reqs: Vec<String> = pend.iter().map(|p| p.req.clone()).collect();
    let ans = run_model(&reqs, &rep.workdir, tag);
    for (p, a) in pend.iter().zip(ans.iter()) {
        let a = a.trim_end();
        let ok = match p.exit {
            Some(0) => a == format!("ok {}", hex(&p.real)).trim_end(),
            // exit 101: a panic of the main thread (rewrite_paths or a writer); exit 1: a dead worker
            // or a producer that found no usable input – the model has no producer: no report either way
            Some(_) => a == "panic" || p.real.is_empty(),
            None => true,
        };
        if ok {
            rep.count("runall.tie.agree");
        } else {
            rep.disagreements_checked += 1;
            let model_text = a.strip_prefix("ok ").map(|h| String::from_utf8_lossy(&unhex(h)).chars().take(1500).collect::<String>()).unwrap_or_else(|| a.chars().take(60).collect());
            rep.fail("disagreement", None,
                format!("the {} report of the real run differs from `RunAll.run` on the same inputs, tree and options (byte comparison; exit {:?})", p.what, p.exit),
                json!({"case": p.case, "request_len": p.req.len(), "real": String::from_utf8_lossy(&p.real).chars().take(1500).collect::<String>(), "model": model_text}));
        }
    }
}

fn stream(rep: &mut Report, tag: u64, n: u64, force_markers: bool, op: &str, c16: bool) {
    let mut rng = Rng::new(rep.seed ^ tag);
    let root = std::fs::canonicalize(&rep.workdir).unwrap().join(if c16 { "runall16" } else { "runall" });
    let _ = std::fs::remove_dir_all(&root);
    std::fs::create_dir_all(&root).unwrap();
    let t0 = std::time::Instant::now();
    let mut pend = vec![];
    for i in 0..n {
        if rep.verdict_clear() {
            break;
        }
        let ty = TYPES[(i as usize) % TYPES.len()];
        let c = gen_case(&mut rng, force_markers, ty);
        let dir = root.join(format!("case{}", i));
        rep.case(&c.canonical(), c.inputs.len() >= 2 && (c.has_excl() || !c16));
        if let Some(p) = eval_case(rep, &dir, &c, op, c16) {
            if pend.is_empty() {
                rep.sample(json!({"type": c.ty, "sorted": c.sorted, "threads": c.threads, "excl": c.excl.to_vec(), "request_bytes": p.req.len(), "report_bytes": p.real.len()}));
            }
            pend.push(p);
        }
        let _ = std::fs::remove_dir_all(&dir);
    }
    compare(rep, &pend, if c16 { "runall16" } else { "runall" });
    rep.notes.push(format!("{} stream: {} runs tied byte for byte with RunAll.run, {} ms", op, pend.len(), t0.elapsed().as_millis()));
}

/// C02: every type, sorted and unsorted, mixed lcov + JaCoCo inputs, shuffled arguments, 1-4 threads
pub fn run(rep: &mut Report) {
    rep.rule.push_str("; runall stream: whole runs of the real binary (mixed lcov + JaCoCo inputs, one of seven report types, sorted or not, path / filter / --excl-* options on a generated source tree, shuffled arguments, --threads 1..4): stdout == RunAll.run byte for byte; decoded report == independent aggregate; second run with another order / thread count decodes equally");
    let n = rep.budget(42, 12);
    stream(rep, 0xC02A11, n, false, "runall.c02", false);
}

/// C16: markers always configured
pub fn run_c16(rep: &mut Report) {
    rep.rule.push_str("; runall stream: whole runs of the real binary with --excl-* options on generated source trees, every report type: stdout == RunAll.run byte for byte; against the marker-free run a line / branch is absent iff the independent marker rule says so");
    let n = rep.budget(35, 12);
    stream(rep, 0xC16A11, n, true, "runall.c16", true);
}

pub fn replay(rep: &mut Report, case: &Value) -> bool {
    let c0 = if case.get("case").is_some() { &case["case"] } else { case };
    let op = c0["op"].as_str().unwrap_or("");
    if !op.starts_with("runall.") {
        return false;
    }
    let Some(c) = Case::from_json(c0) else {
        rep.notes.push("runall replay: the case cannot be read".into());
        return true;
    };
    let root = std::fs::canonicalize(&rep.workdir).unwrap().join("runall_replay");
    let c16 = op == "runall.c16";
    rep.case(&c.canonical(), true);
    if let Some(p) = eval_case(rep, &root, &c, op, c16) {
        compare(rep, &[p], "runall_replay");
    }
    true
}
