//! C02, stream `qfull` — the unit of error handling is the ARTIFACT, also when the work queue is full.
//!
//! Many medium-sized tracefiles and few workers: the producer reads much faster than the consumers
//! parse, so from the third item on it finds the bounded queue (capacity 2N) full. Among the
//! tracefiles: ordinary ones, TRUNCATED ones (complete records followed by an unterminated tail
//! `SF:… DA:…` without `end_of_record` – a writer killed mid-write; `parse_lcov` returns the complete
//! records and the tail says nothing) and ones with an INVALID record (`DA:x,1`: the parser rejects
//! the whole tracefile, `try_parse!` logs and skips it). All of them overlap in `src/shared.c`.
//!
//! Oracles (independent of the model): exit 0; the decoded report is the aggregate of what each
//! artifact contains when parsed ALONE (in-process, by the real parser, itself tied by C04) – the
//! tail of a truncated tracefile is attributed to nobody, a rejected tracefile takes nothing with it;
//! exactly the rejected artifacts are logged as errors; one lock/unlock/merged triple per accepted
//! artifact; the event log is a run of the `Pipeline` model with one item per artifact. A producer
//! that hands over several artifacts as one work item while the queue is full (seeded change C02-4)
//! fails the REPORT oracle here, not only the event count.
use corrlib::pipe::*;
use corrlib::*;
use grcov::CovResult;
use serde_json::{json, Value};
use std::time::Duration;

struct Art {
    name: String,
    bytes: Vec<u8>,
    kind: &'static str,
    parsed: Option<Vec<(String, CovResult)>>,
}

fn gen_art(rng: &mut Rng, i: usize, kind: &'static str, lines: u64) -> Art {
    let mut s = format!("TN:q{}\n", i);
    let own = format!("src/q{}.c", i);
    // a large record first: parsing it keeps the worker busy
    s.push_str(&format!("SF:{}\nFN:1,f{}\nFNDA:{},f{}\n", own, i, rng.below(3), i));
    for l in 1..=lines {
        s.push_str(&format!("DA:{},{}\n", l, (l + i as u64) % 5));
    }
    s.push_str("end_of_record\n");
    s.push_str(&format!("SF:src/shared.c\nDA:{},{}\nDA:7,1\nBRDA:7,0,0,{}\nBRDA:7,0,1,-\nend_of_record\n", 1 + i % 5, rng.range(1, 9), rng.below(2)));
    match kind {
        "truncated" => {
            // an unterminated tail: its lines belong to no complete record
            let tail_file = if rng.chance(1, 2) { format!("src/tail{}.c", i) } else { "src/shared.c".to_string() };
            s.push_str(&format!("SF:{}\nFN:3,t{}\nFNDA:1,t{}\nDA:5,{}\nDA:6,2\nBRDA:5,0,0,1", tail_file, i, i, 7 + i));
            if rng.chance(2, 3) {
                s.push('\n');
            }
        }
        "invalid" => {
            let at = s.find("end_of_record").unwrap();
            s.insert_str(at, "DA:x,1\n");
        }
        _ => {}
    }
    let bytes = s.into_bytes();
    let parsed = grcov::parse_lcov(bytes.clone(), true).ok();
    Art { name: format!("q{}.info", i), bytes, kind, parsed }
}

struct Case {
    arts: Vec<Art>,
    threads: usize,
    as_dir: bool,
    perturb: Option<u64>,
    args: Vec<String>,
}

fn case_json(c: &Case) -> Value {
    json!({"op": "qfull", "threads": c.threads, "as_dir": c.as_dir, "perturb": c.perturb, "args": c.args,
        "kinds": c.arts.iter().map(|a| a.kind).collect::<Vec<_>>(),
        "inputs": c.arts.iter().map(|a| json!([a.name, hex(&a.bytes)])).collect::<Vec<_>>()})
}

fn eval(rep: &mut Report, dir: &std::path::Path, c: &Case, reqs: &mut Vec<String>, ctx: &mut Vec<Value>) {
    let _ = std::fs::remove_dir_all(dir);
    let data = if c.as_dir { dir.join("data") } else { dir.to_path_buf() };
    std::fs::create_dir_all(&data).unwrap();
    for a in &c.arts {
        std::fs::write(data.join(&a.name), &a.bytes).unwrap();
    }
    let out = run_grcov(&RunCfg { dir, args: c.args.clone(), threads: c.threads, perturb: c.perturb, fault: None,
        limit: Duration::from_secs(60), extra: vec!["-t".into(), "lcov".into(), "--branch".into(), "--no-demangle".into()] });
    let case = case_json(c);
    let backlog = max_backlog(&out);
    rep.count(if backlog >= 2 * c.threads { "qfull.queue_was_full" } else { "qfull.queue_never_full" });
    if out.exit != Some(0) {
        rep.fail("oracle", None, format!("grcov exited with {:?} on tracefiles of which some are truncated or rejected (no worker died)", out.exit), case);
        return;
    }
    let accepted: Vec<Input> = c.arts.iter().filter_map(|a| a.parsed.as_ref().map(|p| Input {
        name: a.name.clone(), format: "Info", bytes: vec![], id: String::new(), parsed: p.clone() })).collect();
    let refs: Vec<&Input> = accepted.iter().collect();
    let want = show_map(&aggregate(&refs));
    match decode_lcov_report(&out.stdout) {
        Ok(m) => {
            let got = show_map(&m);
            if got != want {
                rep.fail("oracle", None,
                    "the report is not the aggregate of what each artifact contains when parsed alone (the tail of a truncated tracefile was attributed to another artifact, or a rejected tracefile took others with it)".into(),
                    json!({"case": case, "report": got, "aggregate": want, "max_backlog": backlog}));
                return;
            }
        }
        Err(e) => {
            rep.fail("oracle", None, format!("report is not a valid lcov file: {}", e), case);
            return;
        }
    }
    let n_rej = c.arts.iter().filter(|a| a.parsed.is_none()).count();
    let logged = out.stderr.matches("Error parsing file").count();
    if logged != n_rej {
        rep.fail("oracle", None, format!("{} artifacts are rejected by the parser but {} parse errors were logged", n_rej, logged), case.clone());
    }
    let cnt = |k: &str| out.log.iter().filter(|e| e.1 == k).count();
    let n_ok = c.arts.len() - n_rej;
    if cnt("lock") != n_ok || cnt("unlock") != n_ok || cnt("merged") != n_ok || cnt("send") != c.arts.len() {
        rep.fail("oracle", None, format!("{} artifacts ({} accepted): {} send, {} lock, {} unlock, {} merged events: every discovered artifact is one work item",
            c.arts.len(), n_ok, cnt("send"), cnt("lock"), cnt("unlock"), cnt("merged")), case.clone());
    }
    match log_to_request(&out, c.threads, false, c.arts.len(), &[]) {
        Ok(req) => {
            reqs.push(req);
            ctx.push(json!({"case": case, "n_ok": n_ok}));
        }
        Err(e) => rep.fail("oracle", None, format!("event log is inconsistent: {}", e), case),
    }
}

pub fn run(rep: &mut Report) {
    rep.rule.push_str("; qfull stream: 10-18 medium-sized tracefiles (ordinary / truncated after a complete record / with one invalid record, all overlapping in one source file), --threads 1 or 2 so that the producer finds the queue full: report == aggregate of what each artifact contains when parsed alone, rejected artifacts logged one by one, one work item per artifact");
    let mut rng = Rng::new(rep.seed ^ 0xC02_0F11);
    let n = rep.budget(8, 8);
    let root = rep.workdir.join("qfull");
    let mut reqs = vec![];
    let mut ctx = vec![];
    for i in 0..n {
        if rep.verdict_clear() {
            break;
        }
        let threads = if i % 3 == 2 { 2 } else { 1 };
        let k = rng.range(10, 14) as usize + 4 * (threads - 1);
        let lines = rng.range(1500, 3000);
        let mut arts = vec![];
        for j in 0..k {
            let kind = match rng.below(20) {
                0..=6 => "truncated",
                7..=9 => "invalid",
                _ => "ordinary",
            };
            arts.push(gen_art(&mut rng, j, kind, lines));
        }
        // at least two truncated ones and one invalid one
        if arts.iter().filter(|a| a.kind == "truncated").count() < 2 {
            arts[1] = gen_art(&mut rng, 1, "truncated", lines);
            arts[k - 2] = gen_art(&mut rng, k - 2, "truncated", lines);
        }
        if !arts.iter().any(|a| a.kind == "invalid") {
            arts[k / 2] = gen_art(&mut rng, k / 2, "invalid", lines);
        }
        let as_dir = rng.chance(1, 3);
        let mut args: Vec<String> = if as_dir { vec!["data".into()] } else { arts.iter().map(|a| a.name.clone()).collect() };
        rng.shuffle(&mut args);
        let c = Case { arts, threads, as_dir, perturb: if i % 2 == 0 { None } else { Some(rng.next() % 100000) }, args };
        rep.case(&format!("qfull {} {} {:?} {:?} {:?}", threads, as_dir, c.perturb, c.args, c.arts.iter().map(|a| fnv64(&a.bytes)).collect::<Vec<_>>()), true);
        rep.count(&format!("qfull.threads={}", threads));
        for a in &c.arts {
            rep.count(&format!("qfull.artifact.{}{}", a.kind, if a.parsed.is_none() { ".rejected" } else { "" }));
        }
        eval(rep, &root, &c, &mut reqs, &mut ctx);
    }
    let answers = run_model(&reqs, &rep.workdir, "qfull");
    for (i, a) in answers.iter().enumerate() {
        if !a.starts_with("accepted exit=0 ") {
            rep.disagreements_checked += 1;
            rep.fail("disagreement", None, format!("the event log of a run with a full queue and rejected tracefiles is not a run of the Pipeline model with one item per artifact ({})", a),
                json!({"context": ctx[i], "request": reqs[i], "model": a}));
        }
    }
    rep.count_n("traces_validated", reqs.len() as u64);
    let _ = std::fs::remove_dir_all(&root);
}

pub fn replay(rep: &mut Report, case: &Value) -> bool {
    let c0 = if case.get("case").is_some() { &case["case"] } else { case };
    let c0 = if c0.get("context").is_some() { &c0["context"]["case"] } else { c0 };
    if c0["op"].as_str() != Some("qfull") {
        return false;
    }
    let arts: Vec<Art> = c0["inputs"].as_array().unwrap().iter().map(|e| {
        let bytes = unhex(e[1].as_str().unwrap());
        Art { name: e[0].as_str().unwrap().to_string(), parsed: grcov::parse_lcov(bytes.clone(), true).ok(), bytes, kind: "replayed" }
    }).collect();
    let c = Case { arts, threads: c0["threads"].as_u64().unwrap() as usize, as_dir: c0["as_dir"].as_bool().unwrap_or(false),
        perturb: c0["perturb"].as_u64(), args: c0["args"].as_array().unwrap().iter().map(|a| a.as_str().unwrap().to_string()).collect() };
    let root = rep.workdir.join("qfull_replay");
    let (mut reqs, mut ctx) = (vec![], vec![]);
    for _ in 0..5 {
        rep.case("qfull replay", true);
        eval(rep, &root, &c, &mut reqs, &mut ctx);
    }
    true
}
