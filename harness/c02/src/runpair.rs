//! C02, stream `runpair` — "two runs on the same inputs differ only in the order of file records
//! within unsorted report types", observed on the BYTES of the real binary (review item 15).
//!
//! A case: 3-5 tracefiles that describe ONE or TWO source files with 10-60 functions each (every
//! tracefile knows a random subset of the functions, start lines agree), one of the seven report
//! types, with or without `--sort-output-types <type>`. The binary is run three times with different
//! `--threads`, argument orders and `GRCOV_VERIF_PERTURB` seeds, i.e. with different merge orders –
//! the function table of a file is a hash map whose iteration order depends on the order of
//! insertion. Oracle (no model involved):
//!  * the reports of the three runs are byte-identical after sorting the FILE records only
//!    (`canon`: per format, the file records as opaque byte strings in sorted order; the cobertura
//!    timestamp masked);
//!  * for a sorted type they are byte-identical as they are.
//! Before fix 73c9152 (functions listed in hash-map order) this failed for lcov, coveralls+, ade and
//! cobertura (tools/review_probes2/merge-pipe/fn_order_schedule.py). The model side is
//! `C02_run_perm_sorted_bytes` / `C02_run_schedule_sorted_bytes`.
use crate::runall::{canon, mask_timestamp};
use corrlib::pipe::*;
use corrlib::*;
use serde_json::{json, Value};
use std::time::Duration;

const TYPES: &[&str] = &["lcov", "coveralls+", "ade", "cobertura", "lcov", "coveralls+", "covdir", "coveralls", "files"];

fn fn_name(i: u64) -> String {
    match i % 5 {
        0 => format!("f{}", i),
        1 => format!("_ZN3foo{}bar{}Ev", i % 7, i),
        2 => format!("Cls{}::method_{}", i % 4, i),
        3 => format!("<lambda_{}>", i),
        _ => format!("g{}_h", i),
    }
}

struct Case {
    inputs: Vec<(String, Vec<u8>)>,
    ty: String,
    sorted: bool,
}

fn gen_case(rng: &mut Rng, ty: &str) -> Case {
    let n_in = rng.range(3, 5) as usize;
    let files: Vec<&str> = if rng.chance(1, 2) { vec!["src/one.c"] } else { vec!["src/one.c", "lib/two.rs"] };
    let nf = rng.range(10, 60);
    let mut inputs = vec![];
    for i in 0..n_in {
        let mut s = String::new();
        for f in &files {
            if files.len() > 1 && rng.chance(1, 4) {
                continue;
            }
            s.push_str(&format!("SF:{}\n", f));
            let mut names = vec![];
            for j in 0..nf {
                if rng.chance(1, 2) {
                    names.push(j);
                }
            }
            // the order inside the tracefile varies too
            rng.shuffle(&mut names);
            for j in &names {
                s.push_str(&format!("FN:{},{}\n", 10 + 3 * j, fn_name(*j)));
            }
            for j in &names {
                s.push_str(&format!("FNDA:{},{}\n", rng.below(3), fn_name(*j)));
            }
            for l in 0..rng.range(2, 9) {
                s.push_str(&format!("DA:{},{}\n", 10 + 3 * l, rng.below(4)));
            }
            if rng.chance(1, 2) {
                s.push_str(&format!("BRDA:{},0,0,{}\nBRDA:{},0,1,-\n", 10, rng.below(2), 10));
            }
            s.push_str("end_of_record\n");
        }
        if s.is_empty() {
            s.push_str(&format!("SF:{}\nDA:1,1\nend_of_record\n", files[0]));
        }
        s.push_str(&format!("TN:u{}\n", i));
        inputs.push((format!("t{}.info", i), s.into_bytes()));
    }
    Case { inputs, ty: ty.to_string(), sorted: rng.chance(1, 2) }
}

fn extra_args(c: &Case) -> Vec<String> {
    let mut a: Vec<String> = vec!["-t".into(), c.ty.clone(), "--no-demangle".into(), "--branch".into()];
    if c.sorted {
        a.push("--sort-output-types".into());
        a.push(c.ty.clone());
    }
    if c.ty.starts_with("coveralls") {
        for (k, v) in [("--token", "tok"), ("--service-name", "svc"), ("--service-number", "1"), ("--service-job-id", "2"), ("--commit-sha", "sha"), ("--vcs-branch", "main")] {
            a.push(k.into());
            a.push(v.into());
        }
    }
    a
}

fn case_json(c: &Case, runs: &[(usize, Vec<String>, Option<u64>)]) -> Value {
    json!({"op": "runpair", "type": c.ty, "sorted": c.sorted,
        "inputs": c.inputs.iter().map(|(n, b)| json!([n, hex(b)])).collect::<Vec<_>>(),
        "runs": runs.iter().map(|r| json!({"threads": r.0, "args": r.1, "perturb": r.2})).collect::<Vec<_>>()})
}

/// runs the case; true if it held
fn eval(rep: &mut Report, dir: &std::path::Path, c: &Case, runs: &[(usize, Vec<String>, Option<u64>)]) -> bool {
    let _ = std::fs::remove_dir_all(dir);
    std::fs::create_dir_all(dir).unwrap();
    for (n, b) in &c.inputs {
        std::fs::write(dir.join(n), b).unwrap();
    }
    let mut outs: Vec<String> = vec![];
    for (threads, args, perturb) in runs {
        let out = run_grcov(&RunCfg { dir, args: args.clone(), threads: *threads, perturb: *perturb, fault: None,
            limit: Duration::from_secs(60), extra: extra_args(c) });
        if out.exit != Some(0) {
            rep.fail("oracle", None, format!("grcov exited with {:?} on well-formed tracefiles ({} output)", out.exit, c.ty), case_json(c, runs));
            return false;
        }
        outs.push(out.stdout);
    }
    let canons: Vec<Result<String, String>> = outs.iter().map(|o| canon(&c.ty, o)).collect();
    for (i, k) in canons.iter().enumerate() {
        if let Err(e) = k {
            rep.fail("oracle", None, format!("the {} report of run {} cannot be split into file records: {}", c.ty, i, e), case_json(c, runs));
            return false;
        }
    }
    for i in 1..outs.len() {
        if canons[i] != canons[0] {
            let (a, b) = (canons[0].as_ref().unwrap(), canons[i].as_ref().unwrap());
            let at = a.bytes().zip(b.bytes()).position(|(x, y)| x != y).unwrap_or(a.len().min(b.len()));
            let ctx = |s: &str| s.chars().skip(at.saturating_sub(120)).take(300).collect::<String>();
            rep.fail("oracle", None,
                format!("two runs on the same inputs (--threads {} / {}, argument order {:?} / {:?}, perturbation {:?} / {:?}) write {} reports that differ in more than the order of the file records",
                    runs[0].0, runs[i].0, runs[0].1, runs[i].1, runs[0].2, runs[i].2, c.ty),
                json!({"case": case_json(c, runs), "first": ctx(a), "second": ctx(b)}));
            return false;
        }
        if c.sorted {
            let (a, b) = (mask_timestamp(&outs[0]), mask_timestamp(&outs[i]));
            if a != b {
                rep.fail("oracle", None, format!("--sort-output-types {}: two runs on the same inputs write different bytes", c.ty), case_json(c, runs));
                return false;
            }
        }
    }
    true
}

pub fn run(rep: &mut Report) {
    rep.rule.push_str("; runpair stream: 3-5 tracefiles for one or two source files with 10-60 functions, every report type, sorted or not: three real runs with different --threads / argument order / perturbation seed are byte-identical after sorting the FILE records only (as they are, for a sorted type)");
    let mut rng = Rng::new(rep.seed ^ 0xC02_9A13);
    let n = rep.budget(18, 10);
    let root = rep.workdir.join("runpair");
    for i in 0..n {
        if rep.verdict_clear() {
            break;
        }
        let ty = TYPES[(i as usize) % TYPES.len()];
        let c = gen_case(&mut rng, ty);
        let names: Vec<String> = c.inputs.iter().map(|x| x.0.clone()).collect();
        let mut runs = vec![];
        let mut last = names.clone();
        for r in 0..3 {
            let mut a = last.clone();
            for _ in 0..8 {
                rng.shuffle(&mut a);
                if a != last {
                    break;
                }
            }
            last = a.clone();
            let threads = [3usize, 1, 2, 4][(r + (i as usize)) % 4];
            runs.push((threads, a, if r == 0 { None } else { Some(rng.next() % 100000) }));
        }
        rep.case(&format!("runpair {} {} {:?}", c.ty, c.sorted, c.inputs.iter().map(|x| fnv64(&x.1)).collect::<Vec<_>>()), true);
        rep.count(&format!("runpair.type.{}", c.ty));
        rep.count(if c.sorted { "runpair.sorted" } else { "runpair.unsorted" });
        rep.count_n("runpair.real_runs", 3);
        if eval(rep, &root, &c, &runs) {
            rep.count("runpair.identical_up_to_file_record_order");
        }
    }
    let _ = std::fs::remove_dir_all(&root);
}

pub fn replay(rep: &mut Report, case: &Value) -> bool {
    let c0 = if case.get("case").is_some() { &case["case"] } else { case };
    if c0["op"].as_str() != Some("runpair") {
        return false;
    }
    let c = Case {
        inputs: c0["inputs"].as_array().unwrap().iter().map(|e| (e[0].as_str().unwrap().to_string(), unhex(e[1].as_str().unwrap()))).collect(),
        ty: c0["type"].as_str().unwrap().to_string(),
        sorted: c0["sorted"].as_bool().unwrap_or(false),
    };
    let runs: Vec<(usize, Vec<String>, Option<u64>)> = c0["runs"].as_array().unwrap().iter().map(|r| (
        r["threads"].as_u64().unwrap() as usize,
        r["args"].as_array().unwrap().iter().map(|a| a.as_str().unwrap().to_string()).collect(),
        r["perturb"].as_u64())).collect();
    let root = rep.workdir.join("runpair_replay");
    for _ in 0..5 {
        rep.case("runpair replay", true);
        if !eval(rep, &root, &c, &runs) {
            break;
        }
    }
    true
}
